"""Shared machinery for the BLDFM checks: TLC runner, evidence, replays, known findings.

Everything here is standard-library Python so that it runs under /venv/bin/python
(the interpreter that has the repository's dependencies).
"""

import hashlib
import json
import os
import re
import shutil
import subprocess
import sys
import time

VERIF = os.path.dirname(os.path.dirname(os.path.abspath(__file__)))
SPEC = os.path.join(VERIF, "spec")
# VERIF_SANDBOX redirects everything a run writes (scratch, evidence, replays); used only when a check is pointed
# at a scratch copy of the repository (BLDFM_REPO) to try a seeded change, so that /verif's own evidence stays put
_SB = os.environ.get("VERIF_SANDBOX")
OUT = os.path.join(_SB or VERIF, "out")
EVID = os.path.join(_SB or VERIF, "evidence")
REPLAYS = os.path.join(_SB or VERIF, "replays")
REPO = os.environ.get("BLDFM_REPO", "/repo")
PY = "/venv/bin/python"
NCPU = os.cpu_count() or 4


def seed():
    try:
        return int(os.environ.get("VERIF_SEED", "0"))
    except ValueError:
        return 0


def tier(default="quick"):
    t = os.environ.get("VERIF_TIER", default)
    return t if t in ("quick", "thorough") else default


def quiet_package_logging():
    import logging

    logging.getLogger("bldfm").setLevel(logging.ERROR)
    logging.getLogger("numba").setLevel(logging.ERROR)


class MachineryError(Exception):
    """The checking machinery itself failed (exit code 2, never a verdict)."""


def scratch(name):
    d = os.path.join(OUT, name)
    shutil.rmtree(d, ignore_errors=True)
    os.makedirs(d, exist_ok=True)
    return d


# --------------------------------------------------------------------------- TLC


class TLCResult:
    def __init__(self):
        self.generated = 0
        self.distinct = 0
        self.depth = 0
        self.ok = False
        self.violated = None  # name of violated invariant/property
        self.output = ""
        self.emitted = []  # JSON objects printed by the spec with PrintT("@@" \o ToJson(..))
        self.wall = 0.0
        self.coverage = {}  # action name -> (distinct, total) when -coverage was given
        self.trace = []  # error-trace states as text blocks

    def summary(self):
        return {
            "states_generated": self.generated,
            "distinct_states": self.distinct,
            "depth": self.depth,
            "ok": self.ok,
            "violated": self.violated,
            "wall_s": round(self.wall, 2),
        }


_RE_STATES = re.compile(r"(\d+) states generated, (\d+) distinct states found")
_RE_SIMSTATES = re.compile(r"The number of states generated: (\d+)")
_RE_DEPTH = re.compile(r"depth of the complete state graph search is (\d+)")
_RE_VIOL = re.compile(r"Error: Invariant (\S+) is violated")
_RE_APROP = re.compile(r"Error: Action property (\S+) is violated")
_RE_CONSTINV = re.compile(r"Error: The invariant of (\S+) is equal to FALSE")
_RE_COV = re.compile(r"^<(\w+) line \d+, col \d+ to line \d+, col \d+ of module (\w+)>: (\d+):(\d+)")


def run_tlc(
    module,
    cfg=None,
    workers=None,
    timeout=1800,
    env=None,
    simulate=None,
    coverage=False,
    extra=(),
    name=None,
    deadlock=False,
    heap=None,
):
    """Run TLC on spec/<module>.tla with spec/<cfg>.cfg. Returns a TLCResult.

    Raises MachineryError when TLC fails for a reason other than a property violation
    (parse error, evaluation error, timeout).
    """
    cfg = cfg or module
    name = name or cfg
    meta = scratch("tlc_" + name)
    cmd = ["tlc"]
    cmd += ["-workers", str(workers or NCPU), "-metadir", meta, "-noGenerateSpecTE"]
    cmd += ["-config", cfg + ".cfg"]
    if deadlock:
        pass
    if coverage:
        cmd += ["-coverage", "1"]
    if simulate:
        cmd += ["-simulate", simulate]
    cmd += list(extra)
    cmd += [module + ".tla"]
    e = dict(os.environ)
    if heap:
        e["JAVA_TOOL_OPTIONS"] = (e.get("JAVA_TOOL_OPTIONS", "") + " -Xmx" + heap).strip()
    if env:
        e.update(env)
    t0 = time.time()
    try:
        p = subprocess.run(
            cmd, cwd=SPEC, env=e, stdout=subprocess.PIPE, stderr=subprocess.STDOUT, timeout=timeout, text=True
        )
    except subprocess.TimeoutExpired as ex:
        subprocess.run(["pkill", "-f", "tlc2[.]TLC"], check=False)
        raise MachineryError("TLC timed out on %s/%s after %ss" % (module, cfg, timeout)) from ex
    r = TLCResult()
    r.wall = time.time() - t0
    r.output = p.stdout
    for line in p.stdout.splitlines():
        if line.startswith('"@@'):
            try:
                r.emitted.append(json.loads(json.loads(line)[2:]))
            except Exception:
                raise MachineryError("cannot parse TLC emitted line: " + line[:200])
            continue
        m = _RE_STATES.search(line)
        if m:
            r.generated, r.distinct = int(m.group(1)), int(m.group(2))
        m = _RE_SIMSTATES.search(line)
        if m and simulate:
            r.generated = r.distinct = int(m.group(1))
        m = _RE_DEPTH.search(line)
        if m:
            r.depth = int(m.group(1))
        m = _RE_VIOL.search(line) or _RE_APROP.search(line) or _RE_CONSTINV.search(line)
        if m:
            r.violated = m.group(1)
        m = _RE_COV.match(line)
        if m:
            r.coverage[m.group(1)] = (int(m.group(3)), int(m.group(4)))
    if "Model checking completed. No error has been found." in p.stdout or (
        simulate and p.returncode == 0 and r.violated is None
    ):
        r.ok = True
    elif r.violated is not None or "is violated" in p.stdout:
        r.ok = False
        if r.violated is None:
            r.violated = "?"
    else:
        tail = "\n".join(p.stdout.splitlines()[-40:])
        raise MachineryError("TLC failed on %s/%s (rc=%s):\n%s" % (module, cfg, p.returncode, tail))
    shutil.rmtree(meta, ignore_errors=True)
    return r


# Invariants of the specifications that speak about internal state only (thread counts of an FFT, which kernel variant
# ran, whether a worker reset the inherited state, whether a task was taken twice).  A recorded trace that violates one of
# them deviates from the DESIGN the specification describes, but no listed property observes it (results are compared
# separately, bit for bit): reported as drift, never as a VIOLATION.
INTERNAL_INVARIANTS = {"Pure", "ManagerSingleAfterSolve", "KernelMatchesSetting", "NumbaFollowsSetting", "InitBeforeSolve", "EveryTaskOnce",
                       "WorkerFFTsSingle", "WorkerSolvesReset"}


# ----------------------------------------------------------------- known findings


def known_findings():
    p = os.path.join(VERIF, "known_findings.json")
    if not os.path.exists(p):
        return {"open": [], "fixed": []}
    return json.load(open(p))


# ---------------------------------------------------------------------- evidence


class Check:
    """Collects verdicts and coverage of one property check and writes the evidence file."""

    def __init__(self, prop, level="model_checking"):
        self.prop = prop
        self.level = level
        self.t0 = time.time()
        self.tier = tier()
        self.seed = seed()
        self.states = 0
        self.transitions = 0
        self.traces = 0
        self.evaluations = 0
        self.nontrivial = set()
        self.samples = []
        self.violations = []
        self.known_hits = {}
        self.drift = []
        self.extra = {}
        self.assumptions = []
        self.tlc_runs = []
        self.rule = ""
        self._known = [k for k in known_findings().get("open", []) if k.get("property") == prop]

    # -- TLC bookkeeping
    def add_tlc(self, name, r, expect_violation=False):
        self.states += r.distinct
        self.transitions += r.generated
        d = r.summary()
        d["config"] = name
        d["expect_violation"] = expect_violation
        self.tlc_runs.append(d)

    def sample(self, obj, limit=6):
        if len(self.samples) < limit:
            self.samples.append(obj)

    def case(self, key, nontrivial=True):
        self.evaluations += 1
        if nontrivial:
            self.nontrivial.add(key if isinstance(key, (str, int, tuple)) else json.dumps(key, sort_keys=True))

    # -- verdicts
    def violation(self, what, scenario, klass=None):
        """Record a property violation observed on the real code (or the model).

        `klass` is a dict describing the failing-input class, matched against known findings.
        """
        for k in self._known:
            if klass is not None and _match(k.get("match", {}), klass):
                self.known_hits.setdefault(k["id"], {"entry": k, "count": 0, "example": scenario, "what": what})
                self.known_hits[k["id"]]["count"] += 1
                return False
        self.violations.append({"what": what, "scenario": scenario, "class": klass})
        return True

    def drift_note(self, what):
        if len(self.drift) < 50:
            self.drift.append(what)

    def finish(self):
        os.makedirs(EVID, exist_ok=True)
        wall = time.time() - self.t0
        cov = {
            "states": int(self.states),
            "transitions": int(self.transitions),
            "traces_validated_against_impl": int(self.traces),
            "samples": self.samples or [{"note": "no sample recorded"}],
            "evaluations": int(self.evaluations),
            "distinct_nontrivial": len(self.nontrivial),
            "rule": self.rule,
            "tlc_runs": self.tlc_runs,
            "drift": self.drift,
            "known_findings_hit": {k: v["count"] for k, v in self.known_hits.items()},
        }
        cov.update(self.extra)
        ev = {
            "property_id": self.prop,
            "tier": self.tier,
            "seed": self.seed,
            "level": self.level,
            "coverage": cov,
            "assumptions": self.assumptions,
            "wall_s": round(wall, 2),
            "violations": len(self.violations),
        }
        with open(os.path.join(EVID, self.prop + ".json"), "w") as f:
            json.dump(ev, f, indent=1, default=_plain)
        for k, v in self.known_hits.items():
            print("KNOWN-FINDING: property=%s %s (%d occurrences this run; %s)" % (self.prop, v["entry"]["what"], v["count"], k))
        if self.violations:
            d = os.path.join(REPLAYS, self.prop)
            os.makedirs(d, exist_ok=True)
            seen = set()
            for v in self.violations[:20]:
                blob = json.dumps(v, sort_keys=True, default=_plain)
                h = hashlib.sha1(blob.encode()).hexdigest()[:12]
                if h in seen:
                    continue
                seen.add(h)
                path = os.path.join(d, h + ".json")
                with open(path, "w") as f:
                    f.write(blob)
                print("VIOLATION property=%s replay=%s" % (self.prop, path))
                print("  what: %s" % v["what"])
            if len(self.violations) > 20:
                print("  (%d further violations not written)" % (len(self.violations) - 20))
            return 1
        print(
            "OK property=%s tier=%s states=%d traces=%d evaluations=%d wall=%.1fs"
            % (self.prop, self.tier, self.states, self.traces, self.evaluations, wall)
        )
        return 0


def _plain(o):
    try:
        import numpy as np

        if isinstance(o, np.generic):
            return o.item()
        if isinstance(o, np.ndarray):
            return o.tolist()
    except Exception:
        pass
    if isinstance(o, (set, frozenset, tuple)):
        return list(o)
    return repr(o)


def _match(pattern, klass):
    """A known finding matches when every key of its pattern equals the class's value
    (a list in the pattern means 'any of')."""
    for k, v in pattern.items():
        if k not in klass:
            return False
        if isinstance(v, list):
            if klass[k] not in v:
                return False
        elif klass[k] != v:
            return False
    return True


def _exception_in_code_under_test(ex):
    """An exception no replay anticipated. If it was raised INSIDE the package under test, or in a library the package called
    (a frame under <tree>/src below the last harness frame), in a call for which the specification predicts a result, the code misbehaved: that is reported as a
    violation (on the unchanged tree no replay raises). Anything raised in the harness itself - including a call of a
    package function that does not exist any more or takes other arguments - stays a machinery failure."""
    import hashlib
    import traceback

    tb = traceback.extract_tb(ex.__traceback__)
    src = os.path.realpath(os.path.join(REPO, "src")) + os.sep
    ours = os.path.realpath(VERIF) + os.sep
    idx = [i for i, f in enumerate(tb) if os.path.realpath(f.filename).startswith(ours)]
    if not tb or not idx:
        return None
    # frames below the last harness frame: the exception was raised in the package, or in a library the package called
    below = [f for f in tb[idx[-1] + 1:] if os.path.realpath(f.filename).startswith(src)]
    if not below:
        return None
    prop = sys.argv[1] if len(sys.argv) > 1 else "unknown"
    where = tb[idx[-1]]
    what = "a replay for which the specification predicts a result raised %s: %s (in %s:%d, called from %s:%d)" % (
        type(ex).__name__, str(ex)[:160], os.path.relpath(below[-1].filename, REPO), below[-1].lineno, os.path.relpath(where.filename, VERIF), where.lineno)
    d = os.path.join(REPLAYS, prop)
    os.makedirs(d, exist_ok=True)
    path = os.path.join(d, "exception_%s.json" % hashlib.sha1(what.encode()).hexdigest()[:12])
    with open(path, "w") as fh:
        json.dump({"property": prop, "what": what, "class": {"check": "uncaught_exception", "exception": type(ex).__name__},
                   "traceback": traceback.format_exception(type(ex), ex, ex.__traceback__)}, fh, indent=1)
    print("VIOLATION property=%s replay=%s" % (prop, path))
    print("  what: " + what)
    return 1


def main_wrapper(fn):
    try:
        rc = fn()
    except MachineryError as e:
        print("MACHINERY-FAILURE: %s" % e)
        rc = 2
    except Exception as ex:
        import traceback

        traceback.print_exc()
        rc = _exception_in_code_under_test(ex)
        if rc is None:
            print("MACHINERY-FAILURE: unexpected exception in the harness")
            rc = 2
    sys.stdout.flush()
    sys.stderr.flush()
    # skip interpreter-shutdown handlers of the package under test (pyfftw's cache thread cannot be
    # restarted at shutdown and prints a traceback; nothing of ours depends on them)
    os._exit(rc)
