"""Traces of the repository's OWN tests, recorded with the hooks on, validated against the specification.

The repository's solver-calling tests run at sizes the bounded model never enumerates (512 modes, 128x64 grids,
nz = 16..64); only integers are compared, so size does not matter to TLC.  Every recorded solver call goes
through TraceSolver, the cache events of the test process through TraceCache, its runtime events through
TraceRuntime and its parallel runs through TraceDrivers.  Used by the thorough tier of C11 / C15 / C12 / C14.
"""

import json
import os
import subprocess

from . import common
from .common import MachineryError

TEST_FILES = ["tests/test_integration.py", "tests/test_interface.py", "tests/test_cache.py", "tests/test_parallel.py", "tests/test_io.py", "tests/test_memory.py"]

EXAMPLE_CONFIGS = ["timeseries.yaml", "minimal.yaml", "footprint.yaml", "minimal_3d.yaml", "3d_plume.yaml", "multitower.yaml", "visualization.yaml"]

_RECORDED = {}


def record(name="repo_tests"):
    """run the repository's solver-calling tests once with the hooks on; returns the trace file"""
    if name in _RECORDED:
        return _RECORDED[name]
    d = common.scratch("repo_tests_" + name)
    tf = os.path.join(d, "events.ndjson")
    env = dict(os.environ, BLDFM_VERIF="1", BLDFM_VERIF_TRACE=tf, PYTHONPATH=os.path.join(common.REPO, "src"), MPLBACKEND="Agg")
    files = [os.path.join(common.REPO, f) for f in TEST_FILES if os.path.exists(os.path.join(common.REPO, f))]
    p = subprocess.run([common.PY, "-m", "pytest", "-q", "-p", "no:cacheprovider", "--timeout=900", "-x"] + files,
                       cwd=d, env=env, stdout=subprocess.PIPE, stderr=subprocess.STDOUT, text=True)
    lines = [l for l in p.stdout.strip().splitlines() if " passed" in l or " failed" in l or " error" in l]
    tail = lines[-1].strip("= ") if lines else ""
    if p.returncode != 0 or not os.path.exists(tf):
        raise MachineryError("recording the repository's tests with hooks on failed: %s" % tail)
    # the repository's example configurations through its command line (bldfm run <yaml>), same trace file
    n_ex = 0
    for ex in EXAMPLE_CONFIGS:
        cfgp = os.path.join(common.REPO, "examples", "configs", ex)
        if not os.path.exists(cfgp):
            continue
        pe = subprocess.run([common.PY, "-m", "bldfm.cli", "run", cfgp], cwd=d, env=env, stdout=subprocess.PIPE, stderr=subprocess.STDOUT, text=True, timeout=1200)
        n_ex += pe.returncode == 0
    tail = "%s; %d example configurations run through the CLI" % (tail, n_ex)
    _RECORDED[name] = (tf, tail)
    return tf, tail


def main_pid(tracefile):
    """the pytest process: the pid with the most events"""
    from collections import Counter

    c = Counter()
    with open(tracefile) as f:
        for line in f:
            try:
                c[json.loads(line)["pid"]] += 1
            except Exception:
                pass
    return c.most_common(1)[0][0]


def solver_calls(chk, prop, tracefile):
    from . import trace_solver, realsolver as rs
    from .check_solver import validate_traces

    before = chk.traces
    os.environ["BLDFM_VERIF_TRACE"] = tracefile  # validate_traces pops it
    validate_traces(chk, prop, rs, tracefile, limit=40000)
    chk.extra["repo_tests_solver_calls"] = chk.extra.pop("trace_validation", None)
    return chk.traces - before


def cache_events(chk, tracefile):
    from .trace_solver import read_events
    from .check_cache import CACHE_EVENTS
    from .common import run_tlc

    pid = main_pid(tracefile)
    # only the solver's use of the cache follows the lookup-then-store protocol of Cache.tla; the unit tests that call
    # get / put / clear on the class directly are not solver requests and are left out
    allev = [e for e in read_events(tracefile) if e["pid"] == pid]
    allev.sort(key=lambda e: e["seq"])
    dirs = {}
    tr = []
    in_call = False
    with_cache = False
    for e in allev:
        ev = e["ev"]
        if ev == "enter":
            in_call, with_cache = True, bool(e.get("cache"))
        elif ev == "return_cached" or (ev == "return" and not with_cache):
            in_call = False
        if ev in CACHE_EVENTS and in_call:
            dk = dirs.setdefault(e.get("dir", ""), "d%d:" % len(dirs))
            tr.append({"e": ev, "key": dk + e.get("key", ""), "exists": bool(e.get("exists", False))})
            if ev == "cache_put_end":
                in_call = False
    chk.extra["repo_tests_cache_events"] = len(tr)
    if not tr:
        return 0
    d = common.scratch("trace_repo_cache")
    tf = os.path.join(d, "cache_trace.json")
    json.dump(tr, open(tf, "w"))
    r = run_tlc("TraceCache", "TraceCache", workers=1, env={"TRACE_FILE": tf}, name="trace_repo_cache")
    reached = max([x["l"] for x in r.emitted] or [0])
    chk.states += r.distinct
    chk.transitions += r.generated
    ok = reached == len(tr) + 1
    chk.extra["repo_tests_cache_trace_accepted"] = ok
    if not ok:
        bad = tr[reached - 1]
        ctx = tr[max(0, reached - 6): reached]
        if bad["e"] == "cache_hit":
            chk.violation("in the repository's tests the cache returned an entry that is not a completely stored one", {"kind": "repo_cache_trace", "context": ctx}, klass={"check": "trace_partial_returned"})
        elif bad["e"] == "cache_put_begin":
            chk.violation("in the repository's tests a request stored a result although its lookup was served, or under another key than it looked up", {"kind": "repo_cache_trace", "context": ctx}, klass={"check": "trace_put"})
        else:
            chk.drift_note("repository tests: cache trace not explained at event %d: %s" % (reached, json.dumps(ctx)))
    return 1 if ok else 0


def parallel_runs(chk, tracefile):
    from . import trace_drivers

    pid = main_pid(tracefile)
    runs = [trace_drivers.to_model(r) for r in trace_drivers.collect_runs(tracefile, pid)]
    runs = [r for r in runs if r["nt"] <= 3 and r["ns"] <= 3]
    chk.extra["repo_tests_parallel_runs"] = len(runs)
    if not runs:
        return 0
    from .common import run_tlc

    d = common.scratch("trace_repo_drivers")
    tf = os.path.join(d, "runs.json")
    json.dump(runs, open(tf, "w"))
    r = run_tlc("TraceDrivers", "TraceDrivers", env={"TRACE_FILE": tf, "JAVA_TOOL_OPTIONS": "-XX:+UseParallelGC -Xmx8g"}, name="trace_repo_drivers", timeout=2400)
    chk.states += r.distinct
    chk.transitions += r.generated
    if not r.ok and r.violated in common.INTERNAL_INVARIANTS:
        chk.drift_note("a parallel run of the repository's tests violates %s of Drivers.tla (internal state)" % r.violated)
        return 0
    if not r.ok:
        chk.violation("a parallel run of the repository's tests violates %s of Drivers.tla" % r.violated, {"kind": "repo_driver_trace"}, klass={"check": "trace_invariant"})
        return 0
    done = {e["run"]: e["ok"] for e in r.emitted}
    acc = sum(1 for i in range(1, len(runs) + 1) if done.get(i))
    chk.extra["repo_tests_parallel_runs_accepted"] = acc
    for i, run in enumerate(runs, 1):
        if i in done and not done[i]:
            chk.violation("a parallel run of the repository's tests ended with keys %s / lengths %s" % (run["keys"], run["lens"]), {"kind": "repo_driver_trace", "run": run}, klass={"check": "trace_keys"})
        elif i not in done:
            chk.drift_note("repository tests: parallel run %d not explained by the specification" % i)
    return acc


def runtime_events(chk, tracefile):
    """the runtime events of the pytest process (all its solves, manager resets and direct manager creations) vs TraceRuntime"""
    from .trace_solver import read_events
    from .common import run_tlc

    keep = {"mgr_reset", "enter", "mgr_create", "thread_setup", "kernel_compile", "kernel_call", "return", "raise", "return_cached"}
    pid = main_pid(tracefile)
    evs = [e for e in read_events(tracefile) if e["ev"] in keep and e["pid"] == pid]
    evs.sort(key=lambda e: e["seq"])
    tr = []
    for e in evs:
        r = {"e": e["ev"]}
        if e["ev"] == "enter":
            r["fp"], r["an"] = bool(e["footprint"]), bool(e["analytic"])
        elif e["ev"] == "mgr_create":
            r["threads"], r["fftw"] = e["threads"], e["fftw"]
        elif e["ev"] == "thread_setup":
            r.update(cfg=e["cfg"], numba=e["numba"], mgr=e["mgr"], fftw=e["fftw"])
        elif e["ev"] in ("kernel_compile", "kernel_call"):
            r["parallel"] = bool(e["parallel"])
        elif e["ev"] == "return":
            r["mgr"] = 0 if e["mgr"] is None else e["mgr"]
        tr.append(r)
    chk.extra["repo_tests_runtime_events"] = len(tr)
    if not tr:
        return 0
    d = common.scratch("trace_repo_runtime")
    tf = os.path.join(d, "runtime_trace.json")
    json.dump(tr, open(tf, "w"))
    r = run_tlc("TraceRuntime", "TraceRuntime", workers=1, env={"TRACE_FILE": tf}, name="trace_repo_runtime", timeout=1800)
    chk.states += r.distinct
    chk.transitions += r.generated
    reached = max([x["l"] for x in r.emitted] or [0])
    ok = r.ok and reached == len(tr) + 1
    chk.extra["repo_tests_runtime_events_matched"] = reached - 1
    chk.extra["repo_tests_runtime_trace_accepted"] = ok
    if not r.ok and r.violated in common.INTERNAL_INVARIANTS:
        chk.drift_note("the repository's tests, recorded with the hooks on, violate %s of Runtime.tla (internal state)" % r.violated)
    elif not r.ok:
        chk.violation("the repository's tests, recorded with the hooks on, violate %s of Runtime.tla" % r.violated, {"kind": "repo_runtime_trace", "context": tr[max(0, reached - 8): reached + 1]}, klass={"check": "trace_invariant"})
    elif not ok:
        chk.drift_note("repository tests: runtime trace not explained at event %d: %s" % (reached, json.dumps(tr[max(0, reached - 5): reached + 1])))
    return 1 if ok else 0
