"""Code -> specification for the parallel drivers: recorded events of all processes vs spec/TraceDrivers.tla."""

import json
import os

from . import common
from .common import MachineryError, run_tlc


def collect_runs(tracefile, parent_pid):
    """Group the trace (in file order: O_APPEND lines, so everything a pool's workers wrote lies between the
    parent's parallel_begin and parallel_end lines) into runs."""
    runs = []
    cur = None
    with open(tracefile) as f:
        for line in f:
            try:
                e = json.loads(line)
            except ValueError:
                continue
            ev = e["ev"]
            if e["pid"] == parent_pid:
                if ev == "ext_serial_begin":
                    cur = {"begin": dict(e, strategy=e["kind"], workers=1), "procs": {}, "order": [], "serial": True}
                    continue
                if ev == "ext_serial_end" and cur is not None and cur.get("serial"):
                    cur["end"] = e
                    runs.append(cur)
                    cur = None
                    continue
                if cur is not None and cur.get("serial"):
                    if ev in ("single_end", "series_begin", "series_end"):
                        cur["procs"].setdefault(parent_pid, [[]])[-1].append(e)
                    continue
                if ev == "parallel_begin":
                    cur = {"begin": e, "procs": {}, "order": []}
                elif ev == "parallel_end" and cur is not None:
                    cur["end"] = e
                    runs.append(cur)
                    cur = None
                continue
            if cur is None or ev not in ("worker_init", "single_end", "series_begin", "series_end"):
                continue
            key = e["pid"]
            # a pid reused by a later pool starts again at a small sequence number
            lives = cur["procs"].setdefault(key, [[]])
            if lives[-1] and e["seq"] < lives[-1][-1]["seq"]:
                lives.append([])
            lives[-1].append(e)
    return runs


def to_model(run):
    b, en = run["begin"], run["end"]
    names = list(b["towers"])
    idx = {n: i + 1 for i, n in enumerate(names)}
    strat = b["strategy"]
    nphase = len(names) if strat == "time" else 1
    if strat == "cli":
        # the CLI loop calls run_bldfm_single directly: no series markers
        pass
    procs = [[] for _ in range(nphase)]
    for pid, lives in run["procs"].items():
        for life in lives:
            evs = []
            life = sorted(life, key=lambda e: e["seq"])
            for e in life:
                if e["ev"] == "worker_init":
                    evs.append({"e": "init", "tower": idx[e["tower"]], "step": e["step"] + 1 if e["kind"] == "single" else 0, "thr": e["threads"]})
                elif e["ev"] == "single_end":
                    evs.append({"e": "solve", "tower": idx[e["tower"]], "step": e["step"] + 1, "thr": 0})
                elif e["ev"] == "series_begin":
                    evs.append({"e": "sbegin", "tower": idx[e["tower"]], "step": 0, "thr": 0})
                elif e["ev"] == "series_end":
                    evs.append({"e": "send", "tower": idx[e["tower"]], "step": e["n"], "thr": 0})
            if not evs:
                continue
            ph = evs[0]["tower"] if strat == "time" else 1
            procs[ph - 1].append(evs)
    keys = [idx.get(k, 0) for k in en["keys"]]
    return {"nt": len(names), "ns": b["n_time"], "nw": max(b["workers"], max(len(p) for p in procs) if procs else 1), "strat": strat,
            "keys": keys, "lens": list(en["lens"]), "procs": procs}


def validate(chk, tracefile):
    if not os.path.exists(tracefile):
        chk.drift_note("no driver events recorded")
        return
    runs = [to_model(r) for r in collect_runs(tracefile, os.getpid())]
    runs = [r for r in runs if r["nt"] <= 3 and r["ns"] <= 3]
    if not runs:
        chk.drift_note("no parallel runs recorded")
        return
    d = common.scratch("trace_drivers")
    tf = os.path.join(d, "runs.json")
    json.dump(runs, open(tf, "w"))
    r = run_tlc("TraceDrivers", "TraceDrivers", env={"TRACE_FILE": tf, "JAVA_TOOL_OPTIONS": "-XX:+UseParallelGC -Xmx8g"}, name="trace_drivers", timeout=2400)
    chk.states += r.distinct
    chk.transitions += r.generated
    if not r.ok and r.violated in common.INTERNAL_INVARIANTS:
        chk.drift_note("a recorded parallel run violates %s of Drivers.tla (internal state; results are compared separately)" % r.violated)
        return
    if not r.ok:
        chk.violation("a recorded parallel run violates %s of Drivers.tla" % r.violated, {"kind": "driver_trace", "invariant": r.violated}, klass={"check": "trace_invariant", "invariant": r.violated})
        return
    done = {e["run"]: e["ok"] for e in r.emitted}
    acc = 0
    for i, run in enumerate(runs, 1):
        if i in done and done[i]:
            acc += 1
        elif i in done:
            chk.violation("a recorded parallel run ended with keys %s / lengths %s for %d towers x %d steps" % (run["keys"], run["lens"], run["nt"], run["ns"]),
                          {"kind": "driver_trace", "run": run}, klass={"check": "trace_keys"})
        else:
            chk.drift_note("parallel run %d (%s, %dx%d, %d workers) is not explained by the specification: %s" % (i, run["strat"], run["nt"], run["ns"], run["nw"], json.dumps(run["procs"])[:600]))
    chk.extra["driver_traces"] = len(runs)
    chk.extra["driver_traces_accepted"] = acc
    chk.traces += acc
