"""C14: timeseries, multi-tower and parallel drivers return exactly the single runs, in configuration / time order.

TLC explores spec/Drivers.tla (every interleaving of take / init / solve / finish over the workers, all
strategies, shapes and worker counts in the bounds) and emits the run shapes with a completion order each.
The harness runs the real drivers for every emitted shape with per-task delays that steer the workers towards
that completion order (and random delays), and compares every field of every entry with run_bldfm_single.
The events of all processes are validated against the specification (spec/TraceDrivers.tla).
"""

import copy
import json
import os
import shutil
import time

import numpy as np

from . import common
from .common import Check, MachineryError, run_tlc, seed, tier

TOWERS = [
    {"name": "north", "lat": 50.0004, "lon": 11.0004, "z_m": 12.0},      # heights in no sorted order either (12, 8, 10)
    {"name": "alpha", "lat": 50.0002, "lon": 11.0009, "z_m": 8.0},
    {"name": "mid", "lat": 50.0005, "lon": 11.0013, "z_m": 10.0},
]


def make_config(nt, ns, use_cache=False, repeated_met=False, levels=None, nx=8, sweep=False, timestamps=True, solver_extra=None):
    from bldfm.config_parser import parse_config_dict

    # the records of a series are NOT in any sorted order (time order is the only order that counts): with three or more
    # steps the order of the directions is a 3-cycle of the time order, the friction velocities follow another permutation
    rank_wd = [(i + 1) % 3 + 3 * (i // 3) if 3 * (i // 3) + 2 < ns else i for i in range(ns)]
    rank_us = [ns - 1 - i if i % 2 == 0 else i for i in range(ns)]
    ustar = [0.30 + 0.07 * r for r in rank_us]
    wd = [200.0 + 35.0 * r for r in rank_wd]
    if repeated_met and ns >= 2:
        ustar[-1], wd[-1] = ustar[0], wd[0]
    if sweep:
        # a series in which only the wind direction varies from record to record
        ustar = 0.33
    dom = {"nx": nx, "ny": 6, "xmax": 160.0, "ymax": 90.0, "nz": 4, "modes": [8, 6], "halo": 20.0, "ref_lat": 50.0, "ref_lon": 11.0}
    if levels:
        dom["output_levels"] = levels
    raw = {
        "domain": dom,
        "towers": [dict(t) for t in TOWERS[:nt]],
        "met": dict({"ustar": ustar, "mol": -120.0, "wind_speed": 3.5, "wind_dir": wd}, **({"timestamps": ["%d:00" % (7 * i + 2) for i in range(ns)]} if timestamps else {})),      # "2:00", "9:00", "16:00", "23:00", "30:00": not in text order
        "solver": dict({"footprint": True, "precision": "double", "closure": "MOST"}, **(solver_extra or {})),
        "parallel": {"use_cache": bool(use_cache)},
    }
    return parse_config_dict(raw)


def same_entry(a, b):
    bad = []
    for k in ("conc", "flx"):
        if not (np.asarray(a[k]).shape == np.asarray(b[k]).shape and np.array_equal(np.asarray(a[k]), np.asarray(b[k]))):
            bad.append(k)
    if not all(np.array_equal(np.asarray(x), np.asarray(y)) for x, y in zip(a["grid"], b["grid"])):
        bad.append("grid")
    for k in ("tower_name", "tower_xy", "timestamp", "params"):
        if a[k] != b[k]:
            bad.append(k)
    return bad


class Delays:
    """wraps bldfm.interface.run_bldfm_single (before the fork) so that task (tower, step) takes delay[(tower, step)] longer"""

    def __init__(self, table):
        import bldfm.interface as iface

        self.iface = iface
        self.table = table
        self.orig = iface.run_bldfm_single

    def __enter__(self):
        orig, table = self.orig, self.table

        def delayed(config, tower, met_index=0, surface_flux=None, cache=None):
            d = table.get((tower.name, met_index), 0.0)
            out = orig(config, tower, met_index=met_index, surface_flux=surface_flux, cache=cache)
            if d:
                time.sleep(d)
            return out

        self.iface.run_bldfm_single = delayed
        return self

    def __exit__(self, *a):
        self.iface.run_bldfm_single = self.orig


def delay_table(cfg, strat, order, rng, mode):
    """delays per (tower, step): completion rank from the TLC order, or random"""
    names = [t.name for t in cfg.towers]
    ns = cfg.met.n_timesteps
    if strat == "towers":
        tasks = [(n, None) for n in names]
    elif strat == "time":
        tasks = [(None, s) for s in range(ns)]
    else:
        tasks = [(n, s) for n in names for s in range(ns)]
    tab = {}
    if mode == "random":
        for n in names:
            for s in range(ns):
                tab[(n, s)] = float(rng.choice([0.0, 0.01, 0.03, 0.06]))
        return tab
    rank = {pos: r for r, pos in enumerate(order)}
    for pos, (n, s) in enumerate(tasks, 1):
        d = 0.02 * rank.get(pos, 0)
        for nn in names:
            for ss in range(ns):
                if (n is None or nn == n) and (s is None or ss == s):
                    # a series task sleeps once (at its last step)
                    if strat == "towers" and ss != ns - 1:
                        continue
                    tab[(nn, ss)] = d
    return tab


def compare(chk, results, refs, cfg, sc, what):
    names = [t.name for t in cfg.towers]
    ns = cfg.met.n_timesteps
    if list(results.keys()) != names:
        chk.violation("%s: result keys %s are not the tower names in configuration order %s" % (what, list(results.keys()), names), sc, klass={"check": "key_order"})
        return False
    for n in names:
        if len(results[n]) != ns:
            chk.violation("%s: tower %s has %d entries for %d time steps" % (what, n, len(results[n]), ns), sc, klass={"check": "entry_count"})
            return False
        for s in range(ns):
            bad = same_entry(results[n][s], refs[(n, s)])
            if bad:
                chk.violation("%s: entry [%s][%d] differs from run_bldfm_single(tower=%s, step=%d) in %s (it is labelled %s/%s)"
                              % (what, n, s, n, s, bad, results[n][s].get("tower_name"), results[n][s].get("timestamp")), sc, klass={"check": "entry", "fields": ",".join(bad)})
                return False
    return True


def references(cfg):
    from bldfm import run_bldfm_single

    return {(t.name, s): run_bldfm_single(cfg, t, met_index=s) for t in cfg.towers for s in range(cfg.met.n_timesteps)}


def cli_runs(chk, cfg_cache, ref_cache):
    """drive bldfm.cli.cmd_run on a YAML file; the single runs it performs are captured where the CLI calls them"""
    import argparse
    import dataclasses
    import logging
    import yaml
    import bldfm.cli as cli
    from bldfm import config as rtcfg
    from bldfm import _verif

    n = 0
    for ck, cfg in cfg_cache.items():
        for threads in (1, 2):
            raw = {
                "domain": {k: v for k, v in dataclasses.asdict(cfg.domain).items() if v is not None and k not in ("output_levels",)},
                "towers": [{"name": t.name, "lat": t.lat, "lon": t.lon, "z_m": t.z_m} for t in cfg.towers],
                "met": {k: v for k, v in dataclasses.asdict(cfg.met).items() if v is not None},
                "solver": dataclasses.asdict(cfg.solver),
                "parallel": {"num_threads": threads, "max_workers": 1, "use_cache": False},
            }
            raw["domain"]["modes"] = list(raw["domain"]["modes"])
            raw["domain"].pop("full_output", None)
            raw["solver"] = {k: v for k, v in raw["solver"].items() if v is not None}
            path = os.path.join(os.getcwd(), "cli_%d_%d_%d.yaml" % (ck[0], ck[1], threads))
            with open(path, "w") as f:
                yaml.safe_dump(raw, f)
            captured = []
            orig = cli.run_bldfm_single

            def capture(config, tower, met_index=0, **kw):
                out = orig(config, tower, met_index=met_index, **kw)
                captured.append((tower.name, met_index, rtcfg.NUM_THREADS, out))
                return out

            cli.run_bldfm_single = capture
            sc = {"kind": "cli", "towers": ck[0], "steps": ck[1], "num_threads": threads}
            chk.case(json.dumps(["cli", ck, threads]))
            names = [t.name for t in cfg.towers]
            try:
                _verif.emit("ext_serial_begin", kind="cli", towers=names, n_time=ck[1])
                cli.cmd_run(argparse.Namespace(config=path, dry_run=False, plot=False))
                _verif.emit("ext_serial_end", keys=[c[0] for c in captured], lens=[1 for _ in captured])
            except Exception as ex:
                chk.violation("bldfm run raised %r" % ex, sc, klass={"check": "cli_exception"})
                continue
            finally:
                cli.run_bldfm_single = orig
                rtcfg.NUM_THREADS = 1
                logging.getLogger("bldfm").setLevel(logging.ERROR)
                logging.getLogger().setLevel(logging.ERROR)
            n += 1
            want = [(nm, s_) for nm in names for s_ in range(ck[1])]
            if sorted((c[0], c[1]) for c in captured) != sorted(want):
                chk.violation("bldfm run performed the single runs %s, not one per tower and time step %s" % ([(c[0], c[1]) for c in captured], want), sc, klass={"check": "cli_runs"})
                continue
            # the order of the loop and the moment the thread setting is applied are the specification's form, not the
            # property's: drift
            if [(c[0], c[1]) for c in captured] != want:
                chk.drift_note("bldfm run performed the single runs in the order %s, the specification's loop is towers outer / steps inner" % ([(c[0], c[1]) for c in captured],))
            if any(c[2] != threads for c in captured):
                chk.drift_note("bldfm run did not apply parallel.num_threads=%d before solving (saw %s)" % (threads, sorted({c[2] for c in captured})))
            refs = ref_cache[ck]
            for nm, s_, _, out in captured:
                ref = refs[(nm, s_)]
                if threads == 1:
                    bad = same_entry(out, ref)
                else:
                    d = max(float(np.max(np.abs(np.asarray(out[k]) - np.asarray(ref[k])))) / max(float(np.max(np.abs(np.asarray(ref[k])))), 1e-300) for k in ("conc", "flx"))
                    bad = ["conc/flx (%.2e)" % d] if d > 1e-12 else [k for k in ("tower_name", "timestamp", "params") if out[k] != ref[k]]
                if bad:
                    chk.violation("bldfm run: the run for (%s, %d) differs from run_bldfm_single in %s" % (nm, s_, bad), sc, klass={"check": "cli_entry"})
                    break
    return n


def main():
    import bldfm
    from bldfm import config as rtcfg
    from bldfm import run_bldfm_parallel, run_bldfm_multitower, run_bldfm_timeseries

    chk = Check("C14")
    t = tier()
    cfgname = "MC_Drivers_%s" % t
    r = run_tlc("Drivers", cfgname, env={"JAVA_TOOL_OPTIONS": "-XX:+UseParallelGC -Xmx12g"}, timeout=2400)
    chk.add_tlc(cfgname, r)
    if not r.ok:
        raise MachineryError("%s: %s violated on the specification" % (cfgname, r.violated))
    for sysc in ("MC_System_towers", "MC_System_both") + (("MC_System_big",) if t == "thorough" else ()):
        rs_ = run_tlc("System", sysc, workers=8)
        chk.add_tlc(sysc, rs_)
        if not rs_.ok:
            raise MachineryError("%s: %s violated on the composed specification" % (sysc, rs_.violated))
    if t == "thorough":
        for neg in ("MC_System_neg_noinit", "MC_System_neg_nocatch"):
            rn = run_tlc("System", neg, workers=8)
            chk.add_tlc(neg, rn, expect_violation=True)
            if rn.ok:
                raise MachineryError("negative control %s was not violated" % neg)
        for neg in ("MC_Drivers_neg_completion", "MC_Drivers_neg_slice", "MC_Drivers_neg_noinit"):
            rn = run_tlc("Drivers", neg)
            chk.add_tlc(neg, rn, expect_violation=True)
            if rn.ok:
                raise MachineryError("negative control %s was not violated" % neg)
    tracefile = os.path.join(common.scratch("trace_raw_C14"), "events.ndjson")
    os.environ["BLDFM_VERIF_TRACE"] = tracefile
    rng = np.random.default_rng(seed())
    # group emitted orders per run shape
    shapes = {}
    for e in r.emitted:
        c = e["cfg"]
        key = (c["nt"], c["ns"], c["nw"], c["strat"], c["pt"])
        shapes.setdefault(key, []).append(list(e["order"]))
    keys = sorted(k for k in shapes if k[3] in ("towers", "time", "both"))   # "serial" and "cli" are driven separately below
    if t == "quick":
        # all shapes of the quick model; at most 2 completion orders each
        per = 2
    else:
        per = 4
        keys = [k for k in keys if rng.random() < 0.45 or k[0] * k[1] <= 2]
    cfg_cache = {}
    ref_cache = {}
    nruns = 0
    for (nt, ns, nw, strat, pt) in keys:
        ck = (nt, ns)
        if ck not in cfg_cache:
            cfg_cache[ck] = make_config(nt, ns)
            rtcfg.NUM_THREADS = 1
            ref_cache[ck] = references(cfg_cache[ck])
        cfg, refs = cfg_cache[ck], ref_cache[ck]
        orders = shapes[(nt, ns, nw, strat, pt)]
        picks = [orders[i] for i in rng.choice(len(orders), size=min(per, len(orders)), replace=False)]
        for j, order in enumerate(picks + [None]):
            mode = "random" if order is None else "order"
            tab = delay_table(cfg, strat, order or [], rng, mode)
            sc = {"kind": "parallel", "towers": nt, "steps": ns, "workers": nw + (2 if order is None and nw == 3 else 0), "strategy": strat, "parent_threads": pt, "completion_order": order, "delays": {"%s/%d" % k: v for k, v in tab.items()}}
            chk.case(json.dumps([nt, ns, sc["workers"], strat, pt, order]))
            rtcfg.NUM_THREADS = pt
            try:
                with Delays(tab):
                    res = run_bldfm_parallel(cfg, max_workers=sc["workers"], parallel_over=strat)
            except Exception as ex:
                chk.violation("run_bldfm_parallel raised %r" % ex, sc, klass={"check": "exception"})
                continue
            finally:
                rtcfg.NUM_THREADS = 1
            nruns += 1
            compare(chk, res, refs, cfg, sc, "run_bldfm_parallel(%s, workers=%d, parent threads=%d)" % (strat, sc["workers"], pt))
    # the serial drivers
    for ck, cfg in cfg_cache.items():
        refs = ref_cache[ck]
        for pt in (1, 4):
            rtcfg.NUM_THREADS = pt
            sc = {"kind": "serial", "towers": ck[0], "steps": ck[1], "parent_threads": pt}
            from bldfm import _verif

            names_ = [t_.name for t_ in cfg.towers]
            try:
                _verif.emit("ext_serial_begin", kind="serial", towers=names_, n_time=ck[1])
                res = run_bldfm_multitower(cfg)
                _verif.emit("ext_serial_end", keys=list(res), lens=[len(v) for v in res.values()])
                ser = {t_.name: run_bldfm_timeseries(cfg, t_) for t_ in cfg.towers}
            finally:
                rtcfg.NUM_THREADS = 1
            nruns += 2
            chk.case(json.dumps(["serial", ck, pt]))
            if pt == 1:
                compare(chk, res, refs, cfg, sc, "run_bldfm_multitower")
                compare(chk, ser, refs, cfg, sc, "run_bldfm_timeseries per tower")
            else:
                # a multi-threaded parent solves with the parallel kernel: equal to rounding (C12), order and labels exact
                for n in res:
                    for s in range(ck[1]):
                        a, b = res[n][s], refs[(n, s)]
                        d = max(float(np.max(np.abs(np.asarray(a[k]) - np.asarray(b[k])))) / max(float(np.max(np.abs(np.asarray(b[k])))), 1e-300) for k in ("conc", "flx"))
                        if d > 1e-12 or a["timestamp"] != b["timestamp"] or a["tower_name"] != b["tower_name"]:
                            chk.violation("run_bldfm_multitower with 4 numerical threads differs from the single run by %.3e at [%s][%d]" % (d, n, s), sc, klass={"check": "serial_threads"})
    # the command-line loop (bldfm run config.yaml): towers outer, steps inner, one single run each, runtime settings applied
    nruns += cli_runs(chk, cfg_cache, ref_cache)
    # a direction sweep (only wind_dir varies from step to step) and a series with repeated records, cache off
    for kind, cfgs in (("sweep", make_config(2, 3, sweep=True)), ("repeated", make_config(2, 3, repeated_met=True)), ("no timestamps", make_config(2, 3, timestamps=False)),
                       ("five steps in no sorted order", make_config(1, 5, sweep=True)), ("levels below the top node", make_config(2, 3, levels=[1, 3])),
                       # every solver option of the configuration reaches every driver: a dispersion run of a non-default source
                       ("dispersion of a circular source off the centre", make_config(2, 2, solver_extra={"footprint": False, "surface_flux_shape": "circle", "src_loc": [60.0, 30.0]})),
                       ("dispersion of a point source", make_config(1, 3, solver_extra={"footprint": False, "surface_flux_shape": "point"}))):
        rtcfg.NUM_THREADS = 1
        refs_s = references(cfgs)
        for strat in ("serial", "towers", "time", "both"):
            sc = {"kind": kind, "strategy": strat}
            chk.case(json.dumps([kind, strat]))
            res = run_bldfm_multitower(cfgs) if strat == "serial" else run_bldfm_parallel(cfgs, max_workers=2, parallel_over=strat)
            nruns += 1
            compare(chk, res, refs_s, cfgs, sc, "%s series, %s" % (kind, strat))
    # a user-supplied flux map through the serial drivers of a configuration that ALSO asks for worker processes
    # (parallel.max_workers: 2): every entry is the single run with that map
    from bldfm import run_bldfm_single

    cfg_map = make_config(2, 2, solver_extra={"footprint": False})
    try:
        cfg_map.parallel.max_workers = 2
    except Exception:
        pass
    fmap = np.random.default_rng(seed() + 77).uniform(0.0, 2.0, size=(cfg_map.domain.ny, cfg_map.domain.nx))
    refs_map = {(t_.name, s_): run_bldfm_single(cfg_map, t_, met_index=s_, surface_flux=fmap) for t_ in cfg_map.towers for s_ in range(cfg_map.met.n_timesteps)}
    for drv in ("multitower", "timeseries"):
        sc = {"kind": "supplied flux map, max_workers 2", "driver": drv}
        chk.case(json.dumps(sc))
        nruns += 1
        if drv == "multitower":
            res = run_bldfm_multitower(cfg_map, surface_flux=fmap)
        else:
            from bldfm import run_bldfm_timeseries

            res = {t_.name: run_bldfm_timeseries(cfg_map, t_, surface_flux=fmap) for t_ in cfg_map.towers}
        compare(chk, res, refs_map, cfg_map, sc, "supplied flux map through run_bldfm_%s (max_workers 2)" % drv)
    # result caching on: a directory pre-populated by runs with other levels / another grid must not change anything
    work = os.getcwd()
    shutil.rmtree(os.path.join(work, ".bldfm_cache"), ignore_errors=True)
    nt, ns = (2, 2) if t == "quick" else (3, 3)
    pre1 = make_config(nt, ns, use_cache=True, levels=[1, 3])
    pre2 = make_config(nt, ns, use_cache=True, nx=10)
    run_bldfm_multitower(pre1)
    run_bldfm_multitower(pre2)
    cfgc = make_config(nt, ns, use_cache=True, repeated_met=True)
    refc = references(make_config(nt, ns, use_cache=False, repeated_met=True))
    for strat in ("serial", "towers", "time", "both"):
        sc = {"kind": "cache_on", "strategy": strat, "towers": nt, "steps": ns}
        chk.case(json.dumps(["cache", strat]))
        for rep in (1, 2):  # the second pass is served from the cache
            if strat == "serial":
                res = run_bldfm_multitower(cfgc)
            else:
                res = run_bldfm_parallel(cfgc, max_workers=2, parallel_over=strat)
            nruns += 1
            if not compare(chk, res, refc, cfgc, sc, "cache on, pre-populated directory, %s, pass %d" % (strat, rep)):
                break
    shutil.rmtree(os.path.join(work, ".bldfm_cache"), ignore_errors=True)
    # the composition (System.tla): parallel runs with the cache on, recorded on their own and validated as a whole -
    # pool order, worker reset, thread counts, lookups against the shared directory, in-place stores, assembly
    from . import trace_system

    sys_trace = os.path.join(common.scratch("trace_raw_C14_system"), "events.ndjson")
    main_trace = os.environ.get("BLDFM_VERIF_TRACE")
    os.environ["BLDFM_VERIF_TRACE"] = sys_trace
    plan = []
    try:
        for strat in ("towers", "both"):
            for pt in (1, 4):
                shutil.rmtree(os.path.join(work, ".bldfm_cache"), ignore_errors=True)
                for initfull in (False, True):
                    rtcfg.NUM_THREADS = pt
                    try:
                        res = run_bldfm_parallel(cfgc, max_workers=2, parallel_over=strat)
                    finally:
                        rtcfg.NUM_THREADS = 1
                    nruns += 1
                    plan.append((strat, pt, initfull))
                    compare(chk, res, refc, cfgc, {"kind": "system", "strategy": strat, "parent_threads": pt, "second_pass": initfull}, "cache on, %s, parent threads %d, pass %d" % (strat, pt, 2 if initfull else 1))
    finally:
        if main_trace:
            os.environ["BLDFM_VERIF_TRACE"] = main_trace
    shutil.rmtree(os.path.join(work, ".bldfm_cache"), ignore_errors=True)
    sruns = [trace_system.to_model(r) for r in trace_system.collect(sys_trace, os.getpid())]
    acc = 0
    if len(sruns) != len(plan):
        chk.drift_note("expected %d recorded cached parallel runs, found %d" % (len(plan), len(sruns)))
    for i, (mr, (strat, pt, initfull)) in enumerate(zip(sruns, plan)):
        acc += bool(trace_system.validate_run(chk, mr, "%d_%s_%d_%d" % (i, strat, pt, int(initfull)), pt, ns, initfull))
    chk.extra["system_traces"] = len(sruns)
    chk.extra["system_traces_accepted"] = acc
    chk.traces = nruns + acc
    chk.extra["driver_runs"] = nruns
    chk.extra["shapes"] = len(keys)
    os.environ.pop("BLDFM_VERIF_TRACE", None)
    from . import trace_drivers

    trace_drivers.validate(chk, tracefile)
    from . import lifecycle

    lifecycle.run(chk)  # advisory family (spec/Lifecycle.tla): initialize() / setup_logging() histories, drift only
    lifecycle.run_cli(chk)  # advisory family (spec/Cli.tla): `bldfm run [--dry-run] [--plot]` command histories, drift only
    if t == "thorough":
        from . import repo_tests

        tf, tail = repo_tests.record()
        chk.extra["repo_tests_pytest"] = tail
        chk.traces += repo_tests.parallel_runs(chk, tf)
    chk.rule = ("TLC explores all interleavings of Drivers.tla for every (towers, steps, workers, strategy, parent threads) in the bounds and emits completion orders; "
                "each shape is run on the real drivers with delays steering towards up to %d of those orders plus one random delay table; a case is one driver run" % per)
    for k in keys[:: max(1, len(keys) // 3)][:3]:
        chk.sample({"towers": k[0], "steps": k[1], "workers": k[2], "strategy": k[3], "parent_threads": k[4], "completion_orders_from_tlc": shapes[k][:2]})
    chk.assumptions += ["worker schedules are steered by sleeps, not controlled; the oracle (the single runs) does not depend on the schedule",
                        "user-supplied surface flux is documented not to reach worker processes; scenarios use the ideal source"]
    return chk.finish()
