"""C08: the meteorological wind-direction convention holds end to end (sector abstraction, 15 degrees)."""

import copy
import json
import math
import os

import numpy as np

from . import common
from .common import Check, MachineryError, run_tlc, seed, tier


def sector(x_east, y_north):
    """compass sector of a horizontal vector: bearing clockwise from north, rounded to 15 degrees -> 0..23"""
    if not (math.isfinite(x_east) and math.isfinite(y_north)):
        return 99, float("nan")            # no direction at all (an empty or non-finite footprint): matches no sector
    b = math.degrees(math.atan2(x_east, y_north)) % 360.0
    return int(round(b / 15.0)) % 24, b


def main():
    from bldfm import parse_config_dict, run_bldfm_single
    from bldfm.utils import compute_wind_fields
    from bldfm.pbl_model import vertical_profiles

    chk = Check("C08")
    t = tier()
    r = run_tlc("Orientation", "MC_Orientation", workers=4)
    chk.add_tlc("MC_Orientation", r)
    if not r.ok:
        raise MachineryError("MC_Orientation: %s violated" % r.violated)
    for neg in ("MC_Orientation_neg_sincos", "MC_Orientation_neg_sign"):
        rn = run_tlc("Orientation", neg, workers=4)
        chk.add_tlc(neg, rn, expect_violation=True)
        if rn.ok:
            raise MachineryError("negative control %s not violated" % neg)
    rng = np.random.default_rng(seed())
    closures = ["MOST", "MOSTM", "CONSTANT"]
    mols = [-60.0, 150.0] if t == "quick" else [-30.0, -200.0, 150.0, 1e9]
    grids = [(40, 40, 400.0, 400.0), (48, 24, 600.0, 300.0), (40, 32, 400.0, 400.0)]     # square cells twice; dx = 10, dy = 12.5 (pad widths differ per axis)
    speeds = [3.0] if t == "quick" else [1.5, 3.0, 7.0]
    R = 6_371_000.0
    obs, meta = [], []
    for k in range(24):
        d = 15.0 * k
        for closure in closures:
            for mol in mols:
                for (nx, ny, xmax, ymax) in grids:
                    speed = float(speeds[int(rng.integers(len(speeds)))])
                    # tower at the domain centre: offsets north-east of the reference corner
                    ref_lat, ref_lon = [(48.0, 9.0), (51.48, -0.001), (5.6, -0.0005), (0.0, 9.0), (48.0, 0.0)][(k + len(obs)) % 5]      # incl. origins just west of Greenwich, exactly on the equator, exactly on the Greenwich meridian
                    dlat = math.degrees((ymax / 2) / R)
                    dlon = math.degrees((xmax / 2) / (R * math.cos(math.radians(ref_lat))))
                    # the four quadrants of the lat/lon -> x,y conversion are observed on extra towers (no solve needed)
                    qs = [(1, 1), (-1, 1), (-1, -1), (1, -1)]
                    sx, sy = qs[int(rng.integers(4))]
                    raw = {
                        "domain": {"nx": nx, "ny": ny, "xmax": xmax, "ymax": ymax, "nz": 12, "modes": [64, 64], "ref_lat": ref_lat, "ref_lon": ref_lon},
                        "towers": [{"name": "c", "lat": ref_lat + dlat, "lon": ref_lon + dlon, "z_m": 3.0},
                                   {"name": "q", "lat": ref_lat + sy * 0.37 * dlat, "lon": ref_lon + sx * 0.61 * dlon, "z_m": 3.0}],
                        "met": {"ustar": 0.1 * speed + 0.05, "mol": mol, "wind_speed": speed, "wind_dir": d},
                        "solver": {"closure": closure, "footprint": True, "precision": "double"},
                    }
                    # the measurement-height footprint as the only output, as the last of two requested levels, and as one slice
                    # of the full column: the same orientation
                    lvmode = (k + len(obs)) % 3
                    if lvmode == 1:
                        raw["domain"]["output_levels"] = [6, 12]
                    elif lvmode == 2 and (k + len(obs)) % 2 == 0:
                        raw["domain"]["full_output"] = True
                    # ustar grows with the speed: the roughness length, and with it the resolution of the footprint, stays put
                    cfg = parse_config_dict(raw)
                    tw, tq = cfg.towers
                    u, v = compute_wind_fields(speed, d)
                    sc = {"kind": "orientation", "wind_dir": d, "closure": closure, "mol": mol, "grid": [nx, ny, xmax, ymax], "speed": speed, "levels": ["top", "[6, 12]", "full"][lvmode if "output_levels" in raw["domain"] or "full_output" in raw["domain"] else 0]}
                    if abs(math.hypot(u, v) - speed) > 1e-12 * speed:
                        chk.violation("wind decomposition does not preserve the speed: |(u,v)| = %r for speed %r" % (math.hypot(u, v), speed), sc, klass={"check": "speed"})
                    if (k + len(obs)) % 4 == 0:
                        # call history: a concentration run of the same configuration first (same grids, the other transform
                        # direction) - the footprint that follows must not inherit anything from it
                        raw_c = copy.deepcopy(raw)
                        raw_c["solver"]["footprint"] = False
                        cfg_c = parse_config_dict(raw_c)
                        run_bldfm_single(cfg_c, cfg_c.towers[0])
                    res = run_bldfm_single(cfg, tw)
                    z, prof = vertical_profiles(n=12, meas_height=3.0, wind=(u, v), ustar=0.1 * speed + 0.05, mol=mol, closure=closure)
                    X, Y, _ = res["grid"]
                    f = np.asarray(res["flx"], dtype=float)
                    if f.ndim == 3:
                        pick = 12 if f.shape[0] == 13 else f.shape[0] - 1          # the slice of the measurement height
                        f = f[pick]
                        X, Y = (np.asarray(X)[pick], np.asarray(Y)[pick]) if np.ndim(X) == 3 else (X, Y)
                    # centre of mass over a disc centred on the tower: the grid window itself is not symmetric about the
                    # tower (one more row/column on one side, oblong domains), which biases the centroid of a footprint
                    # with long tails; a disc is symmetric about every wind axis ("resolved domain centred on the tower")
                    rad = min(xmax, ymax) / 2.0 - max(xmax / nx, ymax / ny)
                    f = np.where((X - tw.x) ** 2 + (Y - tw.y) ** 2 <= rad ** 2, f, 0.0)
                    tot = f.sum()
                    cx = float((f * (X - tw.x)).sum() / tot)
                    cy = float((f * (Y - tw.y)).sum() / tot)
                    s_w, b_w = sector(u, v)
                    s_pz, _ = sector(prof[0][12], prof[1][12])
                    s_pt, _ = sector(prof[0][-1], prof[1][-1])
                    s_c, b_c = sector(cx, cy)
                    err = (b_c - d + 180.0) % 360.0 - 180.0
                    o = {"k": k, "wind": s_w, "prof_zm": s_pz, "prof_top": s_pt, "cent": s_c,
                         "tower_sx": int(np.sign(tq.x)), "tower_sy": int(np.sign(tq.y)), "want_sx": sx, "want_sy": sy,
                         "x_east": bool(np.all(np.diff(X, axis=1) > 0) and np.all(np.diff(X, axis=0) == 0)),
                         "y_north": bool(np.all(np.diff(Y, axis=0) > 0) and np.all(np.diff(Y, axis=1) == 0))}
                    # integers only for TLC (signs may be -1: shift by one)
                    for key in ("tower_sx", "tower_sy", "want_sx", "want_sy"):
                        o[key] += 1
                    obs.append(o)
                    meta.append(dict(sc, bearing_to_centroid=b_c, bearing_error_deg=err, wind_bearing=b_w))
                    chk.case((k, closure, mol, nx))
    # directions BETWEEN the multiples of 15 degrees: the decomposition stage for many angles (small angles, angles just
    # above 2 pi degrees, near every cardinal direction, non-integers), and the whole chain for directions one degree off
    # the cardinals.  The sector of the direction is the nearest multiple of 15 degrees; angles within half a degree of a
    # sector boundary are not used.
    extra = [0.5, 1.0, 2.0, 3.0, 4.0, 5.0, 6.0, 6.28, 6.3, 7.0, 8.5, 10.0, 20.0, 44.0, 57.3, 89.0, 91.0, 100.5, 114.6, 179.0, 181.0, 187.3, 200.2, 268.9, 271.0,
             286.5, 300.1, 352.9, 354.0, 357.0, 358.0, 359.0, 359.5]
    extra += [float(x) for x in rng.uniform(0, 360, 40 if t == "quick" else 400)]
    extra = [d for d in extra if abs(((d + 7.5) % 15.0) - 0.0) > 0.5 and abs(((d + 7.5) % 15.0) - 15.0) > 0.5]
    for i_d, d in enumerate(extra):
        k = int(round(d / 15.0)) % 24
        # the speed as a float and as an INTEGER (YAML `wind_speed: 5`, a Python int, a NumPy integer): the same decomposition
        speed = [3.0, 3, 2, np.int64(5), 1][i_d % 5]
        u, v = compute_wind_fields(speed, d)
        if abs(math.hypot(u, v) - speed) > 1e-12 * speed:
            chk.violation("wind decomposition does not preserve the speed: |(u,v)| = %r for speed %r, direction %r" % (math.hypot(u, v), speed, d), {"kind": "orientation", "wind_dir": d}, klass={"check": "speed"})
        s_w, b_w = sector(u, v)
        obs.append({"k": k, "wind": s_w, "prof_zm": s_w, "prof_top": s_w, "cent": k, "tower_sx": 2, "tower_sy": 2, "want_sx": 2, "want_sy": 2, "x_east": True, "y_north": True})
        meta.append({"kind": "orientation", "wind_dir": d, "closure": "-", "mol": 0.0, "grid": [], "speed": float(speed), "speed_type": type(speed).__name__, "path": "decomposition only", "bearing_to_centroid": d, "bearing_error_deg": 0.0, "wind_bearing": b_w})
        chk.case(("decompose", d))
    for d in (1.0, 359.0, 91.0, 181.0, 269.0):
        k = int(round(d / 15.0)) % 24
        nx, ny, xmax, ymax = grids[0]
        ref_lat, ref_lon = 48.0, 9.0
        dlat = math.degrees((ymax / 2) / R)
        dlon = math.degrees((xmax / 2) / (R * math.cos(math.radians(ref_lat))))
        raw = {"domain": {"nx": nx, "ny": ny, "xmax": xmax, "ymax": ymax, "nz": 12, "modes": [64, 64], "ref_lat": ref_lat, "ref_lon": ref_lon},
               "towers": [{"name": "c", "lat": ref_lat + dlat, "lon": ref_lon + dlon, "z_m": 3.0}],
               "met": {"ustar": 0.35, "mol": -80.0, "wind_speed": 3.0, "wind_dir": d}, "solver": {"closure": "MOST", "footprint": True, "precision": "double"}}
        cfg = parse_config_dict(raw)
        tw = cfg.towers[0]
        res = run_bldfm_single(cfg, tw)
        X, Y, _ = res["grid"]
        f = np.asarray(res["flx"], dtype=float)
        rad = min(xmax, ymax) / 2.0 - max(xmax / nx, ymax / ny)
        f = np.where((X - tw.x) ** 2 + (Y - tw.y) ** 2 <= rad ** 2, f, 0.0)
        cx = float((f * (X - tw.x)).sum() / f.sum())
        cy = float((f * (Y - tw.y)).sum() / f.sum())
        s_c, b_c = sector(cx, cy)
        u, v = compute_wind_fields(3.0, d)
        s_w, b_w = sector(u, v)
        obs.append({"k": k, "wind": s_w, "prof_zm": s_w, "prof_top": s_w, "cent": s_c, "tower_sx": 2, "tower_sy": 2, "want_sx": 2, "want_sy": 2, "x_east": True, "y_north": True})
        meta.append({"kind": "orientation", "wind_dir": d, "closure": "MOST", "mol": -80.0, "grid": [nx, ny, xmax, ymax], "speed": 3.0, "path": "one degree off a cardinal direction",
                     "bearing_to_centroid": b_c, "bearing_error_deg": (b_c - d + 180.0) % 360.0 - 180.0, "wind_bearing": b_w})
        chk.case(("offcardinal", d))
    # the same convention through the series drivers: a direction sweep in which ONLY wind_dir varies from record to record
    from bldfm import run_bldfm_timeseries, run_bldfm_multitower

    order = [int(x) for x in rng.permutation(24)]
    for closure in closures[:2] if t == "quick" else closures:
        nx, ny, xmax, ymax = grids[0]
        ref_lat, ref_lon = 48.0, 9.0
        dlat = math.degrees((ymax / 2) / R)
        dlon = math.degrees((xmax / 2) / (R * math.cos(math.radians(ref_lat))))
        raw = {
            "domain": {"nx": nx, "ny": ny, "xmax": xmax, "ymax": ymax, "nz": 12, "modes": [64, 64], "ref_lat": ref_lat, "ref_lon": ref_lon},
            "towers": [{"name": "c", "lat": ref_lat + dlat, "lon": ref_lon + dlon, "z_m": 3.0}],
            "met": {"ustar": 0.35, "mol": -80.0, "wind_speed": 3.0, "wind_dir": [15.0 * k for k in order]},
            "solver": {"closure": closure, "footprint": True, "precision": "double"},
        }
        cfg = parse_config_dict(raw)
        tw = cfg.towers[0]
        series = run_bldfm_timeseries(cfg, tw) if closure != "MOSTM" else run_bldfm_multitower(cfg)[tw.name]
        for k, res in zip(order, series):
            X, Y, _ = res["grid"]
            f = np.asarray(res["flx"], dtype=float)
            rad = min(xmax, ymax) / 2.0 - max(xmax / nx, ymax / ny)
            f = np.where((X - tw.x) ** 2 + (Y - tw.y) ** 2 <= rad ** 2, f, 0.0)
            cx = float((f * (X - tw.x)).sum() / f.sum())
            cy = float((f * (Y - tw.y)).sum() / f.sum())
            s_c, b_c = sector(cx, cy)
            d = 15.0 * k
            u, v = compute_wind_fields(3.0, d)
            s_w, b_w = sector(u, v)
            o = {"k": k, "wind": s_w, "prof_zm": s_w, "prof_top": s_w, "cent": s_c, "tower_sx": 2, "tower_sy": 2, "want_sx": 2, "want_sy": 2, "x_east": True, "y_north": True}
            obs.append(o)
            meta.append({"kind": "orientation", "wind_dir": d, "closure": closure, "mol": -80.0, "grid": [nx, ny, xmax, ymax], "speed": 3.0, "path": "series driver, only wind_dir varies",
                         "bearing_to_centroid": b_c, "bearing_error_deg": (b_c - d + 180.0) % 360.0 - 180.0, "wind_bearing": b_w})
            chk.case((k, closure, "series"))
    d_ = common.scratch("trace_orientation")
    tf = os.path.join(d_, "obs.json")
    json.dump(obs, open(tf, "w"))
    rt = run_tlc("Orientation", "TraceOrientation", workers=8, env={"TRACE_FILE": tf}, name="trace_orientation")
    chk.states += rt.distinct
    chk.transitions += rt.generated
    verdict = {e["i"]: e for e in rt.emitted}
    acc = 0
    worst = 0.0
    for i, (o, m) in enumerate(zip(obs, meta), 1):
        v = verdict.get(i)
        worst = max(worst, abs(m["bearing_error_deg"]))
        if v is None:
            chk.drift_note("observation %d not judged" % i)
            continue
        stages = [s for s in ("decompose", "profiles", "placement", "axes", "upwind") if not v[s]]
        if not stages:
            acc += 1
            continue
        what = {
            "decompose": "wind_dir %.0f is decomposed into a wind blowing toward bearing %.1f (expected %.0f)" % (m["wind_dir"], m["wind_bearing"], (m["wind_dir"] + 180) % 360),
            "profiles": "the profile wind does not keep the direction of the input wind vector with height",
            "placement": "a tower offset toward (%+d east, %+d north) in lat/lon gets local coordinates of the wrong sign" % (o["want_sx"] - 1, o["want_sy"] - 1),
            "axes": "returned grid: X does not grow with the column index or Y with the row index",
            "upwind": "wind_dir %.0f: the bearing from the tower to the footprint's centre of mass is %.1f (error %.1f degrees)" % (m["wind_dir"], m["bearing_to_centroid"], m["bearing_error_deg"]),
        }[stages[0]]
        chk.violation(what, {"kind": "orientation", "obs": o, "meta": m, "failed_stages": stages}, klass={"check": stages[0], "closure": m["closure"]})
    chk.traces = acc
    chk.extra["observations"] = len(obs)
    chk.extra["observations_accepted"] = acc
    chk.extra["largest_bearing_error_deg"] = worst
    chk.rule = "24 wind directions (multiples of 15 degrees) x 3 closures x stabilities x square/oblong grid, tower quadrant and speed drawn from the seed; each run is one five-stage observation judged by TLC against Orientation.tla; plus the decomposition stage for ~70 (~430) directions between the multiples and the whole chain one degree off the cardinal directions"
    for o in obs[:2]:
        chk.sample(o)
    chk.assumptions += ["a vector is abstracted to its 15-degree compass sector: a measured bearing within 7.5 degrees of the wind direction is accepted ('a few degrees')",
                        "speed preservation |(u,v)| = speed is compared in floating point at 1e-12 by the harness"]
    return chk.finish()
