"""Code -> specification for the composition (parallel run with the cache on): spec/TraceSystem.tla."""

import json
import os

from . import common
from .common import run_tlc

KEEP = {"worker_init", "single_begin", "cache_get", "cache_hit", "mgr_create", "thread_setup", "kernel_call", "return", "cache_put_begin", "cache_put_end", "single_end"}


def collect(tracefile, parent_pid):
    """runs = [{'begin':…, 'end':…, 'procs': [[events of one worker process], …]}] grouped by position in the append-only file"""
    runs, cur = [], None
    with open(tracefile) as f:
        for line in f:
            try:
                e = json.loads(line)
            except ValueError:
                continue
            if e["pid"] == parent_pid:
                if e["ev"] == "parallel_begin":
                    cur = {"begin": e, "lives": {}, "order": []}
                elif e["ev"] == "parallel_end" and cur is not None:
                    cur["end"] = e
                    runs.append(cur)
                    cur = None
                continue
            if cur is None or e["ev"] not in KEEP:
                continue
            lives = cur["lives"].setdefault(e["pid"], [])
            if not lives or (lives[-1] and e["seq"] < lives[-1][-1]["seq"]):
                lives.append([])
                cur["order"].append((e["pid"], len(lives) - 1))
            lives[-1].append(e)
    return runs


def to_model(run):
    b, en = run["begin"], run["end"]
    names = list(b["towers"])
    idx = {n: i + 1 for i, n in enumerate(names)}
    procs = []
    for pid, li in run["order"]:
        evs = []
        for e in sorted(run["lives"][pid][li], key=lambda x: x["seq"]):
            k = e["ev"]
            if k == "worker_init":
                evs.append({"e": "init", "tower": idx[e["tower"]], "step": e["step"] + 1 if e["kind"] == "single" else 0, "thr": e["threads"]})
            elif k == "single_begin":
                evs.append({"e": "begin", "tower": idx[e["tower"]], "step": e["step"] + 1})
            elif k == "cache_get":
                evs.append({"e": "get", "exists": bool(e["exists"])})
            elif k == "cache_hit":
                evs.append({"e": "hit"})
            elif k == "mgr_create":
                evs.append({"e": "mgr_create", "thr": e["threads"]})
            elif k == "thread_setup":
                evs.append({"e": "thread_setup", "thr": e["cfg"], "mgr": e["mgr"], "fftw": e["fftw"]})
            elif k == "kernel_call":
                evs.append({"e": "kernel", "thr": 1 if e["parallel"] else 0})
            elif k == "return":
                evs.append({"e": "return"})
            elif k == "cache_put_begin":
                evs.append({"e": "put_begin"})
            elif k == "cache_put_end":
                evs.append({"e": "put_end"})
            elif k == "single_end":
                evs.append({"e": "end", "tower": idx[e["tower"]], "step": e["step"] + 1})
        if evs:
            procs.append(evs)
    return {"nt": len(names), "ns": b["n_time"], "nw": max(b["workers"], len(procs)), "strat": b["strategy"],
            "procs": procs, "keys": [idx.get(k, 0) for k in en["keys"]], "lens": list(en["lens"])}


def validate_run(chk, model_run, name, parent_threads, repeat_step, initfull):
    """one TLC run per recorded parallel run (the constants of the composition are those of the run)"""
    d = common.scratch("trace_system_" + name)
    tf = os.path.join(d, "run.json")
    tr = {"procs": model_run["procs"], "keys": model_run["keys"], "lens": model_run["lens"], "initfull": bool(initfull)}
    json.dump(tr, open(tf, "w"))
    cfg = os.path.join(d, "TraceSystem_run.cfg")
    with open(cfg, "w") as f:
        # only the "towers" strategy reaches the cache: its workers run run_bldfm_timeseries, which creates one;
        # the per-step workers of "time" / "both" call run_bldfm_single without a cache (the switch has no effect there)
        use_cache = "TRUE" if model_run["strat"] == "towers" else "FALSE"
        f.write("CONSTANTS\n  NT = %d NS = %d NW = %d\n  Strategy = \"%s\" ParentThreads = %d UseCache = %s RepeatStep = %d CatchLoad = TRUE WorkerInit = TRUE\n"
                % (model_run["nt"], model_run["ns"], model_run["nw"], model_run["strat"], parent_threads, use_cache, repeat_step))
        f.write("INIT TraceInit\nNEXT TNext\nVIEW View3\nCHECK_DEADLOCK FALSE\n")
        for inv in ("EachIsSingle", "HitsAreRight", "NeverFatal", "WorkerFFTsSingle", "WorkerSolvesReset", "Report"):
            f.write("INVARIANT %s\n" % inv)
    # run_tlc appends ".cfg": pass the path without the extension
    r = run_tlc("TraceSystem", cfg[:-4], workers=4, env={"TRACE_FILE": tf}, name="trace_system_" + name, timeout=1200)
    chk.states += r.distinct
    chk.transitions += r.generated
    if not r.ok and r.violated in common.INTERNAL_INVARIANTS:
        chk.drift_note("a recorded parallel run with caching violates %s of System.tla (internal state; results are compared separately)" % r.violated)
        return False
    if not r.ok:
        chk.violation("a recorded parallel run with caching violates %s of the composed specification System.tla" % r.violated,
                      {"kind": "system_trace", "run": name, "invariant": r.violated}, klass={"check": "system_trace_invariant", "invariant": r.violated})
        return False
    done = [e for e in r.emitted if e.get("done")]
    if done and all(e["keys_ok"] for e in done):
        return True
    if done:
        chk.violation("a recorded parallel run with caching ended with keys %s / lengths %s" % (model_run["keys"], model_run["lens"]), {"kind": "system_trace", "run": name}, klass={"check": "system_trace_keys"})
        return False
    chk.drift_note("parallel cached run %s is not explained by the composed specification (%d processes, %s)" % (name, len(model_run["procs"]), json.dumps(model_run["procs"])[:500]))
    return False
