"""C20: source-area rescaling and percentile contours mean what they say."""

import json
import os

import numpy as np

from . import common
from .common import Check, MachineryError, run_tlc, seed, tier


def shapes_for(n):
    return {5: [(1, 5), (5, 1)], 6: [(2, 3), (3, 2), (1, 6)]}.get(n, [(1, n)])


def grid_for(shape, form):
    ny, nx = shape
    x = np.arange(nx) * 2.0
    y = np.arange(ny) * 3.0
    if form == "2d":
        X, Y = np.meshgrid(x, y)
        return (X, Y, np.zeros((ny, nx)))
    return (x, y, np.zeros(1))


def dense_ranks(g):
    vals = sorted(set(g.ravel().tolist()))
    lut = {v: i for i, v in enumerate(vals)}
    return [lut[v] for v in g.ravel().tolist()]


def main():
    from bldfm.utils import get_source_area, source_area_contribution, source_area_circular, source_area_upwind, source_area_crosswind, source_area_sector
    from bldfm.plotting.footprint import extract_percentile_contour

    chk = Check("C20")
    t = tier()
    cfgname = "MC_SourceArea_%s" % t
    every = 1 if t == "quick" else 40
    r = run_tlc("SourceArea", cfgname, env={"EMIT_EVERY": str(every), "EMIT_PHASE": str(seed()), "JAVA_TOOL_OPTIONS": "-XX:+UseParallelGC -Xmx12g"}, timeout=3000)
    chk.add_tlc(cfgname, r)
    if not r.ok:
        raise MachineryError("%s: %s violated - the definitions do not have the stated consequences" % (cfgname, r.violated))
    n_eval = 0
    for e in r.emitted:
        f = np.array(e["f"], dtype=float)
        g = np.array(e["g"], dtype=float)
        n = len(f)
        nontrivial = len(set(e["g"])) < n or 0 in e["f"]
        chk.case((tuple(e["f"]), tuple(e["g"])), nontrivial)
        for shp in shapes_for(n)[: (1 if t == "quick" and n_eval % 3 else None)]:
            F, G = f.reshape(shp), g.reshape(shp)
            sc = {"kind": "enumerated", "f": e["f"], "g": e["g"], "shape": list(shp)}
            # the same values in different memory layouts (Fortran order, a transposed view): results are per logical cell
            lay = n_eval % 3
            if lay == 1:
                F, G = np.asfortranarray(F), np.asfortranarray(G)
            elif lay == 2:
                G = np.ascontiguousarray(G.T).T
            sc["layout"] = ["C", "Fortran", "transposed view of g"][lay]
            R = np.asarray(get_source_area(F, G), dtype=float)
            n_eval += 1
            if R.shape != tuple(shp):
                chk.violation("rescaled field has shape %s for input %s" % (R.shape, shp), sc, klass={"check": "shape"})
                break
            rr = R.ravel()
            bad = [c for c in range(n) if rr[c] not in [float(a) for a in e["allowed"][c]]]
            if bad:
                chk.violation("rescaled value %s at cell %d is not the sum of f over the cells with larger g (allowed %s)" % (rr[bad[0]], bad[0], e["allowed"][bad[0]]), sc, klass={"check": "rescaled"})
                break
            for con in e["contours"]:
                pct = con["pn"] / con["pd"]
                want_level, want_k = con["lk"]
                for form in ("2d", "1d"):
                    if min(shp) < 2:
                        continue  # the contour function needs two points per axis for the spacing
                    grid = grid_for(shp, form)
                    lvl, area = extract_percentile_contour(F, grid, pct=pct)
                    if lvl != float(want_level) or area != want_k * 6.0:
                        chk.violation("percentile contour p=%d/%d: level %s area %s, the definition gives level %s and %d cells of area 6" % (con["pn"], con["pd"], lvl, area, want_level, want_k), dict(sc, form=form), klass={"check": "contour"})
                        break
                else:
                    continue
                break
    chk.extra["enumerated_fields_replayed"] = len(r.emitted)
    # ---- code -> spec: observations on larger random fields with the built-in base functions
    rng = np.random.default_rng(seed())
    obs = []
    meta = []
    nobs = 400 if t == "quick" else 4000
    winds = [(1.0, 0.0), (0.0, -2.0), (3.0, 4.0), (-3.0, 4.0), (-1.0, -1.0)]
    for k in range(nobs):
        ny, nx = int(rng.integers(2, 6)), int(rng.integers(2, 7))
        kind = rng.choice(["random", "sparse", "ties", "zeros"])
        if kind == "random":
            F = rng.integers(0, 40, size=(ny, nx))
        elif kind == "sparse":
            F = np.where(rng.random((ny, nx)) < 0.3, rng.integers(1, 30, size=(ny, nx)), 0)
        elif kind == "ties":
            F = rng.integers(0, 3, size=(ny, nx))
        else:
            F = np.zeros((ny, nx), dtype=int)
            F.flat[rng.integers(ny * nx)] = 5
        F = F.astype(float)
        X, Y = np.meshgrid(np.arange(nx) * 2.0, np.arange(ny) * 3.0)
        meas = (float(rng.integers(0, nx)) * 2.0, float(rng.integers(0, ny)) * 3.0)
        wind = winds[int(rng.integers(len(winds)))]
        base = rng.choice(["contribution", "circular", "upwind", "crosswind", "sector", "random"])
        if base == "contribution":
            G = source_area_contribution(F)
        elif base == "circular":
            G = source_area_circular(X, Y, meas)
        elif base == "upwind":
            G = source_area_upwind(X, Y, meas, wind)
        elif base == "crosswind":
            G = source_area_crosswind(X, Y, meas, wind)
        elif base == "sector":
            G = source_area_sector(X, Y, meas, wind)
        else:
            G = rng.integers(0, 4, size=(ny, nx)).astype(float)
        lay = int(rng.integers(3))
        if lay == 1:
            F, G = np.asfortranarray(F), np.asfortranarray(G)
        elif lay == 2:
            G = np.ascontiguousarray(G.T).T
        R = np.asarray(get_source_area(F, G), dtype=float)
        pn, pd = int(rng.integers(1, 17)), 16
        threeD = bool(rng.random() < 0.3)
        if F.sum() > 0:
            if threeD:
                F3 = np.stack([rng.integers(0, 9, size=F.shape).astype(float), F])      # another field in the slice that is NOT asked for
                Z, Y3, X3 = np.meshgrid(np.array([1.0, 2.0]), np.arange(ny) * 3.0, np.arange(nx) * 2.0, indexing="ij")
                # the coordinates of a 3-D field as the solver returns them (3-D), as 2-D maps, or as axis vectors
                form3 = int(rng.integers(3))
                grid3 = (X3, Y3, Z) if form3 == 0 else (X3[0], Y3[0], np.array([1.0, 2.0])) if form3 == 1 else (np.arange(nx) * 2.0, np.arange(ny) * 3.0, np.array([1.0, 2.0]))
                lvl, area = extract_percentile_contour(F3, grid3, pct=pn / pd, level=1)
            else:
                lvl, area = extract_percentile_contour(F, (X, Y, np.zeros_like(X)), pct=pn / pd)
            K = area / 6.0
        else:
            lvl, K, pd = 0.0, 1.0, 0
        ints_ok = np.all(R == np.round(R)) and lvl == round(lvl) and K == round(K)
        if not ints_ok or R.shape != F.shape:
            chk.violation("rescaled field / contour of integer data is not integer-valued or has the wrong shape", {"kind": "observation", "f": F.tolist(), "g": G.tolist()}, klass={"check": "obs_form"})
            continue
        obs.append({"n": ny * nx, "f": [int(v) for v in F.ravel()], "g": dense_ranks(G), "r": [int(v) for v in R.ravel()], "pn": pn, "pd": pd, "level": int(lvl), "K": int(K)})
        meta.append({"base": str(base), "kind": str(kind), "shape": [ny, nx], "three_d": threeD, "wind": wind, "meas": meas})
    # ---- a footprint in SINGLE precision (what the solver returns by default) with a base field in double precision whose
    # distinct values lie closer together than single precision resolves: the ranking is the base field's own
    for rep in range(4):
        ny_, nx_ = 9 + rep, 12
        f32 = rng.integers(0, 9, size=(ny_, nx_)).astype(np.float32)
        g64 = (1.0 + rng.permutation(ny_ * nx_) * 1e-10).reshape(ny_, nx_)
        got = np.asarray(get_source_area(f32, g64), dtype=float)
        want = np.array([[float(f32[g64 > g64[j_, i_]].sum()) for i_ in range(nx_)] for j_ in range(ny_)])
        chk.case(("float32 footprint, close base values", rep))
        if got.shape != want.shape or not np.array_equal(got, want):
            nbad = int(np.sum(got != want)) if got.shape == want.shape else -1
            chk.violation("a single-precision footprint with a double-precision base field whose values differ by 1e-10: %d of %d cells do not hold the sum of the footprint over the cells with strictly larger base value" % (nbad, want.size),
                          {"kind": "float32_footprint", "shape": [ny_, nx_]}, klass={"check": "float32_footprint"})
            break
    # ---- LARGE fields (far beyond the cells TLC enumerates; an implementation may sort / accumulate in blocks): the
    # definitions of SourceArea.tla evaluated by the harness - sum of f over cells with larger g (exact when g has no ties,
    # a band [lo, lo + sum of the tied cells] otherwise), fewest highest-valued cells reaching p of the total
    nlarge = 0
    for (ny, nx, tie) in ((120, 150, False), (257, 33, True), (64, 1100, False), (301, 301, True))[: 3 if t == "quick" else 4]:
        F = rng.integers(0, 1000, size=(ny, nx)).astype(float)
        F[rng.random((ny, nx)) < 0.2] = 0.0
        G = (rng.integers(0, 50, size=(ny, nx)) if tie else rng.permutation(ny * nx).reshape(ny, nx)).astype(float)
        F0, G0 = F.copy(), G.copy()
        R = np.asarray(get_source_area(F, G), dtype=float)
        nlarge += 1
        sc = {"kind": "large_field", "shape": [ny, nx], "ties_in_g": tie}
        chk.case(("large", ny, nx, tie))
        if not (np.array_equal(F, F0) and np.array_equal(G, G0)):
            chk.violation("get_source_area modifies the arrays it is given", sc, klass={"check": "inputs_modified"})
            F, G = F0.copy(), G0.copy()
        order = np.argsort(-G.ravel(), kind="stable")
        fs, gs = F.ravel()[order], G.ravel()[order]
        csum = np.concatenate([[0.0], np.cumsum(fs)])
        first = np.searchsorted(-gs, -gs, side="left")             # index of the first cell of every tie group
        last = np.searchsorted(-gs, -gs, side="right")
        lo = np.empty(ny * nx)
        hi = np.empty(ny * nx)
        lo[order] = csum[first]
        hi[order] = csum[last]
        rr = R.ravel()
        if R.shape != F.shape or not (np.all(rr >= lo) and np.all(rr <= hi)):
            badc = int(np.argmax(~((rr >= lo) & (rr <= hi)))) if R.shape == F.shape else -1
            chk.violation("large field %dx%d: the rescaled value at cell %d is %s, outside the sum of f over the cells with larger g [%s, %s]" % (ny, nx, badc, rr[badc] if badc >= 0 else None, lo[badc], hi[badc]),
                          sc, klass={"check": "large_rescaled"})
            continue
        X, Y = np.meshgrid(np.arange(nx) * 2.0, np.arange(ny) * 3.0)
        desc = np.sort(F.ravel())[::-1]
        cs = np.cumsum(desc)
        for pn in (1, 5, 8, 13, 16):
            lvl, area = extract_percentile_contour(F, (X, Y, np.zeros_like(X)), pct=pn / 16.0)
            k = int(np.searchsorted(cs, pn / 16.0 * cs[-1], side="left"))
            if lvl != desc[k] or area != (k + 1) * 6.0:
                chk.violation("large field %dx%d, p = %d/16: level %s / area %s, the definition gives level %s / %d cells" % (ny, nx, pn, lvl, area, desc[k], k + 1), sc, klass={"check": "large_contour"})
                break
            # ContourScales: the same field in other units (times 2^-40 / 2^40, exact) - same cells, level scaled
            for e2 in (-40, 40):
                s2 = 2.0 ** e2
                lvl2, area2 = extract_percentile_contour(F * s2, (X, Y, np.zeros_like(X)), pct=pn / 16.0)
                if area2 != area or lvl2 != lvl * s2:
                    chk.violation("large field %dx%d, p = %d/16: in units scaled by 2^%d the contour has area %s / level %s, in the original units %s / %s" % (ny, nx, pn, e2, area2, lvl2, area, lvl), sc,
                                  klass={"check": "contour_scales"})
                    break
            else:
                continue
            break
        if not np.array_equal(F, F0):
            chk.violation("extract_percentile_contour modifies the field it is given", sc, klass={"check": "inputs_modified"})
    # fields whose values do not sum exactly in floating point, at p = 1 (and just below): the contour holds every cell with
    # a positive value, never more cells than the field has
    nfloat = 0
    for k in range(40 if t == "quick" else 400):
        ny, nx = int(rng.integers(2, 9)), int(rng.integers(2, 9))
        F = rng.random((ny, nx)) * 10.0 ** rng.integers(-3, 4)
        if k % 3 == 0:
            F[rng.random((ny, nx)) < 0.4] = 0.0
        if F.sum() == 0:
            continue
        X, Y = np.meshgrid(np.arange(nx) * 2.0, np.arange(ny) * 3.0)
        from fractions import Fraction
        vals = sorted((Fraction(float(v)) for v in F.ravel()), reverse=True)
        total = sum(vals)
        for pct in (1.0, 0.999999):
            lvl, area = extract_percentile_contour(F, (X, Y, np.zeros_like(X)), pct=pct)
            nfloat += 1
            acc, kneed = Fraction(0), 0
            for kneed, v in enumerate(vals, 1):
                acc += v
                if acc >= Fraction(pct) * total:
                    break
            kgot = area / 6.0
            # rounding of the running sum may move the threshold by cells of (relative) rounding size only
            tail = sum(vals[min(int(round(kgot)), kneed):max(int(round(kgot)), kneed)]) if kgot != kneed else Fraction(0)
            if kgot != round(kgot) or kgot > ny * nx or kgot < 1 or float(tail) > 1e-9 * float(total):
                chk.violation("field %dx%d (values not exactly summable), p = %r: the contour has %s cells (level %r), the definition needs %d" % (ny, nx, pct, kgot, lvl, kneed),
                              {"kind": "float_field", "f": F.tolist(), "pct": pct}, klass={"check": "float_contour"})
                break
    chk.extra["float_fields"] = nfloat
    chk.extra["large_fields"] = nlarge
    d = common.scratch("trace_sourcearea")
    tf = os.path.join(d, "obs.json")
    json.dump(obs, open(tf, "w"))
    rt = run_tlc("SourceArea", "TraceSourceArea", env={"TRACE_FILE": tf, "EMIT_EVERY": "1", "EMIT_PHASE": "0", "JAVA_TOOL_OPTIONS": "-XX:+UseParallelGC -Xmx8g"}, name="trace_sourcearea", timeout=3000)
    chk.states += rt.distinct
    chk.transitions += rt.generated
    verdict = {e["i"]: e for e in rt.emitted}
    acc = 0
    for i, o in enumerate(obs, 1):
        v = verdict.get(i)
        if v is None:
            chk.drift_note("observation %d was not judged" % i)
            continue
        if v["rescaled"] and v["contour"]:
            acc += 1
            continue
        what = "rescaled field is outside the allowed set" if not v["rescaled"] else "percentile contour (p=%d/%d) level %d / %d cells is not the fewest highest-valued cells reaching the fraction" % (o["pn"], o["pd"], o["level"], o["K"])
        chk.violation("%s (base function %s, %s field %s)" % (what, meta[i - 1]["base"], meta[i - 1]["kind"], meta[i - 1]["shape"]), {"kind": "observation", "obs": o, "meta": meta[i - 1]},
                      klass={"check": "obs_rescaled" if not v["rescaled"] else "obs_contour", "base": meta[i - 1]["base"]})
    chk.traces = acc
    chk.extra["observations"] = len(obs)
    chk.extra["observations_accepted"] = acc
    chk.extra["exhaustive"] = (every == 1)
    chk.rule = ("TLC enumerates every (f, g) with small integer values on %s cells, checks the stated consequences of the definitions and emits the allowed result sets and contours (every %d-th pair); "
                "each emitted pair is run through get_source_area / extract_percentile_contour (exact comparison); then %d observations on random/sparse/tie-heavy fields with the five built-in base functions "
                "are judged by TLC against the definitions; non-trivial = the pair has ties in g or zeros in f" % ("5" if t == "quick" else "6", every, nobs))
    for e in r.emitted[:: max(1, len(r.emitted) // 3)][:3]:
        chk.sample({"f": e["f"], "g": e["g"], "allowed": e["allowed"]})
    chk.assumptions.append("all data are small integers stored as floats and p is dyadic, so every comparison is exact")
    return chk.finish()
