"""ADVISORY family of C14 (no listed property): spec/Lifecycle.tla against bldfm.initialize() / bldfm.utils.setup_logging().

TLC enumerates every history of two calls (and simulates histories of seven); each history carries the specification's
state after every call; it is replayed into the real functions in an empty working directory and the projected state
(flag, directories, root handlers, level of the 'bldfm' logger, log files, raised or not) is compared after every call.
Every disagreement is drift, never a violation.
"""
import contextlib
import io
import json
import logging
import os
import re
import shutil
import tempfile

from .common import MachineryError, run_tlc, seed, tier

DIRS = ("logs", "plots", "deep/logs", "deep", "other")
_AUTO = re.compile(r"^bldfm_(\w+_)?\d{8}_\d{6}\.log$")


def _reset():
    import bldfm

    root = logging.getLogger()
    for h in list(root.handlers):
        root.removeHandler(h)
        try:
            h.close()
        except Exception:
            pass
    logging.getLogger("bldfm").setLevel(logging.NOTSET)
    bldfm._initialized = False


def _fileclass(name):
    return "auto" if _AUTO.match(name) else name


def project(base):
    import bldfm

    hs = []
    for h in logging.getLogger().handlers:
        if isinstance(h, logging.FileHandler):
            rel = os.path.relpath(h.baseFilename, base)
            hs.append([os.path.dirname(rel).replace(os.sep, "/"), _fileclass(os.path.basename(rel))])
        elif isinstance(h, logging.StreamHandler):
            hs.append(["-", "console"])
        else:
            hs.append(["?", type(h).__name__])
    files = set()
    for d in DIRS:
        p = os.path.join(base, d)
        if os.path.isdir(p):
            for f in os.listdir(p):
                if os.path.isfile(os.path.join(p, f)):
                    files.add((d, _fileclass(f)))
    lv = logging.getLogger("bldfm").level
    return {
        "init": bool(bldfm._initialized),
        "dirs": sorted(d for d in DIRS if os.path.isdir(os.path.join(base, d))),
        "handlers": hs,
        "level": "UNSET" if lv == logging.NOTSET else logging.getLevelName(lv),
        "files": sorted(files),
    }


def _expected(post):
    return {
        "init": bool(post["init"]),
        "dirs": sorted(post["dirs"]),
        "handlers": [list(h) for h in post["handlers"]],
        "level": post["level"],
        "files": sorted(tuple(f) for f in post["files"]),
    }


def _kwargs(c):
    kw = {}
    if c["file"] == "none":
        kw["auto_file"] = False
    elif c["file"] != "auto":
        kw["log_file"] = c["file"]
    if c["level"] != "DEFAULT":
        kw["level"] = c["level"]
    return kw


def replay(chk, hist, label):
    """one history in an empty working directory; returns the number of calls compared"""
    import bldfm
    from bldfm.utils import setup_logging

    base = tempfile.mkdtemp(prefix="lifecycle_")
    here = os.getcwd()
    n = 0
    try:
        os.chdir(base)
        _reset()
        for k, c in enumerate(hist):
            raised = None
            try:
                if c["call"] == "setup":
                    setup_logging(log_dir=c["dir"], **_kwargs(c))
                else:
                    bldfm.initialize(log_dir=c["dir"], plot_dir=c["plot"], **_kwargs(c))
            except Exception as ex:  # noqa: BLE001 - the outcome is part of the comparison
                raised = ex
            got = project(base)
            want = _expected(c["post"])
            n += 1
            if (raised is not None) != (c["post"]["last"] == "raised"):
                chk.drift_note("lifecycle %s: call %d (%s) %s, the specification says %s" % (
                    label, k + 1, json.dumps({x: c[x] for x in ("call", "dir", "plot", "file", "level")}),
                    "raised %r" % raised if raised is not None else "returned", c["post"]["last"]))
                return n
            if got != want:
                diff = {x: (got[x], want[x]) for x in got if got[x] != want[x]}
                chk.drift_note("lifecycle %s: after call %d (%s) the process state differs from the specification's (real, specified): %s" % (
                    label, k + 1, json.dumps({x: c[x] for x in ("call", "dir", "plot", "file", "level")}), json.dumps(diff, default=list)))
                return n
    finally:
        _reset()
        os.chdir(here)
        shutil.rmtree(base, ignore_errors=True)
    return n


def run(chk):
    t = tier()
    r = run_tlc("Lifecycle", "MC_Lifecycle", workers=4)
    chk.add_tlc("MC_Lifecycle", r)
    if not r.ok:
        raise MachineryError("MC_Lifecycle: %s violated" % r.violated)
    if t == "thorough":
        r2 = run_tlc("Lifecycle", "MC_Lifecycle_deep", workers=8, timeout=900)
        chk.add_tlc("MC_Lifecycle_deep", r2)
        if not r2.ok:
            raise MachineryError("MC_Lifecycle_deep: %s violated" % r2.violated)
    hists = sorted((e["hist"] for e in r.emitted), key=lambda h: json.dumps(h, sort_keys=True))
    if not hists:
        raise MachineryError("MC_Lifecycle emitted no history")
    step = 1 if t == "thorough" else 6
    phase = seed() % step
    chosen = hists[phase::step]
    nsim = 1500 if t == "thorough" else 150
    rs = run_tlc("Lifecycle", "MC_Lifecycle_sim", workers=1, simulate="num=%d" % nsim, extra=["-depth", "8", "-seed", str(seed())], name="MC_Lifecycle_sim", timeout=600)
    chk.add_tlc("MC_Lifecycle_sim", rs)
    if not rs.ok:
        raise MachineryError("MC_Lifecycle_sim: %s violated" % rs.violated)
    sims = [e["hist"] for e in rs.emitted]
    calls = 0
    with contextlib.redirect_stderr(io.StringIO()):  # the console handler binds sys.stderr when it is made
        for i, h in enumerate(chosen):
            calls += replay(chk, h, "two-call history %d" % i)
        for i, h in enumerate(sims):
            calls += replay(chk, h, "simulated history %d" % i)
    chk.extra["lifecycle_histories_replayed"] = len(chosen) + len(sims)
    chk.extra["lifecycle_calls_compared"] = calls
    return len(chosen) + len(sims)
