"""ADVISORY family of C14 (no listed property): spec/Lifecycle.tla against bldfm.initialize() / bldfm.utils.setup_logging().

TLC enumerates every history of two calls (and simulates histories of seven); each history carries the specification's
state after every call; it is replayed into the real functions in an empty working directory and the projected state
(flag, directories, root handlers, level of the 'bldfm' logger, log files, raised or not) is compared after every call.
Every disagreement is drift, never a violation.
"""
import contextlib
import io
import json
import logging
import os
import re
import shutil
import tempfile

from .common import MachineryError, run_tlc, seed, tier

DIRS = ("logs", "plots", "deep/logs", "deep", "other")
_AUTO = re.compile(r"^bldfm_(\w+_)?\d{8}_\d{6}\.log$")


def _reset():
    import bldfm

    root = logging.getLogger()
    for h in list(root.handlers):
        root.removeHandler(h)
        try:
            h.close()
        except Exception:
            pass
    logging.getLogger("bldfm").setLevel(logging.NOTSET)
    bldfm._initialized = False


def _fileclass(name):
    return "auto" if _AUTO.match(name) else name


def project(base):
    import bldfm

    hs = []
    for h in logging.getLogger().handlers:
        if isinstance(h, logging.FileHandler):
            rel = os.path.relpath(h.baseFilename, base)
            hs.append([os.path.dirname(rel).replace(os.sep, "/"), _fileclass(os.path.basename(rel))])
        elif isinstance(h, logging.StreamHandler):
            hs.append(["-", "console"])
        else:
            hs.append(["?", type(h).__name__])
    files = set()
    for d in DIRS:
        p = os.path.join(base, d)
        if os.path.isdir(p):
            for f in os.listdir(p):
                if os.path.isfile(os.path.join(p, f)) and f.endswith(".log"):
                    files.add((d, _fileclass(f)))
    lv = logging.getLogger("bldfm").level
    return {
        "init": bool(bldfm._initialized),
        "dirs": sorted(d for d in DIRS if os.path.isdir(os.path.join(base, d))),
        "handlers": hs,
        "level": "UNSET" if lv == logging.NOTSET else logging.getLevelName(lv),
        "files": sorted(files),
    }


def _expected(post):
    return {
        "init": bool(post["init"]),
        "dirs": sorted(post["dirs"]),
        "handlers": [list(h) for h in post["handlers"]],
        "level": post["level"],
        "files": sorted(tuple(f) for f in post["files"]),
    }


def _kwargs(c):
    kw = {}
    if c["file"] == "none":
        kw["auto_file"] = False
    elif c["file"] != "auto":
        kw["log_file"] = c["file"]
    if c["level"] != "DEFAULT":
        kw["level"] = c["level"]
    return kw


def replay(chk, hist, label):
    """one history in an empty working directory; returns the number of calls compared"""
    import bldfm
    from bldfm.utils import setup_logging

    base = tempfile.mkdtemp(prefix="lifecycle_")
    here = os.getcwd()
    n = 0
    try:
        os.chdir(base)
        _reset()
        for k, c in enumerate(hist):
            raised = None
            try:
                if c["call"] == "setup":
                    setup_logging(log_dir=c["dir"], **_kwargs(c))
                else:
                    bldfm.initialize(log_dir=c["dir"], plot_dir=c["plot"], **_kwargs(c))
            except Exception as ex:  # noqa: BLE001 - the outcome is part of the comparison
                raised = ex
            got = project(base)
            want = _expected(c["post"])
            n += 1
            if (raised is not None) != (c["post"]["last"] == "raised"):
                chk.drift_note("lifecycle %s: call %d (%s) %s, the specification says %s" % (
                    label, k + 1, json.dumps({x: c[x] for x in ("call", "dir", "plot", "file", "level")}),
                    "raised %r" % raised if raised is not None else "returned", c["post"]["last"]))
                return n
            if got != want:
                diff = {x: (got[x], want[x]) for x in got if got[x] != want[x]}
                chk.drift_note("lifecycle %s: after call %d (%s) the process state differs from the specification's (real, specified): %s" % (
                    label, k + 1, json.dumps({x: c[x] for x in ("call", "dir", "plot", "file", "level")}), json.dumps(diff, default=list)))
                return n
    finally:
        _reset()
        os.chdir(here)
        shutil.rmtree(base, ignore_errors=True)
    return n


def run(chk):
    t = tier()
    r = run_tlc("Lifecycle", "MC_Lifecycle", workers=4)
    chk.add_tlc("MC_Lifecycle", r)
    if not r.ok:
        raise MachineryError("MC_Lifecycle: %s violated" % r.violated)
    if t == "thorough":
        r2 = run_tlc("Lifecycle", "MC_Lifecycle_deep", workers=8, timeout=900)
        chk.add_tlc("MC_Lifecycle_deep", r2)
        if not r2.ok:
            raise MachineryError("MC_Lifecycle_deep: %s violated" % r2.violated)
    hists = sorted((e["hist"] for e in r.emitted), key=lambda h: json.dumps(h, sort_keys=True))
    if not hists:
        raise MachineryError("MC_Lifecycle emitted no history")
    step = 1 if t == "thorough" else 6
    phase = seed() % step
    chosen = hists[phase::step]
    nsim = 1500 if t == "thorough" else 150
    rs = run_tlc("Lifecycle", "MC_Lifecycle_sim", workers=1, simulate="num=%d" % nsim, extra=["-depth", "8", "-seed", str(seed())], name="MC_Lifecycle_sim", timeout=600)
    chk.add_tlc("MC_Lifecycle_sim", rs)
    if not rs.ok:
        raise MachineryError("MC_Lifecycle_sim: %s violated" % rs.violated)
    sims = [e["hist"] for e in rs.emitted]
    calls = 0
    with contextlib.redirect_stderr(io.StringIO()):  # the console handler binds sys.stderr when it is made
        for i, h in enumerate(chosen):
            calls += replay(chk, h, "two-call history %d" % i)
        for i, h in enumerate(sims):
            calls += replay(chk, h, "simulated history %d" % i)
    chk.extra["lifecycle_histories_replayed"] = len(chosen) + len(sims)
    chk.extra["lifecycle_calls_compared"] = calls
    return len(chosen) + len(sims)


# ------------------------------------------------------------------------------------------------ spec/Cli.tla
CLI_CONFIGS = {
    1: dict(nt=1, ns=2, threads=1, workers=1, cache=False, labels="distinct"),
    2: dict(nt=2, ns=2, threads=4, workers=2, cache=False, labels="repeated"),
    3: dict(nt=2, ns=1, threads=2, workers=1, cache=True, labels="index"),
}
_PLOT = re.compile(r"^footprint_T(\d+)_t(.*)\.png$")


def _cli_yaml(cid):
    c = CLI_CONFIGS[cid]
    met = {"ustar": [0.3 + 0.05 * s for s in range(c["ns"])], "mol": -100.0, "wind_speed": 3.0, "wind_dir": [200.0 + 40.0 * s for s in range(c["ns"])]}
    if c["labels"] == "distinct":
        met["timestamps"] = ["L%d" % (s + 1) for s in range(c["ns"])]
    elif c["labels"] == "repeated":
        met["timestamps"] = ["L1"] * c["ns"]
    return {
        "domain": {"nx": 8, "ny": 6, "xmax": 160.0, "ymax": 90.0, "nz": 4, "modes": [8, 6], "halo": 20.0, "ref_lat": 50.0, "ref_lon": 11.0},
        "towers": [{"name": "T%d" % (i + 1), "lat": 50.0003 + 0.0002 * i, "lon": 11.0006 + 0.0003 * i, "z_m": 4.0} for i in range(c["nt"])],
        "met": met,
        "solver": {"footprint": True, "precision": "double", "closure": "MOST"},
        "parallel": {"num_threads": c["threads"], "max_workers": c["workers"], "use_cache": c["cache"]},
    }


def _label_token(text):
    if text.startswith("L"):
        return ["lab", int(text[1:])]
    return ["idx", int(text)]


def cli_project(base, solved):
    from bldfm import config as rc

    p = project(base)
    p["settings"] = {"threads": rc.NUM_THREADS, "workers": rc.MAX_WORKERS, "cache": bool(rc.USE_CACHE)}
    p["solved"] = [list(x) for x in solved]
    plots = []
    d = os.path.join(base, "plots")
    if os.path.isdir(d):
        for f in os.listdir(d):
            m = _PLOT.match(f)
            plots.append([int(m.group(1)), _label_token(m.group(2))] if m else ["?", f])
    p["plots"] = sorted(plots, key=json.dumps)
    return p


def _cli_expected(post):
    e = _expected(post)
    e["settings"] = {"threads": post["settings"]["threads"], "workers": post["settings"]["workers"], "cache": bool(post["settings"]["cache"])}
    e["solved"] = [list(x) for x in post["solved"]]
    e["plots"] = sorted(([p[0], list(p[1])] for p in post["plots"]), key=json.dumps)
    return e


def cli_replay(chk, hist, label):
    import argparse

    import yaml

    import bldfm
    import bldfm.cli as cli
    from bldfm import config as rc
    from bldfm.utils import setup_logging

    base = tempfile.mkdtemp(prefix="cli_")
    here = os.getcwd()
    saved = (rc.NUM_THREADS, rc.MAX_WORKERS, rc.USE_CACHE)
    real_single = cli.run_bldfm_single
    solved = []
    current = []

    def recording(config, tower, met_index=0, **kw):
        current.append((int(tower.name[1:]), met_index + 1))
        return real_single(config, tower, met_index=met_index, **kw)

    n = 0
    try:
        os.chdir(base)
        _reset()
        rc.NUM_THREADS, rc.MAX_WORKERS, rc.USE_CACHE = 1, 1, False
        cli.run_bldfm_single = recording
        for cid in CLI_CONFIGS:
            with open("cfg%d.yaml" % cid, "w") as fh:
                yaml.safe_dump(_cli_yaml(cid), fh)
        for k, c in enumerate(hist):
            raised = None
            what = {x: c[x] for x in ("call", "cfg", "dry", "plot", "dir", "file", "level")}
            try:
                if c["call"] == "cli":
                    del current[:]
                    cli.cmd_run(argparse.Namespace(config="cfg%d.yaml" % c["cfg"], dry_run=bool(c["dry"]), plot=bool(c["plot"])))
                    solved = list(current)
                elif c["call"] == "userset":
                    rc.NUM_THREADS = int(c["cfg"])
                else:
                    setup_logging(log_dir=c["dir"], **_kwargs(c))
            except Exception as ex:  # noqa: BLE001
                raised = ex
            n += 1
            if raised is not None:
                chk.drift_note("cli %s: call %d (%s) raised %r, the specification says it returns" % (label, k + 1, json.dumps(what), raised))
                return n
            got, want = cli_project(base, solved), _cli_expected(c["post"])
            if got != want:
                diff = {x: (got[x], want[x]) for x in got if got[x] != want[x]}
                chk.drift_note("cli %s: after call %d (%s) the process state differs from the specification's (real, specified): %s" % (label, k + 1, json.dumps(what), json.dumps(diff, default=list)))
                return n
    finally:
        cli.run_bldfm_single = real_single
        rc.NUM_THREADS, rc.MAX_WORKERS, rc.USE_CACHE = saved
        try:
            import matplotlib.pyplot as plt

            plt.close("all")
        except Exception:
            pass
        _reset()
        os.chdir(here)
        shutil.rmtree(base, ignore_errors=True)
    return n


def run_cli(chk):
    t = tier()
    r = run_tlc("Cli", "MC_Cli", workers=4)
    chk.add_tlc("MC_Cli", r)
    if not r.ok:
        raise MachineryError("MC_Cli: %s violated" % r.violated)
    r2 = run_tlc("Cli", "MC_Cli_deep", workers=8, timeout=900)
    chk.add_tlc("MC_Cli_deep", r2)
    if not r2.ok:
        raise MachineryError("MC_Cli_deep: %s violated" % r2.violated)
    hists = sorted((e["hist"] for e in r.emitted), key=lambda h: json.dumps(h, sort_keys=True))
    if not hists:
        raise MachineryError("MC_Cli emitted no history")
    step = 4 if t == "thorough" else 31
    chosen = hists[seed() % step :: step]
    nsim = 40 if t == "thorough" else 6
    rs = run_tlc("Cli", "MC_Cli_sim", workers=1, simulate="num=%d" % nsim, extra=["-depth", "6", "-seed", str(seed())], name="MC_Cli_sim", timeout=600)
    chk.add_tlc("MC_Cli_sim", rs)
    if not rs.ok:
        raise MachineryError("MC_Cli_sim: %s violated" % rs.violated)
    sims = [e["hist"] for e in rs.emitted]
    calls = 0
    with contextlib.redirect_stderr(io.StringIO()):
        for i, h in enumerate(chosen):
            calls += cli_replay(chk, h, "two-call history %d" % i)
        for i, h in enumerate(sims):
            calls += cli_replay(chk, h, "simulated history %d" % i)
    chk.extra["cli_histories_replayed"] = len(chosen) + len(sims)
    chk.extra["cli_calls_compared"] = calls
    return len(chosen) + len(sims)
