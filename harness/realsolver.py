"""Concretisation of model configurations and drivers for the real solver.

A model configuration (Solver.tla, record `c`) is a dict of small integers:
  nx ny ax ay halo(-1 = None) mx my xm ym fp an nz lv tab
Lengths are multiples of a unit U chosen dyadic so that cell arithmetic (halo/dx, xm+halo, ...)
is exact in floating point.
"""

import os
import sys

import numpy as np

from .common import REPO

sys.path.insert(0, os.path.join(REPO, "src"))

U = 4.0  # metres per model length unit (dyadic)


def _import():
    import bldfm  # noqa
    from bldfm.solver import steady_state_transport_solver
    from bldfm.pbl_model import vertical_profiles

    return steady_state_transport_solver, vertical_profiles


_PROFILE_CACHE = {}


def profiles(kind, nz):
    """Return (z, (u, v, Kx, Ky, Kz)) with exactly nz nodes.

    kinds: "most_u" "most_s" (MOST unstable/stable, oblique wind), "mostm" (Kx # Ky),
           "const" / "const_aniso" (height independent, isotropic / Kx # Ky # Kz with oblique wind: for the analytic branch), "aniso" (hand-built, Kx # Ky # Kz).
    """
    key = (kind, nz)
    if key in _PROFILE_CACHE:
        return _PROFILE_CACHE[key]
    _, vertical_profiles = _import()
    if kind in ("most_u", "most_s", "mostm", "const"):
        closure = {"most_u": "MOST", "most_s": "MOST", "mostm": "MOSTM", "const": "CONSTANT"}[kind]
        mol = {"most_u": -50.0, "most_s": 80.0, "mostm": -200.0, "const": 1e9}[kind]
        wind = {"most_u": (3.0, 1.5), "most_s": (-2.0, 2.5), "mostm": (2.5, -1.0), "const": (3.0, -1.0)}[kind]
        z, prof = vertical_profiles(max(nz, 2), 10.0, wind, ustar=0.45, mol=mol, closure=closure)
        # the closure returns about 2n nodes; identities hold for any profile arrays, keep the first nz
        z = np.array(z[:nz], dtype=float)
        prof = tuple(np.array(p[:nz], dtype=float) for p in prof)
    elif kind == "const_aniso":
        z = 0.4 + 1.3 * np.arange(nz)
        one = np.ones(nz)
        prof = (2.1 * one, -1.3 * one, 1.7 * one, 0.6 * one, 0.9 * one)
    elif kind == "aniso":
        z = 0.05 * 1.9 ** np.arange(nz) + 0.3 * np.arange(nz)
        sp = 1.2 * np.log(z / 0.03)
        u = 0.8 * sp
        v = -0.45 * sp * (1 + 0.05 * np.arange(nz))
        Kz = 0.16 * z / (1 + 0.02 * z)
        Kx = 2.3 * Kz + 0.1
        Ky = 0.6 * Kz + 0.4
        prof = (u, v, Kx, Ky, Kz)
    else:
        raise ValueError(kind)
    _PROFILE_CACHE[key] = (z, prof)
    return z, prof


def flip_profiles(prof, su=1.0, sv=1.0, swap=False):
    u, v, Kx, Ky, Kz = prof
    if swap:
        return (su * v, sv * u, Ky, Kx, Kz)
    return (su * u, sv * v, Kx, Ky, Kz)


def source(cfg, kind, rng=None, j=0, i=0):
    ny, nx = cfg["ny"], cfg["nx"]
    if kind == "unit":
        q = np.zeros((ny, nx))
        q[j, i] = 1.0
        return q
    if kind == "dense":
        return rng.standard_normal((ny, nx))
    if kind == "sparse":
        q = np.zeros((ny, nx))
        n = max(1, (ny * nx) // 4)
        idx = rng.choice(ny * nx, size=n, replace=False)
        q.flat[idx] = rng.uniform(-2, 3, size=n)
        return q
    if kind == "smooth":
        y, x = np.mgrid[0:ny, 0:nx]
        return np.cos(2 * np.pi * x / nx) * 0.7 + np.sin(2 * np.pi * y / ny) + 1.3
    raise ValueError(kind)


def solver_args(cfg, prof_kind="most_u", precision="double", unit=U):
    """keyword arguments of steady_state_transport_solver for a model configuration (without the source)."""
    z, prof = profiles(prof_kind, cfg["nz"])
    halo = None if cfg["halo"] == -1 else cfg["halo"] * unit
    return dict(
        z=z,
        profiles=prof,
        domain=(cfg["nx"] * cfg["ax"] * unit, cfg["ny"] * cfg["ay"] * unit),
        levels=list(cfg["lv"]),
        modes=(cfg["mx"], cfg["my"]),
        meas_pt=(cfg["xm"] * unit, cfg["ym"] * unit),
        footprint=bool(cfg["fp"]),
        analytic=bool(cfg["an"]),
        halo=halo,
        precision=precision,
    )


MODIFIED = []       # arguments the solver was seen to modify in place (reported by the check that drives the replays)
FIRST = []          # the first solves of a run (copies of their arguments and results): repeated at the end of the run
FIRST_LIMIT = 16


_SOURCE_BUFFERS = {}
_SOURCE_VIEWS = {}
_COUNTER = [0]


def solve(q, kw, **over):
    steady, _ = _import()
    k = dict(kw)
    k.update(over)
    # the caller's source array: one buffer per shape, refilled in place for every solve (a sweep over emission maps does
    # exactly that) - the solver must read its contents, not recognise the object
    q_in = np.asarray(q, dtype=float)
    form = (_COUNTER[0] + 1) % 6
    if q_in.ndim == 2 and not q_in.flags.c_contiguous and q_in is q:
        pass                              # the caller hands over a view (a transposed map): it goes in as it is
    elif form in (1, 4) and q_in.ndim == 2:
        # ... as a STRIDED view (every second column of a wider table), the same view object refilled in place
        if q_in.shape not in _SOURCE_VIEWS:
            _SOURCE_VIEWS[q_in.shape] = np.zeros((q_in.shape[0], 2 * q_in.shape[1]))[:, ::2]
        buf = _SOURCE_VIEWS[q_in.shape]
        np.copyto(buf, q_in)
        q = buf
    elif form == 2 and q_in.size and np.all(q_in == np.rint(q_in)) and float(np.abs(q_in).max()) < 2.0 ** 53:
        q = q_in.astype(np.int64)          # ... a field of whole numbers as an INTEGER array (a 0/1 mask)
    else:
        buf = _SOURCE_BUFFERS.setdefault(q_in.shape, np.empty(q_in.shape))
        np.copyto(buf, q_in)
        q = buf
    if form == 3:
        # the profiles as columns of one (levels x variables) table: strided one-dimensional views
        table = np.empty((len(k["z"]), len(k["profiles"])))
        for i_, a_ in enumerate(k["profiles"]):
            table[:, i_] = a_
        k["profiles"] = tuple(table[:, i_] for i_ in range(table.shape[1]))
    # argument forms: lengths that are whole numbers are handed over as Python ints on every other solve (domain=(100, 60),
    # halo=20, meas_pt=(30, 10) is how a script writes them) - the same numbers, the same solve
    _COUNTER[0] += 1
    if _COUNTER[0] % 2 == 0:
        def _whole(v):
            return int(v) if isinstance(v, float) and v == int(v) and abs(v) < 2 ** 53 else v

        k["domain"] = tuple(_whole(v) for v in k["domain"])
        k["meas_pt"] = tuple(_whole(v) for v in k["meas_pt"])
        if k.get("halo") is not None:
            k["halo"] = _whole(k["halo"])
    # every identity compares several solves that share their argument arrays: a solve must leave them as they were
    watched = {"srf_flx": q, "z": k["z"], "levels": k["levels"]}
    watched.update({"profiles[%d]" % i: a for i, a in enumerate(k["profiles"])})
    before = {n: np.array(a, copy=True) for n, a in watched.items() if isinstance(a, np.ndarray)}
    grid, conc, flx = steady(q, k.pop("z"), k.pop("profiles"), k.pop("domain"), k.pop("levels"), **k)
    for n, b in before.items():
        a = watched[n]
        if a.shape != b.shape or not np.array_equal(a, b, equal_nan=True):
            if len(MODIFIED) < 20:
                MODIFIED.append(n)
            if a.shape == b.shape:
                a[...] = b              # restore, so that the remaining comparisons of this run stay meaningful
    if len(FIRST) < FIRST_LIMIT and not over.get("_repeat"):
        import copy

        kk = dict(kw)
        kk.update(over)
        FIRST.append((np.array(q, copy=True), copy.deepcopy(kk), np.array(conc, copy=True), np.array(flx, copy=True)))
    return grid, np.asarray(conc), np.asarray(flx)


def repeat_first():
    """re-solve the first solves of the run after everything else has run in this process: (index, max relative difference)
    of those that no longer give the same fields - nothing of the solves in between may survive in the process.  The
    comparison is to rounding (1e-10 of the field scale in double, 1e-4 in single precision), not bit for bit: the source is
    a copy at another address, and FFTW picks its code path by the alignment of its input."""
    steady, _ = _import()
    bad = []
    for i, (q, k, conc0, flx0) in enumerate(FIRST):
        k = dict(k)
        _, conc, flx = steady(q, k.pop("z"), k.pop("profiles"), k.pop("domain"), k.pop("levels"), **k)
        conc, flx = np.asarray(conc), np.asarray(flx)
        if conc.shape != conc0.shape:
            bad.append((i, float("nan")))
            continue
        if conc.size == 0:
            continue                # an empty field (reported by the property's own shape check) repeats trivially
        tol = 1e-10 if k.get("precision", "single") == "double" else 1e-4
        d = max(float(np.max(np.abs(conc - conc0))) / max(float(np.max(np.abs(conc0))), 1e-300), float(np.max(np.abs(flx - flx0))) / max(float(np.max(np.abs(flx0))), 1e-300))
        if not d <= tol:
            bad.append((i, d))
    return bad


def solve3(q, kw, **over):
    """like solve, but conc/flx always have a leading level axis"""
    grid, conc, flx = solve(q, kw, **over)
    k = dict(kw)
    k.update(over)
    nl = 1 if np.ndim(k["levels"]) == 0 else len(k["levels"])
    shp = np.shape(q)
    if conc.ndim == 2 and nl == 1:
        conc = conc[None]
        flx = flx[None]
    return grid, conc, flx


def classify(cfg):
    """failing-input class of a model configuration (used to match known findings)."""
    h = cfg["halo"]
    ax, ay = cfg["ax"], cfg["ay"]
    if h == -1:
        hv = max(cfg["nx"] * ax, cfg["ny"] * ay)
        hclass = "none"
    else:
        hv = h
        hclass = "zero" if h == 0 else ("commensurate" if (h % ax == 0 and h % ay == 0) else "incommensurate")
    lv = list(cfg["lv"])
    return {
        "halo_class": hclass,
        "default_halo_commensurate": (hv % ax == 0 and hv % ay == 0),
        "footprint": bool(cfg["fp"]),
        "analytic": bool(cfg["an"]),
        "levels_sorted": lv == sorted(lv),
        "nlevels": len(lv),
    }
