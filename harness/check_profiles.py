"""C09: closure profiles are self-consistent with similarity theory and the grid.

spec/Profiles.tla is the case analysis of vertical_profiles in exact rationals: which of (ustar, z0) is derived from
which for every closure, the index structure of the stretched grid (np.arange in the mapped coordinate: number of nodes,
node of the measurement height, top node), the scaling of the similarity wind to the supplied vector, which of Kx/Ky/Kz
holds which expression.  TLC checks ErrorsAsDeclared, GridIndex, WindAtZm, DirectionConstant, SpeedIncreases, KPositive,
RoundTrip on every configuration.  Each configuration is then instantiated with real numbers (the three transcendental
quantities the algebra depends on come from the harness's own formulas and quadrature) and run on the real function.
"""

import json
import math

import numpy as np

from .common import Check, MachineryError, run_tlc, seed, tier

KAP = 0.4
CL, CM, CH = 0.845, 0.0856, 0.204


# --------------------------------------------------------------------------- the harness's own similarity functions
def phi_m(x):
    """flux-gradient function for momentum (Businger-Dyer / linear)"""
    return (1.0 - 16.0 * x) ** -0.25 if x < 0 else 1.0 + 5.0 * x


def phi_c(x):
    """flux-gradient function for scalars (eddy diffusivity)"""
    return (1.0 - 16.0 * x) ** -0.5 if x < 0 else 1.0 + 5.0 * x


_PSI = {}


def psi_q(x):
    """stability correction as the integral of (phi_m - 1)/x from 0 to x (quadrature, sign convention u = u*/k (ln(z/z0) + psi))"""
    from scipy.integrate import quad

    x = float(x)
    if x == 0.0:
        return 0.0
    if x not in _PSI:
        f = lambda t: (phi_m(t) - 1.0) / t if t != 0.0 else (4.0 if x < 0 else 5.0)
        _PSI[x] = quad(f, 0.0, x, epsabs=1e-13, epsrel=1e-12, limit=200)[0]
    return _PSI[x]


def psi_closed(x):
    if x > 0:
        return 5.0 * x
    q = (1.0 - 16.0 * x) ** 0.25
    return -2.0 * math.log(0.5 * (1 + q)) - math.log(0.5 * (1 + q * q)) + 2.0 * math.atan(q) - 0.5 * math.pi


def instantiate(c, k):
    """model configuration -> real arguments; k varies the concrete numbers between configurations"""
    n = c["n"] * [1, 5, 16, 3][k % 4]
    zm = [2.0, 10.0, 37.5, 4.2][(k // 4) % 4]
    scale = [0.7, 0.31, 1.9][(k // 16) % 3]
    um, vm = c["wind"][0] * scale, c["wind"][1] * scale
    l0 = c["l0"][0] / c["l0"][1]
    z0 = zm * math.exp(-l0)
    ps = c["psim"][0]
    if ps < 0:
        mol = zm / [-0.5, -0.05, -1.2][k % 3]
    elif ps > 0:
        mol = zm / [0.05, 0.4, 0.9][k % 3]
    else:
        mol = [1e9, -1e9, 1e7][k % 3]
    ustar = c["us"][0] / c["us"][1] * [1.0, 1.7][k % 2]
    if c["given"] in ("ustar", "both") or c["closure"] == "OAAHOC":
        # physically consistent: ln(zm / z0) between 2.5 and 8, i.e. the log-law factor kap |u| / ustar = ln(zm/z0) + psi(zm/L)
        speed = ([2.5, 5.0, 8.0][(k // 16) % 3] + psi_q(zm / mol)) * ustar / KAP
        if c["closure"] == "OAAHOC":
            speed = [2.5, 5.0, 8.0][(k // 16) % 3] * ustar ** 2 / (CM * CL * math.sqrt([0.5, 1.5][(k // 3) % 2]))
        um, vm = c["wind"][0] / c["wind"][2] * speed, c["wind"][1] / c["wind"][2] * speed
    prsc = [1.0, 0.8, 1.3][(k // 2) % 3]
    tke = [0.5, 1.5][(k // 3) % 2]
    return dict(n=n, zm=zm, um=um, vm=vm, z0=z0, mol=mol, ustar=ustar, prsc=prsc, tke=tke)


def run_config(chk, c, k, emitted):
    from bldfm.pbl_model import vertical_profiles

    a = instantiate(c, k)
    n, zm, um, vm = a["n"], a["zm"], a["um"], a["vm"]
    absum = math.hypot(um, vm)
    closure = c["closure"]
    kw = dict(mol=a["mol"], prsc=a["prsc"], closure=closure)
    if c["given"] in ("ustar", "both"):
        kw["ustar"] = a["ustar"]
    if c["given"] in ("z0", "both"):
        kw["z0"] = a["z0"]
    if closure == "OAAHOC":
        kw["tke"] = a["tke"]
    # the grid class: the default heights for one class, an explicit (stretch, domain_height) pair for the others
    default_top = c["zq"] == 6 * c["n"] + 1
    sc = {"kind": "profiles", "cfg": c, "args": a, "default_top": default_top}
    chk.case(json.dumps([c, k % 48], sort_keys=True))
    # what z0 / ustar the call works with
    if closure == "OAAHOC":
        z0_eff = zm * math.exp(-CM * CL * absum * math.sqrt(a["tke"]) / a["ustar"] ** 2) if "ustar" in kw else None
        us_eff = a["ustar"]
    elif c["given"] == "ustar":
        us_eff = a["ustar"]
        z0_eff = zm * math.exp(-KAP * absum / us_eff + psi_q(zm / a["mol"]))
    else:
        z0_eff = a["z0"]
        us_eff = absum * KAP / (math.log(zm / z0_eff) + psi_q(zm / a["mol"]))
    if emitted["err"] == "none" and not (z0_eff is not None and 1e-6 * zm < z0_eff < 0.5 * zm and us_eff > 0):
        raise MachineryError("the instantiation of %s is not physically consistent (z0 = %r, ustar = %r)" % (c, z0_eff, us_eff))
    h = 4.0 * zm
    zmx = None
    want_count = None
    if not default_top and emitted["err"] == "none" and z0_eff is not None and z0_eff > 0:
        # zeta_max / dzeta for the real layer count, same class: tops next to the measurement node keep their distance
        # to it in layers, the others their ratio to the measurement height
        off = c["zq"] - 4 * c["n"]
        rho = n + off / 4.0 if off in (-2, 0, 1) else c["zq"] / (4.0 * c["n"]) * n
        if abs(rho - round(rho)) < 1e-6:
            rho -= 0.01                                         # keep off the floating-point knife edge of np.arange
        bb = zm / (math.exp(-z0_eff / h) - math.exp(-zm / h))
        aa = bb * math.exp(-z0_eff / h)
        zetamx = rho * zm / n
        if not (zetamx < aa * (1 - 1e-6) and math.ceil(rho) * zm / n < aa * (1 - 1e-9)):
            return 0            # the node above the top would leave the mapped interval (outside the property)
        zmx, want_count = -h * math.log((aa - zetamx) / bb), math.ceil(rho) + 1
        kw["stretch"] = h
        kw["domain_height"] = zmx
    try:
        z, (u, v, Kx, Ky, Kz) = vertical_profiles(n, zm, (um, vm), **kw)
    except Exception as ex:
        if emitted["err"] == "none":
            chk.violation("vertical_profiles raised %s: %s for a valid request (closure %s, %s given)" % (type(ex).__name__, str(ex)[:80], closure, c["given"]), sc,
                          klass={"check": "raises", "closure": closure})
        elif type(ex).__name__ != emitted["err"]:
            chk.drift_note("closure %s with %s given raises %s, the specification says %s" % (closure, c["given"], type(ex).__name__, emitted["err"]))
        return 1
    if emitted["err"] != "none":
        chk.drift_note("closure %s with %s given returns profiles, the specification says %s" % (closure, c["given"], emitted["err"]))
        return 1
    z, u, v, Kx, Ky, Kz = (np.asarray(x, dtype=float).ravel() for x in (z, u, v, Kx, Ky, Kz))
    if zmx is None:
        zmx = 2.0 * zm
    rel = 1e-9
    # ---- grid
    if not (np.isfinite(z).all() and (np.diff(z) > 0).all()):
        chk.violation("the vertical grid is not strictly increasing / finite (n=%d, zm=%g)" % (n, zm), sc, klass={"check": "grid_monotone", "closure": closure})
        return 1
    if abs(z[0] - z0_eff) > rel * zm:
        chk.violation("the grid starts at %.12g, the roughness length is %.12g" % (z[0], z0_eff), sc, klass={"check": "grid_start", "closure": closure})
        return 1
    if len(z) <= n or abs(z[n] - zm) > rel * zm:
        chk.violation("node %d of the grid is %s, the measurement height is %.12g (the interface reads index n as the measurement height)"
                      % (n, "missing (%d nodes)" % len(z) if len(z) <= n else "%.12g" % z[n], zm), sc, klass={"check": "grid_zm_index", "closure": closure})
        return 1
    if z[-1] < zmx * (1 - 1e-9):
        chk.violation("the grid ends at %.12g below the domain height %.12g" % (z[-1], zmx), sc, klass={"check": "grid_top", "closure": closure})
        return 1
    if want_count is not None and len(z) != want_count:
        chk.drift_note("grid has %d nodes, np.arange in the mapped coordinate gives %d (n=%d zm=%g top=%g)" % (len(z), want_count, n, zm, zmx))
    if len(z) != len(u) or len(z) != len(Kz) or len(z) != len(v) or len(z) != len(Kx) or len(z) != len(Ky):
        chk.violation("profiles and grid have different lengths", sc, klass={"check": "lengths", "closure": closure})
        return 1
    # ---- wind
    if abs(u[n] - um) > rel * absum or abs(v[n] - vm) > rel * absum:
        chk.violation("wind at the measurement height is (%.10g, %.10g), supplied (%.10g, %.10g) [closure %s, %s given, zm/L = %.3g]"
                      % (u[n], v[n], um, vm, closure, c["given"], zm / a["mol"]), sc, klass={"check": "wind_at_zm", "closure": closure, "given": c["given"]})
        return 1
    if (np.abs(u * vm - v * um) > rel * absum * np.maximum(np.hypot(u, v), absum)).any():
        chk.violation("wind direction changes with height (closure %s)" % closure, sc, klass={"check": "wind_direction", "closure": closure})
        return 1
    speed = (u * um + v * vm) / absum           # signed along the supplied vector (the unstable log law is slightly negative at the roughness node)
    if closure in ("MOST", "MOSTM"):
        want = np.asarray([us_eff / KAP * (math.log(zi / z0_eff) + psi_q(zi / a["mol"])) for zi in z])
        wantK = np.asarray([KAP * us_eff * zi / phi_c(zi / a["mol"]) / a["prsc"] for zi in z])
    elif closure == "CONSTANT":
        want = np.full(len(z), absum)
        wantK = np.full(len(z), KAP * us_eff * zm / a["prsc"])
    else:
        want = us_eff ** 2 / CM / CL / math.sqrt(a["tke"]) * np.log(z / z0_eff)
        wantK = CH * CL * z * math.sqrt(a["tke"])
    if closure == "OAAHOC" and ((np.abs(speed - want) > 1e-8 * absum).any() or (np.abs(Kz - wantK) > 1e-8 * np.abs(wantK)).any()):
        # the property names no formula for the one-and-a-half order closure: its constants are the code's
        chk.drift_note("OAAHOC profiles differ from the transcribed Schumann-Lilly expressions (n=%d zm=%g)" % (n, zm))
        want, wantK = speed, Kz
    if (np.abs(speed - want) > 1e-8 * absum).any():
        i = int(np.argmax(np.abs(speed - want)))
        chk.violation("wind speed at node %d (z=%.6g) is %.10g, the similarity profile gives %.10g (closure %s, zm/L=%.3g)" % (i, z[i], speed[i], want[i], closure, zm / a["mol"]), sc,
                      klass={"check": "wind_profile", "closure": closure, "stable": a["mol"] > 0})
        return 1
    # ---- diffusivities
    if not (Kz > 0).all() or (Kx < 0).any() or (Ky < 0).any():
        chk.violation("a diffusivity is not positive (closure %s)" % closure, sc, klass={"check": "k_positive", "closure": closure})
        return 1
    if (np.abs(Kz - wantK) > 1e-8 * np.abs(wantK)).any():
        i = int(np.argmax(np.abs(Kz - wantK) / np.abs(wantK)))
        chk.violation("Kz at node %d (z=%.6g) is %.10g, the similarity formula gives %.10g (closure %s, zm/L=%.3g, Pr=%g)" % (i, z[i], Kz[i], wantK[i], closure, zm / a["mol"], a["prsc"]), sc,
                      klass={"check": "k_formula", "closure": closure, "stable": a["mol"] > 0})
        return 1
    if closure == "MOSTM":
        s2 = u ** 2 + v ** 2
        okx = np.abs(Kx - Kz * v ** 2 / s2) <= 1e-9 * Kz
        oky = np.abs(Ky - Kz * u ** 2 / s2) <= 1e-9 * Kz
        if not (okx.all() and oky.all()):
            chk.violation("MOSTM: horizontal diffusivities are not K v^2/|u|^2, K u^2/|u|^2", sc, klass={"check": "k_mostm"})
            return 1
    elif (np.abs(Kx - Kz) > 1e-12 * Kz).any() or (np.abs(Ky - Kz) > 1e-12 * Kz).any():
        chk.violation("closure %s: Kx, Ky differ from Kz" % closure, sc, klass={"check": "k_isotropic", "closure": closure})
        return 1
    # ---- z0 -> ustar -> z0
    calls = 1
    if closure in ("MOST", "MOSTM", "CONSTANT") and c["given"] in ("z0", "ustar"):
        kw2 = {k2: v2 for k2, v2 in kw.items() if k2 not in ("z0", "ustar")}
        if c["given"] == "z0":
            kw2["ustar"] = us_eff
        else:
            kw2["z0"] = z0_eff
        z2, (u2, v2, Kx2, Ky2, Kz2) = vertical_profiles(n, zm, (um, vm), **kw2)
        calls += 1
        same = len(z2) == len(z) and all(np.allclose(np.asarray(p, dtype=float).ravel(), q, rtol=1e-8, atol=1e-10 * absum) for p, q in zip((z2, u2, v2, Kx2, Ky2, Kz2), (z, u, v, Kx, Ky, Kz)))
        if not same:
            chk.violation("deriving %s and feeding it back does not return the same profiles (closure %s, zm/L=%.3g)" % ("ustar from z0" if c["given"] == "z0" else "z0 from ustar", closure, zm / a["mol"]),
                          sc, klass={"check": "round_trip", "closure": closure, "given": c["given"]})
    return calls


def stability_functions(chk, t):
    """psi is the integral of the flux-gradient function, continuity through neutral, agreement with the reference model's copies"""
    from bldfm.pbl_model import psi, phi
    from bldfm.ffm_kormann_meixner import _psiM, _phiC

    rng = np.random.default_rng(seed())
    xs = [-8.0, -2.0, -1.0, -0.3, -0.05, -1e-3, -1e-6, -1e-9, 0.0, 1e-9, 1e-6, 1e-3, 0.05, 0.4, 1.0, 3.0]
    xs += [float(x) for x in np.concatenate([-10 ** rng.uniform(-6, 1, 40 if t == "quick" else 400), 10 ** rng.uniform(-6, 0.7, 40 if t == "quick" else 400)])]
    n = 0
    for x in xs:
        n += 1
        chk.case("psi %r" % x)
        got, want = float(psi(x)), psi_q(x)
        sc = {"kind": "stability_function", "x": x}
        if abs(got - want) > 1e-9 * max(1.0, abs(want)):
            chk.violation("psi(%g) = %.12g, the integral of (phi_m - 1)/x from 0 gives %.12g" % (x, got, want), sc, klass={"check": "psi_integral", "stable": x > 0})
        gotp = float(phi(x))
        if abs(gotp - phi_c(x)) > 1e-12 * phi_c(x):
            chk.violation("phi(%g) = %.12g, the flux-gradient function for scalars is %.12g" % (x, gotp, phi_c(x)), sc, klass={"check": "phi_value", "stable": x > 0})
        if x != 0.0:
            km_psi = float(_psiM(np.asarray([1.0]), np.asarray([1.0 / x]))[0])
            km_phi = float(_phiC(np.asarray([1.0]), np.asarray([1.0 / x]))[0])
            if abs(km_psi - got) > 1e-9 * max(1.0, abs(got)) or abs(km_phi - gotp) > 1e-12 * gotp:
                chk.violation("psi/phi(%g) = %.12g / %.12g differ from the reference model's copies %.12g / %.12g" % (x, got, gotp, km_psi, km_phi), sc, klass={"check": "km_copies", "stable": x > 0})
    # the copies must agree for an integer-typed measurement height as well (zm = 2 vs zm = 2.0)
    for L in (-7.0, 11.0, -250.0):
        for zi in (2, np.int64(3), np.int32(10)):
            za_i, za_f = np.asarray([zi]), np.asarray([float(zi)])
            got_i = (float(_psiM(za_i, np.asarray([L]))[0]), float(_phiC(za_i, np.asarray([L]))[0]))
            want = (float(psi(float(zi) / L)), float(phi(float(zi) / L)))
            if abs(got_i[0] - want[0]) > 1e-9 * max(1.0, abs(want[0])) or abs(got_i[1] - want[1]) > 1e-12 * want[1]:
                chk.violation("the reference model's psi/phi for the integer height %r and L = %g are %r, this module gives %r" % (zi, L, got_i, want), {"kind": "stability_function", "zm": int(zi), "L": L},
                              klass={"check": "km_copies_integer"})
    # continuity through neutral and array arguments
    for eps in (1e-6, 1e-9, 1e-12):
        if abs(float(psi(eps)) - float(psi(-eps))) > 20 * eps or abs(float(phi(eps)) - float(phi(-eps))) > 20 * eps or abs(float(psi(eps))) > 10 * eps or abs(float(phi(eps)) - 1) > 10 * eps:
            chk.violation("psi / phi are not continuous through neutral stratification (|x| = %g)" % eps, {"kind": "stability_function", "eps": eps}, klass={"check": "neutral_continuity"})
    arr = np.asarray(xs[:16])
    if not (np.allclose(psi(arr), [float(psi(x)) for x in arr], rtol=0, atol=0) and np.allclose(phi(arr), [float(phi(x)) for x in arr], rtol=0, atol=0)):
        chk.violation("psi / phi of an array differ from the scalar values", {"kind": "stability_function"}, klass={"check": "array_vs_scalar"})
    return n


def argument_forms(chk, rng):
    """the wind vector as tuple, list and array: same profiles, the caller's array untouched, a repeated call identical"""
    from bldfm.pbl_model import vertical_profiles

    n = 0
    for closure in ("MOST", "MOSTM", "CONSTANT", "OAAHOC"):
        for k in range(3):
            um, vm = float(rng.uniform(-4, 4)), float(rng.uniform(1, 4)) * (-1) ** k
            kw = dict(ustar=0.4, mol=[-40.0, 1e9, 60.0][k], closure=closure)
            if closure == "OAAHOC":
                kw["tke"] = 0.8
            ref = vertical_profiles(8, 5.0, (um, vm), **kw)
            w = np.array([um, vm], dtype=float)
            w0 = w.copy()
            outs = [vertical_profiles(8, 5.0, w, **kw), vertical_profiles(8, 5.0, w, **kw), vertical_profiles(8, 5.0, [um, vm], **kw)]
            n += 4
            sc = {"kind": "argument_form", "closure": closure, "wind": [um, vm]}
            chk.case(json.dumps(sc, sort_keys=True))
            if not np.array_equal(w, w0):
                chk.violation("vertical_profiles modifies the wind array it is given: %s became %s" % (w0.tolist(), w.tolist()), sc, klass={"check": "wind_modified"})
                continue
            # the returned arrays belong to the caller: it rescales them in place (u *= 1.2, Kz *= 0.5, z += 1) and asks
            # again with the very same (hashable) arguments - the answer is that of the first call
            ref_copy = (np.array(ref[0], dtype=float), tuple(np.array(a_, dtype=float) for a_ in ref[1]))
            try:
                np.asarray(ref[0])[...] += 1.0
                for a_, f_ in zip(ref[1], (1.2, -0.7, 3.0, 0.25, 0.5)):
                    np.asarray(a_)[...] *= f_
            except (ValueError, TypeError):
                pass                              # read-only results are the package's business
            again = vertical_profiles(8, 5.0, (um, vm), **kw)
            n += 1
            if not (np.allclose(np.asarray(again[0]).ravel(), ref_copy[0].ravel(), rtol=1e-12, atol=0) and all(
                    np.allclose(np.asarray(p).ravel(), q.ravel(), rtol=1e-12, atol=1e-14) for p, q in zip(again[1], ref_copy[1]))):
                chk.violation("vertical_profiles called again with the same arguments after the caller rescaled the first result in place returns other profiles (closure %s): what was returned earlier is still referenced" % closure,
                              sc, klass={"check": "returned_arrays_aliased"})
                continue
            ref = ref_copy
            for o in outs:
                same = np.allclose(np.asarray(o[0]).ravel(), np.asarray(ref[0]).ravel(), rtol=1e-12, atol=0) and all(
                    np.allclose(np.asarray(p).ravel(), np.asarray(q).ravel(), rtol=1e-12, atol=1e-14) for p, q in zip(o[1], ref[1]))
                if not same:
                    chk.violation("vertical_profiles returns different profiles for the same wind given as tuple, list or array / on a repeated call (closure %s)" % closure, sc, klass={"check": "argument_form"})
                    break
    # whole numbers written as INTEGERS (meas_height=5, wind=(2, -3), mol=-40, z0=1 ...): the same profiles as with floats
    for closure in ("MOST", "MOSTM", "CONSTANT"):
        for ints, floats in (((5, (2, -3), dict(ustar=1, mol=-40)), (5.0, (2.0, -3.0), dict(ustar=1.0, mol=-40.0))),
                             ((12, (3, 1), dict(z0=1, mol=60)), (12.0, (3.0, 1.0), dict(z0=1.0, mol=60.0))),
                             ((4, (0, 2), dict(ustar=1, mol=-100, domain_height=20)), (4.0, (0.0, 2.0), dict(ustar=1.0, mol=-100.0, domain_height=20.0)))):
            sc = {"kind": "integer_arguments", "closure": closure, "arguments": repr(ints)}
            chk.case(json.dumps(sc, sort_keys=True))
            n += 1
            try:
                oi = vertical_profiles(8, ints[0], ints[1], closure=closure, **ints[2])
                of = vertical_profiles(8, floats[0], floats[1], closure=closure, **floats[2])
            except Exception as ex:  # noqa: BLE001
                chk.violation("vertical_profiles with whole numbers written as integers raised %r (closure %s, %r)" % (ex, closure, ints), sc, klass={"check": "integer_arguments"})
                continue
            if not (np.allclose(np.asarray(oi[0], dtype=float).ravel(), np.asarray(of[0], dtype=float).ravel(), rtol=1e-12, atol=0) and all(
                    np.allclose(np.asarray(p, dtype=float).ravel(), np.asarray(q, dtype=float).ravel(), rtol=1e-12, atol=1e-14) for p, q in zip(oi[1], of[1]))):
                chk.violation("vertical_profiles returns other profiles when whole-number arguments are written as integers (closure %s, %r)" % (closure, ints), sc, klass={"check": "integer_arguments"})
    return n


def partial_heights(chk):
    """only one of (stretch, domain_height) given: the other keeps its default (2 zm) - the grid still runs from z0 through
    zm at index n to the domain height"""
    from bldfm.pbl_model import vertical_profiles

    n = 0
    for closure in ("MOST", "CONSTANT"):
        for nlay in (4, 12, 33):
            for zm in (3.0, 10.0):
                for kwh, top in (({"stretch": 3.0 * zm}, 2.0 * zm), ({"stretch": 5.0 * zm}, 2.0 * zm), ({"domain_height": 2.6 * zm}, 2.6 * zm), ({"domain_height": 1.4 * zm}, 1.4 * zm)):
                    z, prof = vertical_profiles(nlay, zm, (2.0, -1.5), z0=0.05 * zm, mol=-80.0, closure=closure, **kwh)
                    z = np.asarray(z, dtype=float).ravel()
                    n += 1
                    sc = {"kind": "partial_heights", "closure": closure, "n": nlay, "zm": zm, "arguments": kwh}
                    chk.case(json.dumps(sc, sort_keys=True))
                    if not (np.isfinite(z).all() and (np.diff(z) > 0).all() and len(z) > nlay and abs(z[nlay] - zm) <= 1e-9 * zm and abs(z[0] - 0.05 * zm) <= 1e-9 * zm):
                        chk.violation("with %s the grid is not a finite increasing grid from z0 through zm at index %d (%d nodes)" % (kwh, nlay, len(z)), sc, klass={"check": "partial_heights_grid"})
                        continue
                    if z[-1] < top * (1 - 1e-9) or (len(z) >= 2 and z[-2] >= top * (1 + 1e-9) and len(z) - 2 > nlay):
                        chk.violation("with %s (the other height at its default) the grid ends at %.6g / %.6g, the domain height is %.6g" % (kwh, z[-2] if len(z) > 1 else float("nan"), z[-1], top), sc,
                                      klass={"check": "partial_heights_top"})
    return n


def grid_index_sweep(chk):
    """MANY (measurement height, layer count) pairs (the model enumerates small n exactly; quotients such as 9 / (9 / 7) round
    just below the integer in floating point): the grid is strictly increasing, node n is the measurement height, node 0 the
    roughness length, and the wind at node n is the supplied vector"""
    from bldfm.pbl_model import vertical_profiles

    n = 0
    for closure in ("MOST", "CONSTANT"):
        for zm in (2.0, 3.0, 9.0, 10.0, 12.5, 25.0, 33.3, 0.7):
            for nlay in range(4, 61):
                z, prof = vertical_profiles(nlay, zm, (2.0, -1.5), z0=0.01 * zm, mol=-80.0, closure=closure)
                z = np.asarray(z, dtype=float).ravel()
                u_, v_ = np.asarray(prof[0], dtype=float).ravel(), np.asarray(prof[1], dtype=float).ravel()
                n += 1
                if not (len(z) > nlay and np.isfinite(z).all() and (np.diff(z) > 0).all() and abs(z[nlay] - zm) <= 1e-9 * zm and abs(z[0] - 0.01 * zm) <= 1e-9 * zm
                        and abs(u_[nlay] - 2.0) <= 1e-9 and abs(v_[nlay] + 1.5) <= 1e-9):
                    sc = {"kind": "grid_index_sweep", "closure": closure, "n": nlay, "zm": zm}
                    chk.case(json.dumps(sc, sort_keys=True))
                    k_bad = int(np.argmin(np.diff(z))) if len(z) > 1 else 0
                    chk.violation("vertical_profiles(n=%d, meas_height=%g, closure %s): the grid is not strictly increasing from z0 through the measurement height at node n (z[n-1], z[n], z[n+1] = %s; smallest spacing %.3g at node %d; wind at node n = (%.6g, %.6g))"
                                  % (nlay, zm, closure, [float(x) for x in z[max(0, nlay - 1): nlay + 2]], float(np.min(np.diff(z))) if len(z) > 1 else float("nan"), k_bad, u_[min(nlay, len(u_) - 1)], v_[min(nlay, len(v_) - 1)]),
                                  sc, klass={"check": "grid_index_sweep"})
    chk.case("grid_index_sweep")
    return n


def interface_levels(chk):
    """interface.py reads level index nz as the measurement height: for every tower of a configuration, in one process"""
    from bldfm import parse_config_dict, run_bldfm_single

    n = 0
    for closure in ("MOST", "MOSTM"):
        raw = {"domain": {"nx": 8, "ny": 6, "xmax": 160.0, "ymax": 90.0, "nz": 6, "modes": [8, 6], "ref_lat": 50.0, "ref_lon": 11.0},
               "towers": [{"name": "low", "lat": 50.0003, "lon": 11.0006, "z_m": 4.0}, {"name": "high", "lat": 50.0005, "lon": 11.0011, "z_m": 13.0},
                          {"name": "mid", "lat": 50.0002, "lon": 11.0016, "z_m": 7.5}],
               "met": {"ustar": 0.35, "mol": -90.0, "wind_speed": 3.5, "wind_dir": 240.0}, "solver": {"closure": closure, "footprint": True, "precision": "double"}}
        cfg = parse_config_dict(raw)
        for order in ([0, 1, 2], [1, 0, 2]):
            for i in order:
                tw = cfg.towers[i]
                res = run_bldfm_single(cfg, tw)
                zlev = float(np.asarray(res["grid"][2]).ravel()[0])
                n += 1
                chk.case(json.dumps(["interface", closure, order, i]))
                if abs(zlev - tw.z_m) > 1e-9 * tw.z_m:
                    chk.violation("run_bldfm_single for tower %s (z_m = %g) returns its default level at height %.9g: level index nz is not the measurement height (earlier towers in this process: %s)"
                                  % (tw.name, tw.z_m, zlev, [cfg.towers[j].name for j in order[: order.index(i)]]), {"kind": "interface_level", "closure": closure, "tower": tw.name, "order": order},
                                  klass={"check": "interface_level"})
    return n


def main():
    chk = Check("C09")
    t = tier()
    r = run_tlc("Profiles", "MC_Profiles_" + t, timeout=3000)
    chk.add_tlc("MC_Profiles_" + t, r)
    if not r.ok:
        raise MachineryError("MC_Profiles_%s: %s violated on the specification" % (t, r.violated))
    if t == "thorough":
        for neg in ("MC_Profiles_neg_nopsi", "MC_Profiles_neg_step", "MC_Profiles_neg_norm"):
            rn = run_tlc("Profiles", neg, timeout=1200)
            chk.add_tlc(neg, rn, expect_violation=True)
            if rn.ok:
                raise MachineryError("negative control %s was not violated" % neg)
    chk.rule = ("TLC enumerates closure x which of (ustar, z0) is given x layers x wind vector x stability class x log-law class x top class and checks the rational "
                "identities; every configuration is instantiated with real numbers and run on vertical_profiles; distinct = distinct (configuration, instantiation) pairs")
    em = sorted(r.emitted, key=lambda e: json.dumps(e["cfg"], sort_keys=True))
    rng = np.random.default_rng(seed())
    if t == "quick":
        pick = sorted(int(x) for x in rng.choice(len(em), size=min(len(em), 5000), replace=False))
    else:
        pick = list(range(len(em)))
    calls = 0
    for j, i in enumerate(pick):
        calls += run_config(chk, em[i]["cfg"], i + 7 * seed(), em[i])
        if len(chk.violations) > 60:
            break
    chk.extra["configurations_from_tlc"] = len(em)
    chk.extra["configurations_replayed"] = len(pick)
    chk.extra["calls"] = calls
    chk.extra["stability_function_points"] = stability_functions(chk, t)
    chk.extra["argument_form_calls"] = argument_forms(chk, rng)
    chk.extra["partial_height_arguments"] = partial_heights(chk)
    chk.extra["grid_index_sweep_calls"] = grid_index_sweep(chk)
    chk.extra["interface_towers"] = interface_levels(chk)
    chk.traces = len(pick)
    chk.sample(em[0])
    chk.assumptions += [
        "inputs are physically consistent: |zm/L| <= 1.2, ln(zm/z0) + psi > 0, default heights or an explicit (stretch, domain_height) pair whose top node stays inside the mapped interval",
        "MOSTM: Kx, Ky >= 0 with Kx + Ky = K (the closure removes diffusion along one horizontal axis by design); Kz > 0 for every closure",
        "psi is compared with the quadrature of (phi_m - 1)/x with the momentum flux-gradient function (exponent -1/4), phi with the scalar one (exponent -1/2), as the reference model's copies do",
        "which exception an invalid argument combination raises is not part of the property (reported as drift only)",
    ]
    return chk.finish()
