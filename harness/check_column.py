"""C01 (claimed core): the vertical sweep for height-dependent profiles.

spec/Column.tla states which node's coefficients, which layer thickness, which boundary node and which quadrature weights
every step of the sweep uses, and TLC checks that they are consistent (samples inside their layer, own thickness, top node,
weights adding up) - the "sampling-point, index and weighting" content of the property, which is invisible with the
height-independent profiles of the repository's tests.

Code -> specification: the real ivp_solver / mean mode / shooting combination are run on MARKER columns (every node carries
different dyadic values of u, v, Kx, Ky, Kz, every layer a different thickness); from the per-layer transfer matrices the
harness identifies which node and which thickness each layer actually used and judges the observation against the
specification: the specification's assignment = accepted; another assignment inside the layer = drift (a different but
consistent design); anything else = violation.

The asymptotic statement itself (convergence to the exact boundary-value solution, error proportional to the layer
thickness) is then instantiated: per Fourier component the exact solution is computed by the harness (scipy solve_ivp on
the continuous profile functions, two initial-value problems combined at the top with the decaying continuation) and
compared with the real solver on grids of n and 4n layers.
"""

import json
import math

import numpy as np

from . import common
from .common import Check, MachineryError, run_tlc, seed, tier


# ------------------------------------------------------------------------------------------------ marker columns
def marker_column(nz, rng):
    """distinct dyadic values per node (well separated: factors >= 1.25 apart), thin layers of different thickness"""
    dz = (1.0 + 0.37 * (rng.permutation(nz - 1) % 9)) / 256.0
    z = np.concatenate([[0.125], 0.125 + np.cumsum(dz)])
    # a different ratio per array, so that no two (node, thickness) pairs give the same -dz/Kz AND the same T dz
    def marks(ratio):
        k = rng.permutation(nz)
        # long columns: exponents are folded to 0..6 (values stay O(1), layers stay thin) with a 3 % jitter to keep neighbours apart
        return ratio ** (k % 7) * (1.0 + 0.03 * (k // 7))
    Kz = 0.5 * marks(1.5)
    Kx = 0.25 * marks(1.41)
    Ky = 0.75 * marks(1.62)
    u = 1.0 * marks(1.33)
    v = -0.5 * marks(1.73)
    return z, (u, v, Kx, Ky, Kz)


def layer_matrices(z, prof, lx, ly):
    """per-layer 2x2 transfer matrices of the real ivp_solver for one Fourier component"""
    import bldfm.solver as S

    nz = len(z)
    levels = np.arange(nz)
    Lx, Ly = np.array([lx]), np.array([ly])
    one, zero = np.array([1.0 + 0j]), np.array([0.0 + 0j])
    _, _, p1, q1 = S.ivp_solver((one, zero), prof, z, levels, Lx, Ly)
    _, _, p2, q2 = S.ivp_solver((zero, one), prof, z, levels, Lx, Ly)
    S_ = [np.array([[p1[i, 0], p2[i, 0]], [q1[i, 0], q2[i, 0]]]) for i in range(nz)]
    return [S_[i + 1] @ np.linalg.inv(S_[i]) for i in range(nz - 1)], S_[-1]


def identify_layer(M, i, z, prof, lx, ly):
    """which node's coefficients and which layer's thickness reproduce the leading terms b = -dz/Kz, c = T dz of layer i"""
    u, v, Kx, Ky, Kz = prof
    dz = np.diff(z)
    nz = len(z)
    best = []
    for c in range(nz):
        T = -(Kx[c] * lx ** 2 + Ky[c] * ly ** 2) - 1j * (u[c] * lx + v[c] * ly)
        for d in range(nz - 1):
            b0, c0 = -dz[d] / Kz[c], T * dz[d]
            err = abs(M[0, 1] - b0) / abs(b0) + abs(M[1, 0] - c0) / abs(c0)
            best.append((err, c, d))
    best.sort()
    return best[0], best[1], {(c, d): e for e, c, d in best}


# ------------------------------------------------------------------------------------------------ exact solution
def profile_family(kind):
    """continuous profile functions z -> (u, v, Kx, Ky, Kz) and the vertical extent"""
    kap = 0.4
    if kind == "log_neutral":
        us, z0 = 0.3, 0.05
        f = lambda z: (us / kap * np.log(z / z0) * 0.8, us / kap * np.log(z / z0) * 0.6, kap * us * z, kap * us * z, kap * us * z)
        return f, z0, 6.0
    if kind == "power":
        f = lambda z: (3.0 * (z / 2.0) ** 0.25, 0.0 * z, 0.6 * (z / 2.0) ** 0.8, 0.6 * (z / 2.0) ** 0.8, 0.6 * (z / 2.0) ** 0.8)
        return f, 0.1, 5.0
    if kind == "most_unstable":
        us, z0, L = 0.25, 0.03, -20.0
        def f(z):
            x = (1 - 16 * z / L) ** 0.25
            psi = -2 * np.log(0.5 * (1 + x)) - np.log(0.5 * (1 + x * x)) + 2 * np.arctan(x) - 0.5 * np.pi
            sp = us / kap * (np.log(z / z0) + psi)
            K = kap * us * z * (1 - 16 * z / L) ** 0.5
            return (-0.6 * sp, 0.8 * sp, K, K, K)
        return f, z0, 4.0
    if kind == "most_stable":
        us, z0, L = 0.2, 0.02, 15.0
        def f(z):
            sp = us / kap * (np.log(z / z0) + 5 * z / L)
            K = kap * us * z / (1 + 5 * z / L)
            return (sp, 0.0 * z, K, K, K)
        return f, z0, 4.0
    if kind == "aniso_linear":
        f = lambda z: (2.0 + 0.5 * z, -1.0 - 0.2 * z, 2.0 * (0.2 + 0.3 * z), 0.5 * (0.2 + 0.3 * z), 0.2 + 0.3 * z)
        return f, 0.2, 5.0
    if kind.startswith("random"):
        # a seeded smooth positive family: power-law wind with a turning direction, diffusivities a + b z^q with different
        # coefficients per axis
        r = np.random.default_rng(int(kind[6:]))
        a, b, pw = r.uniform(0.5, 3.0), r.uniform(0.2, 2.0), r.uniform(0.1, 0.9)
        th0, th1 = r.uniform(0, 2 * np.pi), r.uniform(-0.6, 0.6)
        kz0, kz1, q = r.uniform(0.02, 0.3), r.uniform(0.05, 0.6), r.uniform(0.5, 1.5)
        fx, fy = r.uniform(0.5, 2.5), r.uniform(0.5, 2.5)
        z0, ztop = float(r.uniform(0.02, 0.3)), float(r.uniform(3.0, 8.0))

        def f(z):
            sp = a + b * z ** pw
            th = th0 + th1 * (z - z0) / (ztop - z0)
            K = kz0 + kz1 * z ** q
            return (sp * np.cos(th), sp * np.sin(th), fx * K, fy * K, K)
        return f, z0, ztop
    raise KeyError(kind)


def exact_response(f, z0, ztop, kx, ky, heights):
    """(p, q)(heights) for unit surface flux of the component exp(i(kx x + ky y)):  p' = -q/Kz,  q' = T p,
    q(z0) = 1, q = Kz beta p at ztop with beta = sqrt(-T/Kz) (decaying continuation with the top coefficients)"""
    from scipy.integrate import solve_ivp

    def rhs(z, y):
        u, v, Kx, Ky, Kz = (float(a) for a in f(np.float64(z)))
        T = -(Kx * kx ** 2 + Ky * ky ** 2) - 1j * (u * kx + v * ky)
        return [-y[1] / Kz, T * y[0]]

    hs = sorted(set([float(h) for h in heights] + [ztop]))
    sols = []
    for y0 in ([1.0 + 0j, 0j], [0j, 1.0 + 0j]):
        s = solve_ivp(rhs, (z0, ztop), y0, method="DOP853", t_eval=hs, rtol=1e-11, atol=1e-14)
        if not s.success:
            raise MachineryError("reference integration failed: %s" % s.message)
        sols.append(s.y)
    u, v, Kx, Ky, Kz = (float(a) for a in f(np.float64(ztop)))
    T = -(Kx * kx ** 2 + Ky * ky ** 2) - 1j * (u * kx + v * ky)
    beta = np.sqrt(-T / Kz)
    p1, q1, p2, q2 = sols[0][0][-1], sols[0][1][-1], sols[1][0][-1], sols[1][1][-1]
    alpha = -(q2 - Kz * beta * p2) / (q1 - Kz * beta * p1)
    out = {}
    for j, h in enumerate(hs):
        out[h] = (alpha * sols[0][0][j] + sols[1][0][j], alpha * sols[0][1][j] + sols[1][1][j])
    growth = float(np.real(beta)) * (ztop - z0)
    return out, growth


def code_response(z, prof, mx, my, nxy, domain, levels):
    """complex response (p, q) of the real solver to a unit-amplitude surface flux cos(kx x + ky y), per requested level"""
    from bldfm.solver import steady_state_transport_solver

    nx, ny = nxy
    x = np.arange(nx) * domain[0] / nx
    y = np.arange(ny) * domain[1] / ny
    X, Y = np.meshgrid(x, y)
    th = 2 * np.pi * (mx * X / domain[0] + my * Y / domain[1])
    q0 = np.cos(th)
    _, conc, flx = steady_state_transport_solver(q0, z, prof, domain, list(levels), modes=(nx, ny), halo=0.0, precision="double")
    conc = np.asarray(conc).reshape(len(levels), ny, nx)
    flx = np.asarray(flx).reshape(len(levels), ny, nx)
    e = np.exp(-1j * th)
    return [(2.0 * (conc[k] * e).mean(), 2.0 * (flx[k] * e).mean()) for k in range(len(levels))]


def field_error(fv, z, prof, mx, my, nxy, domain, levels, modes=None):
    """the real solver's fields for the surface flux cos(kx x + ky y) against the exact solution, as FIELDS: the source is
    decomposed into its discrete Fourier coefficients (two for an ordinary component; for the unpaired edge column/row of an
    even mode count the two coefficients are NOT complex conjugates of each other, and the solver labels that column with
    the negative wavenumber), each coefficient is propagated with the exact response of its own wavenumber pair, and the
    real part of the sum is compared with the returned fields.  Returns (max error relative to the surface concentration
    amplitude, growth)."""
    from bldfm.solver import steady_state_transport_solver

    nx, ny = nxy
    x = np.arange(nx) * domain[0] / nx
    y = np.arange(ny) * domain[1] / ny
    X, Y = np.meshgrid(x, y)
    q0 = np.cos(2 * np.pi * (mx * X / domain[0] + my * Y / domain[1]))
    _, conc, flx = steady_state_transport_solver(q0, z, prof, domain, list(levels), modes=modes or (nx, ny), halo=0.0, precision="double")
    conc = np.asarray(conc).reshape(len(levels), ny, nx)
    flx = np.asarray(flx).reshape(len(levels), ny, nx)
    coef = np.fft.fft2(q0) / (nx * ny)
    fx = np.fft.fftfreq(nx, d=1.0 / nx)
    fy = np.fft.fftfreq(ny, d=1.0 / ny)
    heights = [float(z[k]) for k in levels]
    want_p = np.zeros((len(levels), ny, nx), dtype=complex)
    want_q = np.zeros((len(levels), ny, nx), dtype=complex)
    growth, memo = 0.0, {}
    # a mode request below the grid keeps the wavenumbers of fftfreq(request): -request/2 is kept, +request/2 is not (its
    # partner is cut, so that column stands for the negative wavenumber alone)
    keep_x = set(np.fft.fftfreq(min((modes or (nx, ny))[0], nx), d=1.0 / min((modes or (nx, ny))[0], nx)).round().astype(int).tolist())
    keep_y = set(np.fft.fftfreq(min((modes or (nx, ny))[1], ny), d=1.0 / min((modes or (nx, ny))[1], ny)).round().astype(int).tolist())
    for jy, jx in np.argwhere(np.abs(coef) > 1e-12):
        if int(round(fx[jx])) not in keep_x or int(round(fy[jy])) not in keep_y:
            continue
        kx, ky = 2 * np.pi * fx[jx] / domain[0], 2 * np.pi * fy[jy] / domain[1]
        key = (round(float(kx), 12), round(float(ky), 12))
        if (-key[0], -key[1]) in memo:               # the response of the mirrored wavenumber pair is the complex conjugate
            ex = {h: (np.conj(v[0]), np.conj(v[1])) for h, v in memo[(-key[0], -key[1])].items()}
        else:
            ex, g = exact_response(fv, float(z[0]), float(z[-1]), float(kx), float(ky), heights)
            growth = max(growth, g)
        memo[key] = ex
        wave = np.exp(1j * (kx * X + ky * Y))
        for k, h in enumerate(heights):
            want_p[k] += coef[jy, jx] * ex[h][0] * wave
            want_q[k] += coef[jy, jx] * ex[h][1] * wave
    scale_p = max(float(np.abs(want_p[0].real).max()), 1e-300)
    err = max(float(np.abs(conc - want_p.real).max()) / scale_p, float(np.abs(flx - want_q.real).max()))
    return err, growth


def grid_of(kind, z0, ztop, n):
    if kind == "uniform":
        return np.linspace(z0, ztop, n + 1)
    r = (ztop / z0) ** (1.0 / n)              # geometric stretching
    return z0 * r ** np.arange(n + 1)


def convergence(chk, t, rng):
    fams = ["log_neutral", "power", "most_unstable", "most_stable", "aniso_linear"]
    fams += ["random%d" % (1000 * seed() + k) for k in range(2 if t == "quick" else 24)]
    grids = ["uniform", "stretched"]
    # coarse and fine pairs: a scheme may behave on coarse grids and degrade on fine ones (thresholds on the change between
    # neighbouring nodes, accumulated rounding), so the refinement test is made at two very different resolutions
    n0s = [24, 96] if t == "quick" else [16, 24, 40, 96, 160]
    nxy, domain = (8, 6), (400.0, 300.0)
    n = 0
    worst_ratio, worst_c = 1e9, 0.0
    for fam in fams:
        f, z0, ztop = profile_family(fam)
        for gk in grids:
            for n0 in n0s:
                # ordinary components and the unpaired edge column / row of the even mode count (kx = -nx/2, ky = -ny/2)
                comps = [(1, 0), (0, 1), (1, 1), (2, -1), (3, 1), (-4, 1), (-4, -2)] if t == "quick" else [(1, 0), (0, 1), (1, 1), (2, -1), (3, 1), (-2, 2), (3, -2), (1, 2), (-4, 1), (-4, -2), (2, -3), (-4, -3)]
                if n0 >= 96:
                    comps = comps[1:4] + comps[5:6]
                # variants of the family: the profiles as they are; the same column with other horizontal diffusivities solved
                # right after it (same z, u, v, Kz: nothing of the earlier solve may survive in the process); a wind that
                # turns with height (30 degrees of veering over the column)
                def f_aniso(zz, f=f):
                    u_, v_, Kx_, Ky_, Kz_ = f(zz)
                    return (u_, v_, 2.5 * Kx_, 0.4 * Ky_, Kz_)

                def f_veer(zz, f=f, z0=z0, ztop=ztop):
                    u_, v_, Kx_, Ky_, Kz_ = f(zz)
                    th = (np.pi / 6.0) * (zz - z0) / (ztop - z0)
                    return (u_ * np.cos(th) - v_ * np.sin(th), u_ * np.sin(th) + v_ * np.cos(th), Kx_, Ky_, Kz_)

                runs = [("plain", f, c) for c in comps] + [("other Kx, Ky after the plain solve", f_aniso, comps[2 % len(comps)]), ("veering wind", f_veer, comps[1 % len(comps)])]
                for (variant, fv, (mx, my)) in runs:
                    kx, ky = 2 * np.pi * mx / domain[0], 2 * np.pi * my / domain[1]
                    errs, rel_dz = [], []
                    skip = False
                    for nn in (n0, 4 * n0):
                        z = grid_of(gk, z0, ztop, nn)
                        if variant.startswith("other"):
                            prof0 = tuple(np.asarray(a, dtype=float) * np.ones_like(z) for a in f(z))
                            code_response(z, prof0, mx, my, nxy, domain, [0, nn // 4, nn // 2])          # the earlier solve
                        prof = tuple(np.asarray(a, dtype=float) * np.ones_like(z) for a in fv(z))
                        u, v, Kx, Ky, Kz = prof
                        dz = np.diff(z)
                        T = -(Kx * kx ** 2 + Ky * ky ** 2) - 1j * (u * kx + v * ky)
                        if nn == n0 and (np.abs(T[:-1]) * dz ** 2 / Kz[:-1]).max() > 1.0:
                            skip = True                 # not resolved by the coarsest grid: outside the property
                            break
                        lv = [0, nn // 3, (2 * nn) // 3, nn] if (mx + my) % 2 else [0, nn // 4, nn // 2]     # with and without the top node among the outputs
                        e, growth = field_error(fv, z, prof, mx, my, nxy, domain, lv)
                        if growth > 18.0:
                            skip = True
                            break
                        errs.append(e)
                        rel_dz.append(float((dz / z[1:]).max()))
                    if skip:
                        continue
                    n += 1
                    chk.case(json.dumps([fam, variant, gk, n0, mx, my]))
                    sc = {"kind": "convergence", "family": fam, "variant": variant, "grid": gk, "layers": [n0, 4 * n0], "component": [mx, my], "errors": errs, "relative_layer_thickness": rel_dz}
                    if errs[0] > 1e-9:
                        worst_ratio = min(worst_ratio, errs[0] / max(errs[1], 1e-300))
                        worst_c = max(worst_c, errs[0] / rel_dz[0])
                        if errs[1] > errs[0] / 2.5:
                            chk.violation("component (%d,%d), %s profiles (%s), %s grid: the error against the exact solution is %.3e with %d layers and %.3e with %d (quartered thickness): it does not shrink 2.5 times"
                                          % (mx, my, fam, variant, gk, errs[0], n0, errs[1], 4 * n0), sc, klass={"check": "convergence_ratio", "family": fam, "variant": variant})
                            continue
                        if errs[0] > 6.0 * rel_dz[0]:
                            # "a small multiple" has no number in the property: reported, not an alarm
                            chk.drift_note("component (%d,%d), %s profiles, %s grid, %d layers: error %.3e is more than 6 x the relative layer thickness %.3e"
                                           % (mx, my, fam, gk, n0, errs[0], rel_dz[0]))
    # LARGE shooting growth (the property allows sum Re(lambda) dz up to 18): a small domain, components with growth 8 ... 17
    f, z0, ztop = profile_family("log_neutral")
    ngrow = 0
    for dom_s, comp in (((9.0, 7.0), (1, 1)), ((6.0, 4.5), (1, 0)), ((5.0, 4.0), (1, -1)), ((4.0, 3.0), (0, 1))):
        errs, grow = [], 0.0
        for nn in (96, 384):
            z = grid_of("stretched", z0, ztop, nn)
            prof = tuple(np.asarray(a, dtype=float) * np.ones_like(z) for a in f(z))
            u, v, Kx, Ky, Kz = prof
            kx, ky = 2 * np.pi * comp[0] / dom_s[0], 2 * np.pi * comp[1] / dom_s[1]
            T = -(Kx * kx ** 2 + Ky * ky ** 2) - 1j * (u * kx + v * ky)
            if nn == 96 and (np.abs(T[:-1]) * np.diff(z) ** 2 / Kz[:-1]).max() > 1.0:
                errs = None
                break
            e, grow = field_error(f, z, prof, comp[0], comp[1], nxy, dom_s, [0, nn // 4, nn // 2])
            errs.append(e)
        if errs is None or grow > 18.0 or grow < 6.0:
            continue
        ngrow += 1
        n += 1
        chk.case(json.dumps(["growth", dom_s, comp]))
        if errs[0] > 1e-9 and errs[1] > errs[0] / 2.5:
            chk.violation("component (%d,%d) on a %g x %g m domain (shooting growth exp(%.1f)): the error against the exact solution is %.3e with 96 layers and %.3e with 384: it does not shrink 2.5 times"
                          % (comp[0], comp[1], dom_s[0], dom_s[1], grow, errs[0], errs[1]), {"kind": "convergence", "variant": "large growth", "domain": dom_s, "component": comp, "errors": errs, "growth": grow},
                          klass={"check": "convergence_ratio", "family": "log_neutral", "variant": "large growth"})
    # ODD grids with a mode request above the grid size (the solver clamps it to the grid: an odd number of retained modes per
    # axis, no unpaired edge column) - every retained component still converges to the exact response
    nodd = 0
    for fam in ("log_neutral", "aniso_linear"):
        f, z0, ztop = profile_family(fam)
        for nxy_o, dom_o in (((9, 6), (450.0, 300.0)), ((8, 7), (400.0, 350.0)), ((7, 5), (350.0, 250.0))):
            for comp in ((1, 0), (1, 1), (2, -1), (-3, 2)):
                errs = []
                for nn in (24, 96):
                    z = grid_of("stretched", z0, ztop, nn)
                    prof = tuple(np.asarray(a, dtype=float) * np.ones_like(z) for a in f(z))
                    u, v, Kx, Ky, Kz = prof
                    kx, ky = 2 * np.pi * comp[0] / dom_o[0], 2 * np.pi * comp[1] / dom_o[1]
                    T = -(Kx * kx ** 2 + Ky * ky ** 2) - 1j * (u * kx + v * ky)
                    if nn == 24 and (np.abs(T[:-1]) * np.diff(z) ** 2 / Kz[:-1]).max() > 1.0:
                        errs = None
                        break
                    e, grow = field_error(f, z, prof, comp[0], comp[1], nxy_o, dom_o, [0, nn // 4, nn // 2], modes=(64, 64))
                    if grow > 18.0:
                        errs = None
                        break
                    errs.append(e)
                if errs is None:
                    continue
                nodd += 1
                n += 1
                chk.case(json.dumps(["odd grid", fam, nxy_o, comp]))
                if errs[0] > 1e-9 and errs[1] > errs[0] / 2.5:
                    chk.violation("component (%d,%d) on a %d x %d grid with the mode request clamped to the grid, %s profiles: the error against the exact solution is %.3e with 24 layers and %.3e with 96: it does not shrink 2.5 times"
                                  % (comp[0], comp[1], nxy_o[0], nxy_o[1], fam, errs[0], errs[1]), {"kind": "convergence", "variant": "odd grid, clamped modes", "grid": list(nxy_o), "component": comp, "errors": errs},
                                  klass={"check": "convergence_ratio", "family": fam, "variant": "odd grid"})
    chk.extra["odd_grid_cases"] = nodd
    # a mode request BELOW the grid: the component at the edge of the retained band (-request/2) has lost its partner and is
    # solved with its own, negative, wavenumber
    ntrunc = 0
    for fam in ("log_neutral", "aniso_linear"):
        f, z0, ztop = profile_family(fam)
        for req, comp in (((6, 4), (3, 1)), ((6, 4), (1, 2)), ((6, 6), (-3, 2)), ((4, 6), (2, -1)), ((6, 4), (3, 2))):
            errs = []
            for nn in (24, 96):
                z = grid_of("stretched", z0, ztop, nn)
                prof = tuple(np.asarray(a, dtype=float) * np.ones_like(z) for a in f(z))
                u, v, Kx, Ky, Kz = prof
                kx, ky = 2 * np.pi * comp[0] / domain[0], 2 * np.pi * comp[1] / domain[1]
                T = -(Kx * kx ** 2 + Ky * ky ** 2) - 1j * (u * kx + v * ky)
                if nn == 24 and (np.abs(T[:-1]) * np.diff(z) ** 2 / Kz[:-1]).max() > 1.0:
                    errs = None
                    break
                e, grow = field_error(f, z, prof, comp[0], comp[1], nxy, domain, [0, nn // 4, nn // 2], modes=req)
                if grow > 18.0:
                    errs = None
                    break
                errs.append(e)
            if errs is None:
                continue
            ntrunc += 1
            n += 1
            chk.case(json.dumps(["truncated request", fam, req, comp]))
            if errs[0] > 1e-9 and errs[1] > errs[0] / 2.5:
                chk.violation("component (%d,%d) on an %d x %d grid with %d x %d modes requested (edge of the retained band), %s profiles: the error against the exact solution is %.3e with 24 layers and %.3e with 96: it does not shrink 2.5 times"
                              % (comp[0], comp[1], nxy[0], nxy[1], req[0], req[1], fam, errs[0], errs[1]), {"kind": "convergence", "variant": "truncated request", "modes": list(req), "component": comp, "errors": errs},
                              klass={"check": "convergence_ratio", "family": fam, "variant": "truncated request"})
    chk.extra["truncated_request_cases"] = ntrunc
    # a WEAK component next to a strong one: the problem is linear, every retained component is solved whatever its amplitude
    from bldfm.solver import steady_state_transport_solver
    nweak = 0
    for fam in ("power", "most_unstable"):
        f, z0, ztop = profile_family(fam)
        nn = 96
        z = grid_of("uniform", z0, ztop, nn)
        prof = tuple(np.asarray(a, dtype=float) * np.ones_like(z) for a in f(z))
        nx, ny = nxy
        x = np.arange(nx) * domain[0] / nx
        y = np.arange(ny) * domain[1] / ny
        X, Y = np.meshgrid(x, y)
        th1 = 2 * np.pi * (1 * X / domain[0] + 0 * Y / domain[1])
        th2 = 2 * np.pi * (2 * X / domain[0] - 1 * Y / domain[1])
        for amp in (1e-9, 1e-12):
            q0 = np.cos(th1) + amp * np.cos(th2)
            _, conc, flx = steady_state_transport_solver(q0, z, prof, domain, [0, nn // 2], modes=(nx, ny), halo=0.0, precision="double")
            conc = np.asarray(conc).reshape(2, ny, nx)
            kx2, ky2 = 2 * np.pi * 2 / domain[0], -2 * np.pi / domain[1]
            ex, _ = exact_response(f, float(z[0]), float(z[-1]), kx2, ky2, [float(z[0]), float(z[nn // 2])])
            got = 2.0 * (conc[0] * np.exp(-1j * th2)).mean() / amp            # the weak component's surface response per unit amplitude
            want = ex[float(z[0])][0]
            nweak += 1
            n += 1
            chk.case(json.dumps(["weak component", fam, amp]))
            if abs(got - want) > 0.3 * abs(want):
                chk.violation("%s profiles: a component of relative amplitude %g next to a unit one responds with %.4g%+.4gj per unit amplitude, the exact response is %.4g%+.4gj (96 layers): a retained component is not solved"
                              % (fam, amp, got.real, got.imag, want.real, want.imag), {"kind": "weak_component", "family": fam, "amplitude": amp}, klass={"check": "weak_component"})
    chk.extra["weak_component_cases"] = nweak
    chk.extra["large_growth_cases"] = ngrow
    chk.extra["convergence_cases"] = n
    chk.extra["smallest_error_reduction_when_quartered"] = worst_ratio
    chk.extra["largest_error_over_relative_thickness"] = worst_c
    return n


def judge_sampling(chk, emitted, t, rng):
    """code -> specification: identify, on marker columns, what every layer of the real sweep used"""
    from bldfm.solver import steady_state_transport_solver

    n = 0
    by_nz = {e["nz"]: e for e in emitted}
    sizes = sorted(by_nz) + ([12, 33] if t == "thorough" else [12])
    for nz in sizes:
        for rep in range(2 if t == "quick" else 6):
            z, prof = marker_column(nz, rng)
            for (lx, ly) in ((1.0, 0.0), (0.0, 1.0), (0.75, -0.5)):
                try:
                    Ms, Stot = layer_matrices(z, prof, lx, ly)
                except np.linalg.LinAlgError:
                    # the recorded states do not span the layer maps (e.g. a requested node comes back empty): the
                    # identification (drift-only) has nothing to say; the comparison with the exact solution decides
                    chk.drift_note("sampling identification: the states returned by ivp_solver for a %d-node marker column are singular (an output node carries no state)" % nz)
                    continue
                for i, M in enumerate(Ms):
                    (err, c, d), (err2, c2, d2), table = identify_layer(M, i, z, prof, lx, ly)
                    n += 1
                    chk.case(json.dumps([nz, rep, lx, ly, i]))
                    sc = {"kind": "sampling", "nz": nz, "layer": i, "z": z.tolist(), "Kz": prof[4].tolist()}
                    want = by_nz[nz]["steps"][i] if nz in by_nz else {"coef": i, "dz": i}
                    if table[(want["coef"], want["dz"])] < 0.02:
                        continue                    # the specification's assignment explains the step
                    # effective coefficients of the step under the layer's own thickness: Kz_eff = -dz/b, T_eff = c/dz
                    dzi = float(np.diff(z)[i])
                    kz_eff = (-dzi / M[0, 1]).real
                    t_eff = M[1, 0] / dzi
                    u, v, Kx, Ky, Kz = prof
                    # per profile: the value the step saw (only the pure probes separate the arrays)
                    seen = {"Kz": (kz_eff, Kz)}
                    if ly == 0.0:
                        seen["Kx"] = (-t_eff.real / lx ** 2, Kx)
                        seen["u"] = (-t_eff.imag / lx, u)
                    elif lx == 0.0:
                        seen["Ky"] = (-t_eff.real / ly ** 2, Ky)
                        seen["v"] = (-t_eff.imag / ly, v)
                    inside = all(min(a[i], a[i + 1]) * (1 - 0.03) <= val <= max(a[i], a[i + 1]) * (1 + 0.03) if a[i] > 0 else min(a[i], a[i + 1]) * (1 + 0.03) <= val <= max(a[i], a[i + 1]) * (1 - 0.03)
                                 for val, a in seen.values())
                    in_column = all(min(a.min(), a.max()) - 0.03 * abs(a).max() <= val <= max(a.min(), a.max()) + 0.03 * abs(a).max() for val, a in seen.values())
                    if inside:
                        chk.drift_note("layer %d of %d nodes does not use the specification's sample (node %d) but values between those of its two nodes: another consistent design" % (i, nz, want["coef"]))
                    elif in_column:
                        # a fixed index offset (node i-1, i+2, the thickness of a neighbouring layer) is still an O(dz) sample: the
                        # refinement test below decides; the identification is reported
                        chk.drift_note("layer %d of %d nodes: the step is explained by node %d / thickness %d (residual %.3f), outside the layer; effective values %s"
                                       % (i, nz, c, d, err, {k: round(float(vv[0]), 4) for k, vv in seen.items()}))
                    else:
                        bad = [k for k, (val, a) in seen.items() if not (min(a.min(), a.max()) - 0.03 * abs(a).max() <= val <= max(a.min(), a.max()) + 0.03 * abs(a).max())]
                        chk.violation("layer %d of %d nodes: the step of the real sweep acts with %s = %s, outside the range of that profile over the whole column (%s): no sampling of the profile explains it"
                                      % (i, nz, bad[0], round(float(seen[bad[0]][0]), 5), [round(float(x), 5) for x in (seen[bad[0]][1].min(), seen[bad[0]][1].max())]),
                                      sc, klass={"check": "sampling_out_of_range", "profile": bad[0]})
            # boundary node and mean mode through the public solver
            nx, ny, dom = 8, 6, (8.0 * 2 * np.pi, 6.0 * 2 * np.pi)       # kx = mx * 2 pi / 16 pi ... unit-free small wavenumbers
            mx, my = 1, 1
            kx, ky = 2 * np.pi * mx / dom[0], 2 * np.pi * my / dom[1]
            try:
                Ms, Stot = layer_matrices(z, prof, kx, ky)
            except np.linalg.LinAlgError:
                chk.drift_note("boundary-node identification: the states returned by ivp_solver for a %d-node marker column are singular" % nz)
                continue
            got = code_response(z, prof, mx, my, (nx, ny), dom, [0])[0][0]
            u, v, Kx, Ky, Kz = prof
            cands = []
            for c in range(nz):
                T = -(Kx[c] * kx ** 2 + Ky[c] * ky ** 2) - 1j * (u[c] * kx + v[c] * ky)
                beta = np.sqrt(-T / Kz[c])
                alpha = -(Stot[1, 1] - Kz[c] * beta * Stot[0, 1]) / (Stot[1, 0] - Kz[c] * beta * Stot[0, 0])
                cands.append((abs(alpha - got) / abs(got), c))
            cands.sort()
            n += 1
            sc = {"kind": "boundary_node", "nz": nz, "identified": cands[0][1]}
            if cands[0][0] > 1e-8:
                chk.drift_note("%d nodes: the surface response is not explained by a decaying continuation built from a single node's coefficients (best: node %d, residual %.2e)" % (nz, cands[0][1], cands[0][0]))
            elif cands[0][1] != nz - 1:
                chk.drift_note("%d nodes: the upper boundary condition is built from the coefficients of node %d, not of the top node %d (the refinement test decides)" % (nz, cands[0][1], nz - 1))
            # mean mode: resistance of every layer between the harmonic bounds, equal to the specification's weights
            q0 = np.full((ny, nx), 0.5)
            _, conc, _ = steady_state_transport_solver(q0, z, prof, dom, list(range(nz)), modes=(nx, ny), halo=0.0, precision="double", srf_bg_conc=1.0)
            pm = np.asarray(conc).reshape(nz, -1).mean(axis=1)
            dz = np.diff(z)
            for i in range(nz - 1):
                R = (pm[i] - pm[i + 1]) / 0.5
                lo, hi = dz[i] / max(Kz[i], Kz[i + 1]), dz[i] / min(Kz[i], Kz[i + 1])
                trap = dz[i] * (0.5 / Kz[i] + 0.5 / Kz[i + 1])
                n += 1
                sc = {"kind": "mean_quadrature", "nz": nz, "layer": i, "resistance": R, "bounds": [lo, hi]}
                glo, ghi = dz[i] / Kz.max(), dz[i] / Kz.min()
                if not (glo * (1 - 1e-9) <= R <= ghi * (1 + 1e-9)):
                    chk.violation("mean mode, layer %d: the concentration drop per unit flux %.6g is outside [dz/Kmax, dz/Kmin] over the whole column = [%.6g, %.6g]: not a quadrature of 1/Kz" % (i, R, glo, ghi),
                                  sc, klass={"check": "mean_quadrature"})
                elif not (lo * (1 - 1e-9) <= R <= hi * (1 + 1e-9)):
                    chk.drift_note("mean mode, layer %d: resistance %.6g is outside the bounds of the layer's own nodes [%.6g, %.6g]" % (i, R, lo, hi))
                elif abs(R - trap) > 1e-9 * trap:
                    chk.drift_note("mean mode, layer %d: resistance %.9g is inside the layer's bounds but not the trapezoidal value %.9g" % (i, R, trap))
    return n


def main():
    chk = Check("C01")
    t = tier()
    r = run_tlc("Column", "MC_Column", workers=4)
    chk.add_tlc("MC_Column", r)
    if not r.ok:
        raise MachineryError("MC_Column: %s violated" % r.violated)
    ra = run_tlc("Column", "MC_Column_alt_upper", workers=4)
    chk.add_tlc("MC_Column_alt_upper", ra)
    if not ra.ok:
        raise MachineryError("MC_Column_alt_upper: %s violated" % ra.violated)
    if t == "thorough":
        for neg in ("MC_Column_neg_previous", "MC_Column_neg_dz", "MC_Column_neg_top", "MC_Column_neg_weights"):
            rn = run_tlc("Column", neg, workers=4)
            chk.add_tlc(neg, rn, expect_violation=True)
            if rn.ok:
                raise MachineryError("negative control %s was not violated" % neg)
    rng = np.random.default_rng(seed())
    chk.rule = ("TLC checks the sampling structure of the sweep for 2..8 nodes; the real sweep is run on marker columns (2..8, 12[, 33] nodes, three wavenumber pairs) and every layer's "
                "node / thickness, the boundary node and the mean-mode weights are identified and judged against the specification; then components x profile families x grids are compared "
                "with the exact boundary-value solution at n and 4n layers; distinct = identified layers + convergence cases")
    ns = judge_sampling(chk, r.emitted, t, rng)
    nc = convergence(chk, t, rng)
    chk.traces = ns + nc
    chk.extra["sampling_observations"] = ns
    chk.sample(r.emitted[0])
    chk.assumptions += [
        "claimed core: consistency of the sweep (sampling inside the layer, own thickness, top-node boundary condition, quadrature weights); convergence of a consistent one-step scheme is the standard theorem",
        "the asymptotic statement is instantiated at n and 4n layers (n = 24 and 96; thorough 16, 24, 40, 96, 160) against scipy DOP853 (rtol 1e-11) on the continuous profile functions, for components resolved by the coarse grid (|T| dz^2 / Kz <= 1) with growth <= 18",
        "'about in proportion' is checked as the property's own number: the error shrinks at least 2.5 times when the thickness is quartered; 'a small multiple of the relative layer thickness' has no number: errors above 6 x max(dz/z) are reported as drift (observed maximum 3.1)",
        "ivp_solver is a module-level function, not exported API; if it disappears the check reports a machinery failure, not a violation",
    ]
    return chk.finish()
