"""Faithfulness self-test of the solver model.

With the deviation switches of the pinned commit (spec/MC_*_pinned.cfg) the model does not
check the invariants but emits their truth value per configuration.  The same configurations
are run on a checkout of the pinned code (BLDFM_REPO=<worktree of the pre-fix commit>); the set
of configurations on which each identity fails must be the same in the model and in the code.
This shows that the model's stages represent the code - including its defects - and is what
justifies reading the repaired-switch model as the design the repaired code must follow.

usage: BLDFM_REPO=/tmp/pinned python -m harness.faithful <Family> [...]
"""

import json
import sys

import numpy as np

from . import common
from .common import Check, run_tlc


def km_types():
    """number kinds through the Kormann-Meixner model: with HelperAlloc = "like" the specification predicts which input
    kinds cut a fraction off; the pinned code must give a different result for exactly those"""
    from . import check_km as km

    rng = np.random.default_rng(0)
    agree = disagree = fm = fc = 0
    for cfgname in ("MC_KMTypes_footprint_pinned", "MC_KMTypes_z0_pinned"):
        r = run_tlc("KMTypes", cfgname, timeout=1200)
        em = sorted(r.emitted, key=lambda e: json.dumps(e, sort_keys=True))
        for i, e in enumerate(em):
            chk = Check("C19")
            chk._known = []
            km.replay_kinds(chk, em, [i], rng)
            code_ok = not chk.violations
            model_ok = e["lossy"] == 0
            fm += not model_ok
            fc += not code_ok
            if code_ok == model_ok and not any("helper result kinds" in d for d in chk.drift):
                agree += 1
            else:
                disagree += 1
                if disagree <= 10:
                    print("DISAGREE KMTypes", e["prog"], e["kinds"], e["stab"], "model lossy", e["lossy"], "code_ok", code_ok, chk.drift[:1])
    print("FAITHFUL family=KMTypes configs=%d agree=%d disagree=%d fails_in_model=%d fails_in_code=%d" % (agree + disagree, agree, disagree, fm, fc))
    return disagree


def main(families):
    from . import realsolver as rs
    from . import check_solver as cs

    bad = 0
    import os

    os.environ["VERIF_NOMINAL"] = "1"  # nominal geometry only: the pinned-switch model does not speak about inexact lengths
    for fam in families:
        if fam == "KMTypes":
            bad += km_types()
            continue
        cfgname = "MC_%s_pinned" % fam
        r = run_tlc("MCSolver", cfgname, timeout=3000, env={"JAVA_TOOL_OPTIONS": "-XX:+UseParallelGC -Xmx12g"})
        props = [p for p, f in cs.FAMILY.items() if f == fam]
        if props:
            prop, replay = props[0], cs.REPLAYS[props[0]]
        else:  # an extra family of a property (e.g. Mirror under C07)
            prop = [p for p, fl in cs.EXTRA_FAMILIES.items() if any(f == fam for f, _ in fl)][0]
            replay = cs.REPLAYS_BY_FAMILY[fam]
        agree = disagree = 0
        fails_model = fails_code = 0
        for c in r.emitted:
            c["lv"] = list(c["lv"])
            model_ok = all(c["verdicts"].values())
            chk = Check(prop)
            chk._known = []
            # in the pinned model the prediction (err/shape) is the pinned code's behaviour; it must match exactly
            ok, _ = cs.check_prediction(chk, prop, rs, c)
            pred_ok = ok
            if ok and c["err"] == "none" and list(c["shape"][1:]) == [c["ny"], c["nx"]]:
                try:
                    replay(chk, rs, c, cs.VARIANTS_QUICK)
                except Exception as e:
                    chk.violations.append({"what": "exception %r" % e})
            elif ok and c["err"] == "none":
                # wrong output shape: the identity cannot be evaluated; the model says ShapeOrError fails
                chk.violations.append({"what": "shape"})
            code_ok = not chk.violations
            fails_model += not model_ok
            fails_code += not code_ok
            if pred_ok and model_ok == code_ok:
                agree += 1
            else:
                disagree += 1
                if disagree <= 10:
                    print("DISAGREE", fam, cs._cfg_key(c), "model", c["verdicts"], "err", c["err"], c["shape"], "code_ok", code_ok, "pred_ok", pred_ok,
                          [v["what"] for v in chk.violations][:2])
        print("FAITHFUL family=%s configs=%d agree=%d disagree=%d fails_in_model=%d fails_in_code=%d" % (fam, len(r.emitted), agree, disagree, fails_model, fails_code))
        bad += disagree
    return 1 if bad else 0


if __name__ == "__main__":
    sys.exit(main(sys.argv[1:]))
