"""C05 (claimed core): the layer update expands the exact propagator exp(dz A) to third order.

TLC evaluates the cubic Taylor polynomial of the propagator by exact rational matrix arithmetic at 144
dyadic probe points (spec/StepAlgebra.tla) and checks that the code's formulas, as modelled, equal it.
The real ivp_solver is then called for one layer from (1, 0) and (0, 1) at the same probe points; each of
its four coefficients must lie within the rational remainder bound R4 (+ a few ulp) of the specification's.
A higher-order scheme passes (its distance to the cubic polynomial is below R4); a sign or coefficient slip
in any term up to dz^3 does not.
"""

import json
from fractions import Fraction

import numpy as np

from . import common
from .common import Check, MachineryError, run_tlc, seed, tier


def fr(q):
    return Fraction(q[0], q[1])


def cplx(c):
    return complex(float(fr(c[0])), float(fr(c[1])))


def real_step(kinv, dz, T):
    """one layer of the real ivp_solver: returns the 2x2 matrix [[a, b], [c, d]] it applies"""
    import bldfm.solver as S

    K = 1.0 / float(kinv)
    Tc = complex(float(T[0]), float(T[1]))
    z = np.array([0.0, float(dz)])
    # Ti = -(Kx Lx^2 + Ky Ly^2) - i (u Lx + v Ly); with Lx = 1, Ly = 0:  Ti = -Kx - i u
    Kx = np.array([-Tc.real, -Tc.real])
    u = np.array([-Tc.imag, -Tc.imag])
    zeros = np.zeros(2)
    Kz = np.array([K, K])
    prof = (u, zeros, Kx, zeros + 1.0, Kz)
    Lx = np.array([1.0])
    Ly = np.array([0.0])
    one = np.array([1.0 + 0j])
    zero = np.array([0.0 + 0j])
    levels = np.array([1])
    p1, q1, _, _ = S.ivp_solver((one, zero), prof, z, levels, Lx, Ly)
    p2, q2, _, _ = S.ivp_solver((zero, one), prof, z, levels, Lx, Ly)
    return [[complex(p1[0]), complex(p2[0])], [complex(q1[0]), complex(q2[0])]]


def main():
    # the plumbing of the analytic branch (per-axis quantities, padding, truncation, shift, crop, linear mean profile)
    # is checked on the Solver model with analytic = TRUE and replayed on the real analytic mode
    from . import check_solver as cs

    chk = cs.main("C05", families=[("AnalyticSym", "AnalyticSym"), ("AnalyticCons", "AnalyticCons")])
    t = tier()
    r = run_tlc("StepAlgebra", "MC_Step")
    chk.add_tlc("MC_Step", r)
    if not r.ok:
        raise MachineryError("MC_Step: %s violated: the modelled step is not the cubic Taylor polynomial of the propagator" % r.violated)
    rn = run_tlc("StepAlgebra", "MC_Step_neg_sign")
    chk.add_tlc("MC_Step_neg_sign", rn, expect_violation=True)
    if rn.ok:
        raise MachineryError("negative control MC_Step_neg_sign not violated")
    try:
        import bldfm.solver as S

        S.ivp_solver
    except Exception as ex:
        raise MachineryError("bldfm.solver.ivp_solver is not available: %r" % ex)
    names = [["a", "b"], ["c", "d"]]
    sharp = 0
    for e in sorted(r.emitted, key=lambda x: json.dumps(x)):
        kinv, dz = fr(e["kinv"]), fr(e["dz"])
        T = (fr(e["T"][0]), fr(e["T"][1]))
        m = fr(e["m"])
        r4 = 5 * m**4 / (24 * (5 - m))
        got = real_step(kinv, dz, T)
        chk.case((str(kinv), str(dz), str(T)))
        sc = {"kind": "probe", "Kinv": str(kinv), "dz": str(dz), "T": [str(T[0]), str(T[1])]}
        for i in range(2):
            for j in range(2):
                ref = cplx(e["ref"][i][j])
                tol = float(r4) + 8 * np.finfo(float).eps * max(1.0, abs(ref))
                # the distance a wrong cubic term would cause, to report how sharp the probe is
                if abs(got[i][j] - ref) > tol:
                    cubic = abs(float(dz) ** 3)
                    chk.violation("coefficient %s of the layer step is %r, the cubic Taylor polynomial of exp(dz A) gives %r; difference %.3e exceeds the remainder bound %.3e (Kinv=%s, dz=%s, T=%s)"
                                  % (names[i][j], got[i][j], ref, abs(got[i][j] - ref), tol, kinv, dz, T), dict(sc, coefficient=names[i][j]), klass={"check": "coefficient", "coefficient": names[i][j]})
        # sharpness: a sign error in the cubic term of b changes b by 2*|Kinv^2 T dz^3 / 6|
        slip = 2 * abs(float(kinv) ** 2 * complex(float(T[0]), float(T[1])) * float(dz) ** 3 / 6)
        if slip > 10 * float(r4):
            sharp += 1
    # numerical and analytic mode must be the same quantity slot by slot: for uniform profiles the numerical field of a
    # slot is closer to the closed form of the SAME slot than to that of any other requested level, whatever the order
    # of the levels (a tolerance-free conformance check of the slot bookkeeping of the two branches - not an accuracy claim)
    from . import realsolver as rs

    rng = np.random.default_rng(seed() + 3)
    nslot = 0
    for fp in (False, True):
        for lv in ([9, 3, 12], [15, 1], [4, 8, 2, 13], [6]):
            c = {"nx": 12, "ny": 10, "ax": 2, "ay": 3, "halo": 6, "mx": 12, "my": 10, "xm": 8 if fp else 0, "ym": 9 if fp else 0, "fp": fp, "an": False, "nz": 16, "lv": lv}
            kw = rs.solver_args(c, "const_aniso", "double")
            q = rs.source(c, "smooth", rng)
            _, pn, fn = rs.solve3(q, kw, srf_bg_conc=0.4)
            _, pa, fa = rs.solve3(q, kw, srf_bg_conc=0.4, analytic=True)
            for k in range(len(lv)):
                nslot += 1
                if len(lv) < 2:
                    continue
                for name, num, ana in (("flux", fn, fa), ("conc", pn, pa)):
                    dist = [float(np.max(np.abs(num[k] - ana[j]))) for j in range(len(lv))]
                    j = int(np.argmin(dist))
                    if j != k:
                        chk.violation("uniform profiles, levels=%s: the numerical %s in slot %d (node %d) is closest to the closed form of slot %d (node %d), not of its own slot"
                                      % (lv, name, k, lv[k], j, lv[j]), {"kind": "numeric_vs_analytic_slot", "config": c, "slot": k}, klass={"check": "numeric_vs_analytic_slot"})
                        break
    # the mean component: for height-independent profiles the trapezoidal rule is exact, so the horizontal mean of the
    # numerical concentration at every requested level (including the roughness node and the top node, in any order)
    # equals the closed form's linear mean profile to rounding - no accuracy claim involved
    for fp in (False, True):
        for lv in ([0, 5, 15], [15, 0], [3, 0, 9], [0], [7, 15, 1, 0]):
            c = {"nx": 12, "ny": 10, "ax": 2, "ay": 3, "halo": 0, "mx": 12, "my": 10, "xm": 8 if fp else 0, "ym": 9 if fp else 0, "fp": fp, "an": False, "nz": 16, "lv": lv}
            kw = rs.solver_args(c, "const_aniso", "double")
            q = rs.source(c, "smooth", rng)
            _, pn, fn = rs.solve3(q, kw, srf_bg_conc=0.4)
            _, pa, fa = rs.solve3(q, kw, srf_bg_conc=0.4, analytic=True)
            pn, pa = np.asarray(pn).reshape(len(lv), -1), np.asarray(pa).reshape(len(lv), -1)
            for k in range(len(lv)):
                nslot += 1
                mn, ma = float(pn[k].mean()), float(pa[k].mean())
                if abs(mn - ma) > 1e-10 * max(abs(ma), 1e-3):
                    chk.violation("uniform profiles, levels=%s: the mean concentration of the numerical mode at node %d is %.12g, the closed form's linear mean profile gives %.12g"
                                  % (lv, lv[k], mn, ma), {"kind": "numeric_vs_analytic_mean", "config": c, "slot": k}, klass={"check": "numeric_vs_analytic_mean", "node0": lv[k] == 0})
                    break
    # the closed form level by level: with several requested levels (equidistant in index or not, ascending or not) on a
    # STRETCHED vertical grid, every slot of the analytic mode equals the analytic solve for that level alone
    for fp in (False, True):
        for lv in ([1, 4, 7, 10], [11, 7, 3], [0, 5, 10, 15], [2, 3, 4, 5, 6], [14, 2, 9]):
            c = {"nx": 12, "ny": 10, "ax": 2, "ay": 3, "halo": 6, "mx": 8, "my": 6, "xm": 8 if fp else 0, "ym": 9 if fp else 0, "fp": fp, "an": True, "nz": 16, "lv": lv}
            for kind in ("const", "const_aniso"):
                kw = rs.solver_args(c, kind, "double")
                if kind == "const_aniso":
                    kw["z"] = 0.3 * 1.35 ** np.arange(16)            # a stretched grid for the hand-built constants as well
                q = rs.source(c, "smooth", rng)
                _, pa, fa = rs.solve3(q, kw, srf_bg_conc=0.4)
                for k in range(len(lv)):
                    nslot += 1
                    _, p1, f1 = rs.solve3(q, kw, srf_bg_conc=0.4, levels=[lv[k]])
                    sc_ = max(float(np.max(np.abs(f1))), float(np.max(np.abs(p1))), 1e-300)
                    if float(np.max(np.abs(fa[k] - f1[0]))) > 1e-12 * sc_ or float(np.max(np.abs(pa[k] - p1[0]))) > 1e-12 * sc_:
                        chk.violation("analytic mode, levels=%s on a stretched grid: slot %d (node %d) differs from the closed form for that level alone by %.3e relative"
                                      % (lv, k, lv[k], max(float(np.max(np.abs(fa[k] - f1[0]))), float(np.max(np.abs(pa[k] - p1[0])))) / sc_),
                                      {"kind": "analytic_levels", "config": c, "slot": k, "profiles": kind}, klass={"check": "analytic_levels"})
                        break
    # call history between the two branches: the analytic solve, then the numerical solve of the very same arguments, then
    # the analytic solve again (and the other way round) - each branch returns its own result, bit for bit
    for fp in (True, False):
        c = {"nx": 12, "ny": 10, "ax": 2, "ay": 3, "halo": 6, "mx": 8, "my": 6, "xm": 8 if fp else 0, "ym": 9 if fp else 0, "fp": fp, "an": False, "nz": 16, "lv": [3, 9]}
        kw = rs.solver_args(c, "const", "double")
        q = rs.source(c, "smooth", rng)
        c_other = dict(c, nx=10, ny=8, mx=6, my=4, xm=4 if fp else 0, ym=3 if fp else 0)
        kw_other = rs.solver_args(c_other, "const", "double")
        q_other = rs.source(c_other, "smooth", rng)

        def unrelated():            # a solve on another grid in between: whatever single slot an implementation keeps is replaced
            rs.solve3(q_other, kw_other, srf_bg_conc=0.1)

        unrelated()
        _, pa1, fa1 = rs.solve3(q, kw, srf_bg_conc=0.4, analytic=True)        # analytic, nothing related before it
        unrelated()
        _, pn1, fn1 = rs.solve3(q, kw, srf_bg_conc=0.4)                       # numerical, nothing related before it
        _, pa2, fa2 = rs.solve3(q, kw, srf_bg_conc=0.4, analytic=True)        # analytic right after the numerical solve
        _, pn2, fn2 = rs.solve3(q, kw, srf_bg_conc=0.4)                       # numerical right after the analytic solve
        nslot += 4
        if not (np.array_equal(pa1, pa2) and np.array_equal(fa1, fa2) and np.array_equal(pn1, pn2) and np.array_equal(fn1, fn2)):
            chk.violation("uniform profiles (%s mode): the analytic and the numerical solve of the same arguments, run alternately, do not each reproduce their own first result (analytic %.3e, numerical %.3e)"
                          % ("footprint" if fp else "dispersion", float(np.max(np.abs(fa1 - fa2))), float(np.max(np.abs(fn1 - fn2)))),
                          {"kind": "analytic_numeric_history", "config": c}, klass={"check": "analytic_numeric_history"})
    # uniform profiles whose values are whole numbers, handed over as INTEGER arrays (np.full(n, 2)): the same fields as with
    # the float arrays, in both modes
    for fp in (False, True):
        c = {"nx": 12, "ny": 10, "ax": 2, "ay": 3, "halo": 6, "mx": 8, "my": 6, "xm": 8 if fp else 0, "ym": 9 if fp else 0, "fp": fp, "an": False, "nz": 16, "lv": [3, 9]}
        kw = rs.solver_args(c, "const", "double")
        q = rs.source(c, "smooth", rng)
        nn = len(kw["z"])
        for vals in ((3, 1, 2, 2, 2), (2, -1, 1, 3, 4)):
            prof_i = tuple(np.full(nn, v_, dtype=np.int64) for v_ in vals)
            prof_f = tuple(np.full(nn, float(v_)) for v_ in vals)
            for an in (False, True):
                nslot += 1
                try:
                    _, p_i, f_i = rs.solve3(q, dict(kw, profiles=prof_i), srf_bg_conc=0.4, analytic=an)
                    _, p_f, f_f = rs.solve3(q, dict(kw, profiles=prof_f), srf_bg_conc=0.4, analytic=an)
                except Exception as ex:  # noqa: BLE001
                    chk.violation("uniform profiles as integer arrays (%s mode, analytic=%s) raised %r" % ("footprint" if fp else "dispersion", an, ex), {"kind": "integer_profiles", "values": vals}, klass={"check": "integer_profiles"})
                    continue
                sc_ = max(float(np.max(np.abs(f_f))), float(np.max(np.abs(p_f))), 1e-300)
                d_ = max(float(np.max(np.abs(np.asarray(f_i) - f_f))), float(np.max(np.abs(np.asarray(p_i) - p_f)))) / sc_
                if not (d_ <= 1e-10):
                    chk.violation("uniform profiles (u, v, Kx, Ky, Kz) = %s given as integer arrays (%s mode, analytic=%s) differ from the same values as float arrays by %.3e relative"
                                  % (vals, "footprint" if fp else "dispersion", an, d_), {"kind": "integer_profiles", "values": vals, "analytic": an}, klass={"check": "integer_profiles", "analytic": an})
    # the closed form itself, component by component, written out by the harness with numpy's transforms (dispersion mode, no
    # halo, every mode of the grid retained - even and odd grids, so that the unpaired edge row / column of an even mode count is
    # among the components): q(h) = q0 exp(-beta h), p(h) = q(h) / (Kz beta), beta^2 = (Kx k^2 + Ky l^2 + i (u k + v l)) / Kz, the
    # mean flux constant and the mean concentration linear in h.  At the roughness node the flux IS the source.
    from bldfm.solver import steady_state_transport_solver as _steady

    ncf = 0
    for (nx_, ny_) in ((8, 6), (9, 7), (6, 9)):
        for vals in ((3.0, 1.0, 2.0, 2.0, 2.0), (2.0, -1.5, 1.0, 3.0, 0.8)):
            zc = 0.2 * 1.3 ** np.arange(13)
            profc = tuple(np.full(13, v_) for v_ in vals)
            domc = (16.0 * nx_, 12.0 * ny_)
            qc = rng.standard_normal((ny_, nx_)) + 0.3
            lv = [0, 4, 12, 7]
            bg = 0.4
            _, pc, fc = _steady(qc, zc, profc, domc, lv, modes=(64, 64), halo=0.0, analytic=True, precision="double", srf_bg_conc=bg)
            pc, fc = np.asarray(pc).reshape(len(lv), ny_, nx_), np.asarray(fc).reshape(len(lv), ny_, nx_)
            u_, v_, Kx_, Ky_, Kz_ = vals
            kk = 2 * np.pi * np.fft.fftfreq(nx_, d=domc[0] / nx_)[None, :]
            ll = 2 * np.pi * np.fft.fftfreq(ny_, d=domc[1] / ny_)[:, None]
            beta = np.sqrt((Kx_ * kk ** 2 + Ky_ * ll ** 2 + 1j * (u_ * kk + v_ * ll)) / Kz_ + 0j)
            qh = np.fft.fft2(qc)
            for k_, node in enumerate(lv):
                h_ = zc[node] - zc[0]
                G = np.exp(-beta * h_)
                with np.errstate(divide="ignore", invalid="ignore"):
                    P = G / (Kz_ * beta)
                P[0, 0] = 0.0
                want_f = np.fft.ifft2(qh * G).real
                want_p = np.fft.ifft2(qh * P).real + bg - qc.mean() * h_ / Kz_
                ncf += 1
                sc_ = max(float(np.max(np.abs(want_f))), float(np.max(np.abs(want_p))))
                d_ = max(float(np.max(np.abs(fc[k_] - want_f))), float(np.max(np.abs(pc[k_] - want_p)))) / sc_
                if not d_ <= 1e-9:
                    chk.violation("analytic mode on a %d x %d grid, all modes, (u, v, Kx, Ky, Kz) = %s: the fields at node %d differ from the closed form evaluated component by component by %.3e relative%s"
                                  % (nx_, ny_, vals, node, d_, " (at the roughness node the flux is the source itself)" if node == 0 else ""),
                                  {"kind": "closed_form", "grid": [nx_, ny_], "values": vals, "node": node}, klass={"check": "closed_form", "node0": node == 0})
                    break
    # the NUMERICAL mode at the roughness node (requested in any slot): the sweep starts from the surface condition, so the flux
    # there is the source itself, component by component - no discretisation error is involved
    for (nx_, ny_) in ((8, 6), (9, 7)):
        vals = (3.0, 1.0, 2.0, 2.0, 2.0)
        zc = 0.2 * 1.3 ** np.arange(13)
        profc = tuple(np.full(13, v_) for v_ in vals)
        qc = rng.standard_normal((ny_, nx_)) + 0.3
        for lv in ([5, 0], [0, 7, 12], 0):
            _, pn_, fn_ = _steady(qc, zc, profc, (16.0 * nx_, 12.0 * ny_), lv, modes=(64, 64), halo=0.0, precision="double")
            fn_ = np.asarray(fn_).reshape(-1, ny_, nx_)
            slot0 = list(np.atleast_1d(lv)).index(0)
            ncf += 1
            d_ = float(np.max(np.abs(fn_[slot0] - qc))) / float(np.max(np.abs(qc)))
            if not d_ <= 1e-9:
                chk.violation("numerical mode on a %d x %d grid, all modes, levels=%s: the flux at the roughness node (slot %d) differs from the source by %.3e relative" % (nx_, ny_, lv, slot0, d_),
                              {"kind": "numeric_surface_flux", "grid": [nx_, ny_], "levels": lv}, klass={"check": "closed_form", "node0": True})
                break
    chk.extra["closed_form_slices"] = ncf
    # the NUMERICAL mode against the same closed form on a column that is tall against the cell size (components decay by up to
    # exp(-50) over the column, by far less at a low node): near the surface every retained component still converges
    ntall = 0
    for vals, q_cells in (((3.0, 1.0, 2.0, 2.0, 1.0), ((3, 5, 1.0), (6, 20, -0.5))), ((-2.0, 2.5, 3.0, 1.5, 1.0), ((1, 30, 1.0),))):
        nx_, ny_, domc = 32, 8, (64.0, 16.0)
        qc = np.zeros((ny_, nx_))
        for j_, i_, a_ in q_cells:
            qc[j_, i_] = a_
        u_, v_, Kx_, Ky_, Kz_ = vals
        kk = 2 * np.pi * np.fft.fftfreq(nx_, d=domc[0] / nx_)[None, :]
        ll = 2 * np.pi * np.fft.fftfreq(ny_, d=domc[1] / ny_)[:, None]
        beta = np.sqrt((Kx_ * kk ** 2 + Ky_ * ll ** 2 + 1j * (u_ * kk + v_ * ll)) / Kz_ + 0j)
        errs = []
        for nn in (32, 64, 128):
            zc = np.linspace(0.1, 16.1, nn + 1)
            profc = tuple(np.full(nn + 1, v_) for v_ in vals)
            _, pc, fc = _steady(qc, zc, profc, domc, [nn // 8], modes=(nx_, ny_), halo=0.0, precision="double")
            want_f = np.fft.ifft2(np.fft.fft2(qc) * np.exp(-beta * (zc[nn // 8] - zc[0]))).real
            errs.append(float(np.max(np.abs(np.asarray(fc).reshape(ny_, nx_) - want_f))) / float(np.max(np.abs(want_f))))
            ntall += 1
        if errs[0] > 1e-7 and not (errs[1] < errs[0] / 3.0 and errs[2] < errs[1] / 3.0):
            chk.violation("numerical mode on a 16 m column over 2 m cells, uniform (u, v, Kx, Ky, Kz) = %s, flux 2 m above the surface: the error against the closed form is %.3e, %.3e, %.3e with 32, 64, 128 layers - it does not shrink with the layer thickness"
                          % (vals, errs[0], errs[1], errs[2]), {"kind": "numeric_vs_closed_form_tall_column", "values": vals, "errors": errs}, klass={"check": "numeric_closed_form_tall"})
    chk.extra["tall_column_solves"] = ntall
    chk.extra["numeric_vs_analytic_slots"] = nslot
    chk.traces += len(r.emitted)
    chk.extra["probe_points"] = len(r.emitted)
    chk.extra["probe_points_where_a_cubic_sign_slip_exceeds_10x_the_tolerance"] = sharp
    chk.extra["exhaustive"] = True
    chk.rule = chk.rule + " | 144 probe points (1/K in {1/2,1,2}) x (dz = 2^-1..2^-6) x 8 Gaussian-rational T; each is one case; every coefficient a, b, c, d of the real one-layer step is compared with the specification's rational value"
    for e in r.emitted[:2]:
        chk.sample(e)
    chk.assumptions += ["the local expansion order of the step is decided by TLC; the closed form of the analytic branch is compared with a harness-side transcription at 1e-9; the measured eightfold error reduction is not decided (DESIGN.md, C05)",
                        "ivp_solver is called directly (module-level function of bldfm.solver)"]
    return chk.finish()
