"""Checks for the solver-plumbing properties C02 C03 C04 C06 C07 C10 C11.

For each property:
  1. TLC checks the property's invariants on the exact model (spec/MCSolver.tla) for every
     configuration of the family in the tier's bounds and emits each final state
     (configuration + predicted error/shape/geometry).
  2. Every emitted configuration is replayed on the real solver: the predicted
     error/shape must be observed and the property's identity must hold in floating point.
  3. The hook events recorded during the replays are validated against the stage actions
     of the specification by TLC (spec/TraceSolver.tla).
"""

import json
import os
import sys
import time
import traceback

import numpy as np

from . import common
from .common import Check, MachineryError, run_tlc, scratch, tier, seed

FAMILY = {
    "C02": "Recip",
    "C03": "Conserve",
    "C04": "Linear",
    "C06": "Translate",
    "C07": "Symmetry",
    "C10": "Levels",
    "C11": "Shape",
}
# further model families checked under a property: (family, replay key)
EXTRA_FAMILIES = {"C07": [("Mirror", "Mirror")], "C03": [("Boundary", "Boundary")]}

NEGS = {"C06": ["MC_Translate_neg_halo"], "C07": ["MC_Mirror_neg_halo"], "C02": ["MC_Recip_neg_halo"], "C03": ["MC_Conserve_neg_halo"], "C10": ["MC_Levels_neg_cursor", "MC_Levels_neg_flat"], "C11": ["MC_Shape_neg_sym", "MC_Shape_neg_halo"]}

TOL = {"double": 1e-10, "single": 2e-4}


def _cfg_key(c):
    return json.dumps({k: c[k] for k in ("nx", "ny", "ax", "ay", "halo", "mx", "my", "xm", "ym", "fp", "an", "nz", "lv")}, sort_keys=True)


def close(a, b, prec, scale=None):
    a = np.asarray(a, dtype=float)
    b = np.asarray(b, dtype=float)
    if a.shape != b.shape:
        return False, float("inf")
    s = scale if scale is not None else max(np.max(np.abs(a)), np.max(np.abs(b)), 1e-300)
    d = float(np.max(np.abs(a - b))) / s if a.size else 0.0
    return d <= TOL[prec], d


# --------------------------------------------------------------------- predictions


def observed_outcome(rs, q, kw):
    """Run the real solver; return (err_kind, shape3, result-or-None)."""
    try:
        grid, conc, flx = rs.solve(q, kw)
    except ValueError as e:
        m = str(e)
        if "modes must consist of even" in m:
            return "odd_modes", None, None
        if "precision must be" in m:
            return "precision", None, None
        if "broadcast" in m:
            return "broadcast", None, None
        return "ValueError:" + m[:60], None, None
    except IndexError:
        return "index", None, None
    nl = len(kw["levels"])
    shp = tuple(flx.shape)
    if flx.ndim == 2:
        shp = (1,) + shp
    return "none", shp, (grid, conc, flx)


def check_prediction(chk, prop, rs, c, prof_kind="most_u"):
    """The model's predicted error / shape for configuration c must be what the code does."""
    kw = rs.solver_args(c, prof_kind)
    rng = np.random.default_rng(seed() + 17)
    q = rs.source(c, "dense", rng)
    err, shp, res = observed_outcome(rs, q, kw)
    pred_err = c["err"]
    ok = True
    if pred_err == "none":
        if err != "none":
            ok = False
            what = "model predicts a result of shape %s, the code raises %s" % (c["shape"], err)
        elif list(shp) != list(c["shape"]):
            ok = False
            what = "model predicts shape %s, the code returns %s" % (c["shape"], list(shp))
        elif res[1].shape != res[2].shape:
            ok = False
            what = "conc and flx shapes differ"
    else:
        if err == "none":
            ok = False
            what = "model predicts error %s, the code returns shape %s" % (pred_err, list(shp))
        elif err != pred_err:
            # a different exception is still "raises an error"; recorded as drift, not a violation
            chk.drift_note("config %s: model predicts error %s, code raises %s" % (_cfg_key(c), pred_err, err))
    if not ok:
        chk.violation(what, {"kind": "prediction", "config": c, "profile": prof_kind}, klass=dict(rs.classify(c), check="prediction"))
    return ok, res


# ------------------------------------------------------------------- C02 reciprocity


def replay_recip(chk, rs, c, variants):
    """sum(q * footprint) == forward field at the tower cell, for flux and concentration."""
    if c["err"] != "none" or not c["fp"]:
        return
    jm, im = c["ym"] // c["ay"], c["xm"] // c["ax"]
    rng = np.random.default_rng(seed() * 1000003 + hash(_cfg_key(c)) % 100000)
    for prof_kind, prec, src_kind in variants:
        if c["an"]:  # the analytic branch is meant for height-independent profiles: isotropic or anisotropic constants
            prof_kind = "const_aniso" if prof_kind in ("mostm", "aniso") else "const"
        kw = rs.solver_args(c, prof_kind, prec)
        q = rs.source(c, src_kind, rng, j=rng.integers(c["ny"]), i=rng.integers(c["nx"]))
        try:
            _, gconc, gflx = rs.solve3(np.zeros_like(q), kw)
            _, dconc, dflx = rs.solve3(q, kw, footprint=False, meas_pt=(0.0, 0.0))
        except Exception as e:  # the forward run may legitimately raise (then the identity is not applicable)
            chk.drift_note("recip: %s raised %r" % (_cfg_key(c), e))
            continue
        chk.case((_cfg_key(c), prof_kind, prec, src_kind))
        cases = [("", gconc, gflx, dconc, dflx)]
        # call history: the SAME footprint request with another halo right after it (nothing in between) - the identity
        # holds for each halo with its own forward run
        if kw["halo"] is not None:
            h2 = kw["halo"] + 2.0 * max(c["ax"], c["ay"]) * rs.U
            try:
                _, gc3, gf3 = rs.solve3(np.zeros_like(q), kw, halo=h2)
                _, dc3, df3 = rs.solve3(q, kw, footprint=False, meas_pt=(0.0, 0.0), halo=h2)
                cases.append((" [the same request with halo %g right after halo %g]" % (h2, kw["halo"]), gc3, gf3, dc3, df3))
            except Exception as e:
                chk.drift_note("recip (second halo): %s raised %r" % (_cfg_key(c), e))
        # the same identity for a source of very small magnitude (the forward run is linear: no absolute threshold may enter)
        if not os.environ.get("VERIF_NOMINAL"):
            try:
                _, dc4, df4 = rs.solve3(q * 1e-11, kw, footprint=False, meas_pt=(0.0, 0.0))
                cases.append((" [forward run of the source x 1e-11]", gconc, gflx, dc4 / 1e-11, df4 / 1e-11))
            except Exception as e:
                chk.drift_note("recip (small source): %s raised %r" % (_cfg_key(c), e))
        # SEVERAL levels in one footprint request against ONE forward run per height (a forward run with the same level list could
        # share a defect that couples the levels)
        if c["nz"] >= 3 and not os.environ.get("VERIF_NOMINAL") and (hash(_cfg_key(c)) + seed()) % 3 == 0:
            lv3 = sorted({0, 1, c["nz"] - 1} | {int(v_) for v_ in c["lv"]}, reverse=True)[:3]          # node indices 0 .. nz - 1
            try:
                _, gc_m, gf_m = rs.solve3(np.zeros_like(q), kw, levels=list(lv3))
                for k_, node_ in enumerate(lv3):
                    _, dc_1, df_1 = rs.solve3(q, kw, footprint=False, meas_pt=(0.0, 0.0), levels=[node_])
                    for name, G, D in (("flux", gf_m, df_1), ("conc", gc_m, dc_1)):
                        lhs_, rhs_ = float(np.sum(q * G[k_])), float(D[0][jm, im])
                        scale_ = max(float(np.sum(np.abs(q))) * float(np.max(np.abs(G[k_]))), abs(rhs_), 1e-300)      # rounding of either side scales with |q| x |G|
                        if abs(lhs_ - rhs_) > TOL[prec] * scale_:
                            _viol(chk, rs, c, "recip", "levels %s in one footprint request: sum(q*footprint) of slot %d (node %d) = %.12g but the forward %s of a run for that level alone at the tower = %.12g (rel %.2e)"
                                  % (lv3, k_, node_, lhs_, name, rhs_, abs(lhs_ - rhs_) / scale_), profile=prof_kind, precision=prec, source=src_kind, q=q.tolist())
                            return
            except Exception as e:
                chk.drift_note("recip (several levels): %s raised %r" % (_cfg_key(c), e))
        # the same identity on lengths that are not exactly representable: the tower still sits on node (jm, im), but
        # coordinate / cell size need not evaluate to the integer in floating point (0.3 / 0.1)
        # (not in the faithfulness test: the pinned-switch model speaks about the nominal geometry, and the pinned code's
        #  shift by `halo` differs from the padding as soon as int(halo / dx) rounds down)
        for sfac in () if os.environ.get("VERIF_NOMINAL") else (0.1 / 4.0, 100.0 / 36.0 / 4.0):
            kws = dict(kw, domain=(kw["domain"][0] * sfac, kw["domain"][1] * sfac), halo=None if kw["halo"] is None else kw["halo"] * sfac,
                       meas_pt=(im * (kw["domain"][0] * sfac / c["nx"]), jm * (kw["domain"][1] * sfac / c["ny"])))
            g_ = c.get("geom")
            if kws["halo"] is not None and g_ is not None and (int(kws["halo"] / (kws["domain"][0] / c["nx"])) != g_["px"] or int(kws["halo"] / (kws["domain"][1] / c["ny"])) != g_["py"]):
                continue
            try:
                _, gc2, gf2 = rs.solve3(np.zeros_like(q), kws)
                _, dc2, df2 = rs.solve3(q, kws, footprint=False, meas_pt=(0.0, 0.0))
            except Exception as e:
                chk.drift_note("recip (scaled lengths): %s raised %r" % (_cfg_key(c), e))
                continue
            cases.append((" [all lengths x %.17g]" % sfac, gc2, gf2, dc2, df2))
        for k in [kk for kk in range(len(c["lv"]))] * 1:
          for tag, gconc, gflx, dconc, dflx in cases:
            for name, G, D in (("flux", gflx, dflx), ("conc", gconc, dconc)):
                lhs = float(np.sum(q * G[k]))
                rhs = float(D[k][jm, im])
                scale = max(float(np.sum(np.abs(q * G[k]))), abs(rhs), 1e-300)
                if abs(lhs - rhs) > TOL[prec] * scale:
                    chk.violation(
                        "sum(q*footprint) = %.12g but forward %s at the tower = %.12g (rel %.2e), level slot %d%s"
                        % (lhs, name, rhs, abs(lhs - rhs) / scale, k, tag),
                        {"kind": "recip", "config": c, "profile": prof_kind, "precision": prec, "source": src_kind, "q": q.tolist()},
                        klass=dict(rs.classify(c), check="recip"),
                    )
                    return



def _rng(c, salt=0):
    import zlib

    return np.random.default_rng(seed() * 1000003 + zlib.crc32(_cfg_key(c).encode()) + salt)


def _viol(chk, rs, c, check, what, **extra):
    sc = {"kind": check, "config": c}
    sc.update(extra)
    return chk.violation(what, sc, klass=dict(rs.classify(c), check=check))


def _cmp(chk, rs, c, check, name, a, b, prec, what, exact=False, **extra):
    """compare two field stacks; returns True when they agree"""
    a = np.asarray(a)
    b = np.asarray(b)
    if a.shape != b.shape:
        _viol(chk, rs, c, check, "%s: shapes %s vs %s (%s)" % (name, a.shape, b.shape, what), **extra)
        return False
    if exact:
        if not np.array_equal(a, b):
            d = float(np.max(np.abs(a.astype(float) - b.astype(float))))
            _viol(chk, rs, c, check, "%s not bit-identical (max abs diff %.3e): %s" % (name, d, what), **extra)
            return False
        return True
    ok, d = close(a, b, prec)
    if not ok:
        _viol(chk, rs, c, check, "%s differs by %.3e relative: %s" % (name, d, what), **extra)
    return ok


# ------------------------------------------------------------------ C03 conservation


def resistance(z, Kz, node):
    dz = np.diff(z)
    return float(sum(dz[i] * (0.5 / Kz[i] + 0.5 / Kz[i + 1]) for i in range(node)))


def replay_conserve(chk, rs, c, variants):
    if c["err"] != "none":
        return
    rng = _rng(c)
    g = c["geom"]
    for prof_kind, prec, src_kind in variants:
        if c["an"]:  # the analytic branch is meant for height-independent profiles: isotropic or anisotropic constants
            prof_kind = "const_aniso" if prof_kind in ("mostm", "aniso") else "const"
        kw = rs.solver_args(c, prof_kind, prec)
        z, prof = kw["z"], kw["profiles"]
        q = rs.source(c, src_kind, rng, j=rng.integers(c["ny"]), i=rng.integers(c["nx"]))
        bg = 0.37
        extra = dict(profile=prof_kind, precision=prec, source=src_kind, q=q.tolist())
        chk.case((_cfg_key(c), prof_kind, prec, src_kind))
        _, conc, flx = rs.solve3(q, kw, srf_bg_conc=bg)
        if c["halo"] == 0:
            N = c["nx"] * c["ny"]
            for k, node in enumerate(c["lv"]):
                mflx = float(np.mean(flx[k]))
                want = 1.0 / N if c["fp"] else float(np.mean(q))
                scale = max(float(np.mean(np.abs(flx[k]))), abs(want), 1e-300)
                if abs(mflx - want) > TOL[prec] * scale:
                    _viol(chk, rs, c, "mean_flux", "mean flux %.12g at slot %d, expected %.12g (source mean / unit footprint sum)" % (mflx, k, want), **extra)
                    return
                R = (z[node] - z[0]) / prof[4][-1] if c["an"] else resistance(z, prof[4], node)
                wantc = bg - want * R
                mconc = float(np.mean(conc[k]))
                scale = max(float(np.mean(np.abs(conc[k]))), abs(wantc), abs(want * R), 1e-300)
                if abs(mconc - wantc) > TOL[prec] * scale:
                    _viol(chk, rs, c, "mean_conc", "mean concentration %.12g at slot %d (node %d), expected bg - meanflux*R = %.12g" % (mconc, k, node, wantc), **extra)
                    return
            # the same budget when a height is requested more than once in one call ([b, a, ..., b, a]): every returned slice is
            # an output height of the property (round 17: a node -> slot dictionary gave the mean mode to the last duplicate only)
            lvd = [c["lv"][-1]] + list(c["lv"]) + [c["lv"][0]]
            _, conc_d, flx_d = rs.solve3(q, kw, srf_bg_conc=bg, levels=lvd)
            for k, node in enumerate(lvd):
                want = 1.0 / N if c["fp"] else float(np.mean(q))
                R = (z[node] - z[0]) / prof[4][-1] if c["an"] else resistance(z, prof[4], node)
                mflx, mconc = float(np.mean(flx_d[k])), float(np.mean(conc_d[k]))
                if abs(mflx - want) > TOL[prec] * max(float(np.mean(np.abs(flx_d[k]))), abs(want), 1e-300) or abs(mconc - (bg - want * R)) > TOL[prec] * max(float(np.mean(np.abs(conc_d[k]))), abs(bg - want * R), abs(want * R), 1e-300):
                    _viol(chk, rs, c, "mean_conc", "levels %s (a height requested twice): mean flux %.12g / mean concentration %.12g at slot %d (node %d), expected %.12g / bg - meanflux*R = %.12g" % (lvd, mflx, mconc, k, node, want, bg - want * R), **extra)
                    return
            # the same budget for sources of very small magnitude (a trace-gas flux of 1e-9, 1e-13 in SI units): the identities
            # are homogeneous, no absolute threshold may enter
            if not c["fp"]:
                for mag in (1e-9, 1e-13):
                    _, conc_m, flx_m = rs.solve3(q * mag, kw, srf_bg_conc=0.0)
                    for k, node in enumerate(c["lv"]):
                        want = float(np.mean(q)) * mag
                        mflx = float(np.mean(flx_m[k]))
                        scale = max(float(np.mean(np.abs(flx_m[k]))), abs(want), 1e-300)
                        R = (z[node] - z[0]) / prof[4][-1] if c["an"] else resistance(z, prof[4], node)
                        mconc = float(np.mean(conc_m[k]))
                        scale_c = max(float(np.mean(np.abs(conc_m[k]))), abs(want * R), 1e-300)
                        if abs(mflx - want) > TOL[prec] * scale or abs(mconc + want * R) > TOL[prec] * scale_c:
                            _viol(chk, rs, c, "mean_flux", "source of magnitude %g: mean flux %.6g / mean concentration %.6g at slot %d, expected %.6g / %.6g" % (mag, mflx, mconc, k, want, -want * R), **extra)
                            return
            # ... and for very weak turbulence (winds and diffusivities times 1e-7: Kz of the order of 1e-8 m2/s, far below
            # any "physical" floor): the budget is the same statement with a larger resistance
            if not c["fp"] and not os.environ.get("VERIF_NOMINAL"):
                weak = tuple(np.asarray(a_, dtype=float) * 1e-7 for a_ in prof)
                _, conc_w, flx_w = rs.solve3(q, kw, srf_bg_conc=bg, profiles=weak)
                for k, node in enumerate(c["lv"]):
                    want = float(np.mean(q))
                    Rw = (z[node] - z[0]) / weak[4][-1] if c["an"] else resistance(z, weak[4], node)
                    mflx, mconc = float(np.mean(flx_w[k])), float(np.mean(conc_w[k]))
                    if abs(mflx - want) > TOL[prec] * max(float(np.mean(np.abs(flx_w[k]))), abs(want), 1e-300) or abs(mconc - (bg - want * Rw)) > TOL[prec] * max(float(np.mean(np.abs(conc_w[k]))), abs(want * Rw), 1e-300):
                        _viol(chk, rs, c, "mean_conc", "winds and diffusivities times 1e-7: mean flux %.12g / mean concentration %.12g at slot %d (node %d), expected %.12g / bg - meanflux*R = %.12g" % (mflx, mconc, k, node, want, bg - want * Rw), **extra)
                        return
        elif c["fp"] or (c["xm"] == 0 and c["ym"] == 0):
            px, py = g["px"], g["py"]
            qe = np.pad(q, ((py, py), (px, px)))
            kwe = dict(kw)
            kwe["domain"] = (g["nxe"] * c["ax"] * rs.U, g["nye"] * c["ay"] * rs.U)
            kwe["halo"] = 0.0
            if c["fp"]:
                kwe["meas_pt"] = ((c["xm"] + px * c["ax"]) * rs.U, (c["ym"] + py * c["ay"]) * rs.U)
            _, conce, flxe = rs.solve3(qe, kwe, srf_bg_conc=bg)
            sl = (slice(None), slice(py, py + c["ny"]), slice(px, px + c["nx"]))
            if not _cmp(chk, rs, c, "halo_is_padding", "flux", flx, flxe[sl], prec, "halo=%s vs explicit zero padding by (%d,%d) cells" % (kw["halo"], py, px), **extra):
                return
            if not _cmp(chk, rs, c, "halo_is_padding", "conc", conc, conce[sl], prec, "halo=%s vs explicit zero padding by (%d,%d) cells" % (kw["halo"], py, px), **extra):
                return
            # the same with cell sizes that are NOT exactly representable (all horizontal lengths times 5/3, 7/3): the pad
            # width is still the integer part of halo / cell size.  Used only where that quotient, evaluated in floating
            # point as the property states it, is the model's integer (halo = k * dx may round to k - 1e-16 on some grids).
            if kw["halo"] is not None:
                for sfac in (5.0 / 3.0, 7.0 / 3.0):
                    dom_s = (kw["domain"][0] * sfac, kw["domain"][1] * sfac)
                    halo_s = kw["halo"] * sfac
                    if int(halo_s / (dom_s[0] / c["nx"])) != px or int(halo_s / (dom_s[1] / c["ny"])) != py:
                        continue
                    kws = dict(kw, domain=dom_s, halo=halo_s, meas_pt=(kw["meas_pt"][0] * sfac, kw["meas_pt"][1] * sfac))
                    kwes = dict(kwe, domain=(kwe["domain"][0] * sfac, kwe["domain"][1] * sfac), meas_pt=(kwe["meas_pt"][0] * sfac, kwe["meas_pt"][1] * sfac))
                    _, conc_s, flx_s = rs.solve3(q, kws, srf_bg_conc=bg)
                    _, conce_s, flxe_s = rs.solve3(qe, kwes, srf_bg_conc=bg)
                    what = "cell size %.17g x %.17g (not exactly representable), halo=%.17g vs explicit zero padding by (%d,%d) cells" % (dom_s[0] / c["nx"], dom_s[1] / c["ny"], halo_s, py, px)
                    if np.shape(flx_s) != np.shape(flxe_s[sl]):
                        _viol(chk, rs, c, "halo_is_padding", what + ": shapes %s vs %s" % (np.shape(flx_s), np.shape(flxe_s[sl])), **extra)
                        return
                    if not (_cmp(chk, rs, c, "halo_is_padding", "flux", flx_s, flxe_s[sl], prec, what, **extra)
                            and _cmp(chk, rs, c, "halo_is_padding", "conc", conc_s, conce_s[sl], prec, what, **extra)):
                        return


# -------------------------------------------------------------------- C04 linearity


def replay_linear(chk, rs, c, variants):
    if c["err"] != "none":
        return
    rng = _rng(c)
    for prof_kind, prec, src_kind in variants:
        if c["an"]:  # the analytic branch is meant for height-independent profiles: isotropic or anisotropic constants
            prof_kind = "const_aniso" if prof_kind in ("mostm", "aniso") else "const"
        kw = rs.solver_args(c, prof_kind, prec)
        q1 = rs.source(c, src_kind, rng, j=rng.integers(c["ny"]), i=rng.integers(c["nx"]))
        q2 = rs.source(c, "dense", rng)
        c1, c2 = 0.7, -1.9
        a, b = float(rng.uniform(-3, 3)), float(rng.uniform(-3, 3))
        extra = dict(profile=prof_kind, precision=prec, source=src_kind, q=q1.tolist())
        chk.case((_cfg_key(c), prof_kind, prec, src_kind))
        _, p1, f1 = rs.solve3(q1, kw, srf_bg_conc=c1)
        if c["fp"]:
            _, p2, f2 = rs.solve3(q2, kw, srf_bg_conc=c1)
            if not (_cmp(chk, rs, c, "footprint_ignores_values", "flux", f1, f2, prec, "two different source arrays of the same shape", exact=True, **extra)
                    and _cmp(chk, rs, c, "footprint_ignores_values", "conc", p1, p2, prec, "two different source arrays of the same shape", exact=True, **extra)):
                return
        else:
            _, p2, f2 = rs.solve3(q2, kw, srf_bg_conc=c2)
            _, p3, f3 = rs.solve3(a * q1 + b * q2, kw, srf_bg_conc=a * c1 + b * c2)
            sc_f = max(np.max(np.abs(a * f1)), np.max(np.abs(b * f2)), 1e-300)
            sc_p = max(np.max(np.abs(a * p1)), np.max(np.abs(b * p2)), 1e-300)
            if np.max(np.abs(f3 - (a * f1 + b * f2))) > TOL[prec] * sc_f:
                _viol(chk, rs, c, "superposition", "flux of a*q1+b*q2 differs from a*flux(q1)+b*flux(q2) by %.3e relative" % (np.max(np.abs(f3 - (a * f1 + b * f2))) / sc_f), a=a, b=b, **extra)
                return
            if np.max(np.abs(p3 - (a * p1 + b * p2))) > TOL[prec] * sc_p:
                _viol(chk, rs, c, "superposition", "conc of (a*q1+b*q2, a*c1+b*c2) differs from the combination by %.3e relative" % (np.max(np.abs(p3 - (a * p1 + b * p2))) / sc_p), a=a, b=b, **extra)
                return
        # a source whose net emission cancels to rounding (the map minus its displaced copy): the fields are the difference of the
        # fields of the two maps - nothing may be normalised by the net source
        if not c["fp"]:
            qr = np.roll(q1, 1, axis=1)
            _, pr_, fr_ = rs.solve3(qr, kw, srf_bg_conc=0.0)
            _, pd_, fd_ = rs.solve3(q1 - qr, kw, srf_bg_conc=c1)
            sc_f = max(float(np.max(np.abs(f1))), float(np.max(np.abs(fr_))), 1e-300)
            sc_p = max(float(np.max(np.abs(p1))), float(np.max(np.abs(pr_))), 1e-300)
            dfz = float(np.max(np.abs(fd_ - (f1 - fr_)))) / sc_f
            dpz = float(np.max(np.abs(pd_ - (p1 - pr_)))) / sc_p
            if dfz > TOL[prec] or dpz > TOL[prec]:
                _viol(chk, rs, c, "superposition", "a map minus its displaced copy (net emission %.3g): the fields differ from the difference of the two maps' fields by %.3e (flux) / %.3e (conc) relative" % (float(np.sum(q1 - qr)), dfz, dpz), **extra)
                return
        # homogeneity over many decades (the same emission map in other units): out(s*q, s*c) = s*out(q, c)
        if not c["fp"]:
            for sfac in (1e-7, 3e5):
                _, ph, fh = rs.solve3(sfac * q1, kw, srf_bg_conc=sfac * c1)
                sc_f = max(float(np.max(np.abs(f1))), 1e-300)
                sc_p = max(float(np.max(np.abs(p1))), 1e-300)
                dfh = float(np.max(np.abs(fh / sfac - f1))) / sc_f
                dph = float(np.max(np.abs(ph / sfac - p1))) / sc_p
                if dfh > TOL[prec] or dph > TOL[prec]:
                    _viol(chk, rs, c, "homogeneity", "scaling source and background by %g does not scale the fields by the same factor (flux %.3e, conc %.3e relative)" % (sfac, dfh, dph), **extra)
                    return
        # sources without net flux (a dipole, the zero field): the background must still reach every level
        if not c["fp"] and c.get("geom") and (c["geom"]["px"] or c["geom"]["py"]):
            # call history: a dense source on a grid of the PADDED size with halo 0, right before the zero-field solves
            g_ = c["geom"]
            kwb = dict(kw, domain=(g_["nxe"] * c["ax"] * rs.U, g_["nye"] * c["ay"] * rs.U), halo=0.0, meas_pt=(0.0, 0.0))
            try:
                rs.solve3(rng.uniform(1.0, 2.0, size=(g_["nye"], g_["nxe"])), kwb, srf_bg_conc=0.0)
            except Exception:
                pass
        if not c["fp"]:
            qd = np.zeros_like(q1)
            qd.flat[0], qd.flat[-1] = 1.5, -1.5
            for qz, nm in ((qd, "a dipole with zero net flux"), (np.zeros_like(q1), "the zero field")):
                _, pz, fz = rs.solve3(qz, kw, srf_bg_conc=c1)
                _, pz0, fz0 = rs.solve3(qz, kw, srf_bg_conc=0.0)
                scz = max(float(np.max(np.abs(pz))), float(np.max(np.abs(pz0))), abs(c1))
                if np.max(np.abs((pz - pz0) - c1)) > TOL[prec] * scz or not np.array_equal(fz, fz0):
                    lev = [float(np.max(np.abs((pz[k] - pz0[k]) - c1))) for k in range(pz.shape[0])]
                    _viol(chk, rs, c, "background", "with %s the background %s does not shift the concentration uniformly at every level (per-level deviation %s)" % (nm, c1, lev), **extra)
                    return
        # background only offsets the concentration, never the flux
        _, p0, f0 = rs.solve3(q1, kw, srf_bg_conc=0.0)
        if not _cmp(chk, rs, c, "background", "flux", f1, f0, prec, "flux with background %s vs background 0" % c1, exact=True, **extra):
            return
        sc = max(np.max(np.abs(p1)), np.max(np.abs(p0)), abs(c1))
        if np.max(np.abs((p1 - p0) - c1)) > TOL[prec] * sc:
            _viol(chk, rs, c, "background", "background %s does not shift the concentration uniformly (max dev %.3e)" % (c1, np.max(np.abs((p1 - p0) - c1))), **extra)
            return
        # the background handed over as a 0-d NumPy array (a value read from a file) and used again for the next solve: the
        # solver leaves it alone, and both solves carry the same offset
        bg0 = np.array(c1)
        _, pa_, fa_ = rs.solve3(q1, kw, srf_bg_conc=bg0)
        kept = float(bg0)
        _, pb_, fb_ = rs.solve3(q1, kw, srf_bg_conc=bg0)
        if kept != c1 or float(bg0) != c1:
            _viol(chk, rs, c, "background", "the solver overwrites the background value it is given (a 0-d array of %s holds %s after the solve)" % (c1, kept), **extra)
            return
        scb = max(float(np.max(np.abs(p1))), abs(c1), 1e-300)
        if np.shape(pa_) != np.shape(p1) or float(np.max(np.abs(pa_ - p1))) > TOL[prec] * scb or float(np.max(np.abs(pb_ - p1))) > TOL[prec] * scb:
            _viol(chk, rs, c, "background", "the background %s given as a 0-d array (and used for two solves) does not give the fields of the same background given as a float" % c1, **extra)
            return
        # a whole-number background written as an INTEGER (srf_bg_conc=400): the same offset as 400.0, at every level
        for cint in (3, -2):
            _, pi_, fi_ = rs.solve3(q1, kw, srf_bg_conc=int(cint))
            sci = max(float(np.max(np.abs(pi_))), float(np.max(np.abs(p0))), abs(cint))
            if np.shape(pi_) != np.shape(p0) or float(np.max(np.abs((pi_ - p0) - cint))) > TOL[prec] * sci or not np.array_equal(fi_, f0):
                lev = [float(np.max(np.abs((pi_[k] - p0[k]) - cint))) for k in range(min(len(pi_), len(p0)))]
                _viol(chk, rs, c, "background", "the integer background %d does not shift the concentration by %d at every level (per-level deviation %s)" % (cint, cint, lev), **extra)
                return


# ------------------------------------------------------------------- C06 translation


def replay_translate_halo(chk, rs, c, variants):
    """with a halo the cropped output is a window of the padded domain: tower translation and point reflection hold
    between all pairs of cells that both lie inside the window"""
    if not c["fp"]:
        return
    rng = _rng(c)
    dj, di = c["ym"] // c["ay"], c["xm"] // c["ax"]
    ny, nx = c["ny"], c["nx"]
    for prof_kind, prec, src_kind in variants:
        if c["an"]:
            prof_kind = "const_aniso" if prof_kind in ("mostm", "aniso") else "const"
        kw = rs.solver_args(c, prof_kind, prec)
        q = np.zeros((ny, nx))
        extra = dict(profile=prof_kind, precision=prec, source="unit", q=q.tolist())
        chk.case((_cfg_key(c), prof_kind, prec, "halo"))
        _, pm, fm = rs.solve3(q, kw)
        _, p0, f0 = rs.solve3(q, kw, meas_pt=(0.0, 0.0))
        # tower moved by (dj, di) - also to a cell outside the source domain, inside the padded one:
        # fm[j, i] = f0[j - dj, i - di] where both are inside the window
        js = np.arange(max(0, dj), min(ny, ny + dj))
        is_ = np.arange(max(0, di), min(nx, nx + di))
        if len(js) == 0 or len(is_) == 0:
            continue                # the two windows share no cell
        a_f, b_f = fm[:, js][:, :, is_], f0[:, js - dj][:, :, is_ - di]
        a_p, b_p = pm[:, js][:, :, is_], p0[:, js - dj][:, :, is_ - di]
        if not (_cmp(chk, rs, c, "translate_tower_halo", "flux", a_f, b_f, prec, "tower moved by (%d,%d) cells with halo %s (cells inside the window)" % (dj, di, kw["halo"]), **extra)
                and _cmp(chk, rs, c, "translate_tower_halo", "conc", a_p, b_p, prec, "tower moved by (%d,%d) cells with halo %s" % (dj, di, kw["halo"]), **extra)):
            return
        if not (0 <= dj < ny and 0 <= di < nx):
            continue                # no source cell under a tower outside the domain
        unit = np.zeros((ny, nx))
        unit[dj, di] = 1.0
        try:
            _, pd, fd = rs.solve3(unit, kw, footprint=False, meas_pt=(0.0, 0.0))
        except Exception:
            continue
        jj = 2 * dj - np.arange(ny)
        ii = 2 * di - np.arange(nx)
        okj = (jj >= 0) & (jj < ny)
        oki = (ii >= 0) & (ii < nx)
        A_f = fm[:, okj][:, :, oki]
        B_f = fd[:, jj[okj]][:, :, ii[oki]]
        A_p = pm[:, okj][:, :, oki]
        B_p = pd[:, jj[okj]][:, :, ii[oki]]
        if not (_cmp(chk, rs, c, "point_reflect_halo", "flux", A_f, B_f, prec, "footprint vs point reflection of the unit-source response about the tower, halo %s" % kw["halo"], **extra)
                and _cmp(chk, rs, c, "point_reflect_halo", "conc", A_p, B_p, prec, "Green's function vs point reflection of the unit-source response about the tower, halo %s" % kw["halo"], **extra)):
            return


def replay_translate(chk, rs, c, variants):
    if c["err"] != "none":
        return
    if c["halo"] != 0:
        return replay_translate_halo(chk, rs, c, variants)
    rng = _rng(c)
    dj, di = c["ym"] // c["ay"], c["xm"] // c["ax"]
    ny, nx = c["ny"], c["nx"]
    for prof_kind, prec, src_kind in variants:
        if c["an"]:  # the analytic branch is meant for height-independent profiles: isotropic or anisotropic constants
            prof_kind = "const_aniso" if prof_kind in ("mostm", "aniso") else "const"
        kw = rs.solver_args(c, prof_kind, prec)
        q = rs.source(c, src_kind, rng, j=rng.integers(ny), i=rng.integers(nx))
        extra = dict(profile=prof_kind, precision=prec, source=src_kind, q=q.tolist())
        chk.case((_cfg_key(c), prof_kind, prec, src_kind))
        if not c["fp"]:
            _, p0, f0 = rs.solve3(q, kw, meas_pt=(0.0, 0.0))
            _, p1, f1 = rs.solve3(np.roll(q, (dj, di), axis=(0, 1)), kw, meas_pt=(0.0, 0.0))
            if not (_cmp(chk, rs, c, "translate_source", "flux", f1, np.roll(f0, (dj, di), axis=(1, 2)), prec, "source rolled by (%d,%d) cells" % (dj, di), **extra)
                    and _cmp(chk, rs, c, "translate_source", "conc", p1, np.roll(p0, (dj, di), axis=(1, 2)), prec, "source rolled by (%d,%d) cells" % (dj, di), **extra)):
                return
            if (dj or di) and nx % 2 == 0 and ny % 2 == 0:
                _, pr, fr = rs.solve3(q, kw)  # meas_pt = tower: re-centred output
                want_f = np.roll(f0, (ny // 2 - dj, nx // 2 - di), axis=(1, 2))
                want_p = np.roll(p0, (ny // 2 - dj, nx // 2 - di), axis=(1, 2))
                if not (_cmp(chk, rs, c, "recentre", "flux", fr, want_f, prec, "meas_pt at cell (%d,%d) must move that cell to the domain centre" % (dj, di), **extra)
                        and _cmp(chk, rs, c, "recentre", "conc", pr, want_p, prec, "meas_pt at cell (%d,%d) must move that cell to the domain centre" % (dj, di), **extra)):
                    return
                # the same point named by its negative periodic aliases (x - X, y) and (x - X, y - Y): on the periodic domain
                # (halo 0) they are the same cell, so the output must be re-centred on it all the same (round 17: a guard
                # `xm + ym > 0` skipped the re-centring for points whose coordinates sum to <= 0)
                X, Y = kw["domain"][0], kw["domain"][1]
                for mp in ((di * (X / nx) - X, dj * (Y / ny)), (di * (X / nx) - X, dj * (Y / ny) - Y), (di * (X / nx), dj * (Y / ny) - Y)):
                    _, pa, fa = rs.solve3(q, kw, meas_pt=mp)
                    what = "meas_pt (%.17g, %.17g), a periodic alias of cell (%d,%d), must move that cell to the domain centre" % (mp[0], mp[1], dj, di)
                    if not (_cmp(chk, rs, c, "recentre", "flux", fa, want_f, prec, what, **extra)
                            and _cmp(chk, rs, c, "recentre", "conc", pa, want_p, prec, what, **extra)):
                        return
                # the same on lengths that are not exactly representable (1200/36-like cell sizes): whole-cell shifts whose
                # quotient need not evaluate to the integer in floating point
                for sfac in (1200.0 / 36.0 / (c["ax"] * rs.U), 0.1 / (c["ax"] * rs.U)):
                    dom_s = (kw["domain"][0] * sfac, kw["domain"][1] * sfac)
                    kws = dict(kw, domain=dom_s, halo=None if kw["halo"] is None else kw["halo"] * sfac)
                    mp = (di * (dom_s[0] / nx), dj * (dom_s[1] / ny))
                    _, p0s, f0s = rs.solve3(q, kws, meas_pt=(0.0, 0.0))
                    _, prs, frs = rs.solve3(q, kws, meas_pt=mp)
                    what = "cell size %.17g: meas_pt at cell (%d,%d) must move that cell to the domain centre" % (dom_s[0] / nx, dj, di)
                    if not (_cmp(chk, rs, c, "recentre", "flux", frs, np.roll(f0s, (ny // 2 - dj, nx // 2 - di), axis=(1, 2)), prec, what, **extra)
                            and _cmp(chk, rs, c, "recentre", "conc", prs, np.roll(p0s, (ny // 2 - dj, nx // 2 - di), axis=(1, 2)), prec, what, **extra)):
                        return
        else:
            _, pm, fm = rs.solve3(q, kw)
            _, p0, f0 = rs.solve3(q, kw, meas_pt=(0.0, 0.0))
            if not (_cmp(chk, rs, c, "translate_tower", "flux", fm, np.roll(f0, (dj, di), axis=(1, 2)), prec, "tower moved by (%d,%d) cells" % (dj, di), **extra)
                    and _cmp(chk, rs, c, "translate_tower", "conc", pm, np.roll(p0, (dj, di), axis=(1, 2)), prec, "tower moved by (%d,%d) cells" % (dj, di), **extra)):
                return
            unit = np.zeros((ny, nx))
            unit[dj, di] = 1.0
            try:
                _, pd, fd = rs.solve3(unit, kw, footprint=False, meas_pt=(0.0, 0.0))
            except Exception:
                continue
            jj = (2 * dj - np.arange(ny)) % ny
            ii = (2 * di - np.arange(nx)) % nx
            if not (_cmp(chk, rs, c, "point_reflect", "flux", fm, fd[:, jj][:, :, ii], prec, "footprint vs point reflection of the unit-source response about the tower", **extra)
                    and _cmp(chk, rs, c, "point_reflect", "conc", pm, pd[:, jj][:, :, ii], prec, "Green's function vs point reflection of the unit-source response about the tower", **extra)):
                return


# ----------------------------------------------------------- C07 symmetries / similarity


def _filtered_diff(a, b, nyqx, nyqy):
    """max |a-b| after removing the exempt (Nyquist) wavenumber rows/columns of the difference"""
    d = np.fft.fft2(np.asarray(a, float) - np.asarray(b, float), axes=(-2, -1))
    for kx in nyqx:
        d[..., :, kx] = 0
    for ky in nyqy:
        d[..., ky, :] = 0
    return float(np.max(np.abs(np.fft.ifft2(d, axes=(-2, -1)))))


def replay_symmetry_recentred(chk, rs, c, variants):
    """dispersion mode with a measurement point (the output is re-centred on it), halo 0: mirroring the problem in x -
    source mirrored, u negated, measurement point mirrored about the domain (x -> xmax - x) - mirrors the returned fields"""
    rng = _rng(c, 7)
    ny, nx = c["ny"], c["nx"]
    prof_kind, prec, src_kind = variants[0]
    if c["an"]:
        prof_kind = "const_aniso" if prof_kind in ("mostm", "aniso") else "const"
    kw = rs.solver_args(c, prof_kind, prec)
    q = rs.source(c, src_kind, rng, j=rng.integers(ny), i=rng.integers(nx))
    extra = dict(profile=prof_kind, precision=prec, source=src_kind, q=q.tolist())
    ix = (-np.arange(nx)) % nx
    iy = (-np.arange(ny)) % ny
    for (di, dj) in ((1, 0), (0, 1), (nx - 1, 1)):
        mp = (di * kw["domain"][0] / nx, dj * kw["domain"][1] / ny)
        chk.case((_cfg_key(c), "recentred", di, dj))
        _, p0, f0 = rs.solve3(q, kw, meas_pt=mp)
        sc_f = max(float(np.max(np.abs(f0))), 1e-300)
        sc_p = max(float(np.max(np.abs(p0))), 1e-300)
        _, px_, fx_ = rs.solve3(q[:, ix], kw, profiles=rs.flip_profiles(kw["profiles"], su=-1.0), meas_pt=(kw["domain"][0] - mp[0], mp[1]))
        df = _filtered_diff(fx_, f0[:, :, ix], c["nyqx"], c["nyqy"])
        dp = _filtered_diff(px_, p0[:, :, ix], c["nyqx"], c["nyqy"])
        if df > TOL[prec] * sc_f or dp > TOL[prec] * sc_p:
            _viol(chk, rs, c, "mirror_x_recentred", "dispersion mode, measurement point at cell (%d,%d): the x-mirrored problem (point mirrored about the domain) is not the mirrored solution (flux %.3e, conc %.3e relative)"
                  % (dj, di, df / sc_f, dp / sc_p), **extra)
            return
        _, py_, fy_ = rs.solve3(q[iy, :], kw, profiles=rs.flip_profiles(kw["profiles"], sv=-1.0), meas_pt=(mp[0], kw["domain"][1] - mp[1]))
        df = _filtered_diff(fy_, f0[:, iy, :], c["nyqx"], c["nyqy"])
        dp = _filtered_diff(py_, p0[:, iy, :], c["nyqx"], c["nyqy"])
        if df > TOL[prec] * sc_f or dp > TOL[prec] * sc_p:
            _viol(chk, rs, c, "mirror_y_recentred", "dispersion mode, measurement point at cell (%d,%d): the y-mirrored problem is not the mirrored solution (flux %.3e, conc %.3e relative)"
                  % (dj, di, df / sc_f, dp / sc_p), **extra)
            return


def replay_symmetry(chk, rs, c, variants):
    if c["err"] != "none" or c["halo"] != 0 or c["xm"] or c["ym"]:
        return
    if not c["fp"]:
        replay_symmetry_recentred(chk, rs, c, variants)
    rng = _rng(c)
    ny, nx = c["ny"], c["nx"]
    for prof_kind, prec, src_kind in variants:
        if c["an"]:  # the analytic branch is meant for height-independent profiles: isotropic or anisotropic constants
            prof_kind = "const_aniso" if prof_kind in ("mostm", "aniso") else "const"
        kw = rs.solver_args(c, prof_kind, prec)
        q = rs.source(c, src_kind, rng, j=rng.integers(ny), i=rng.integers(nx))
        extra = dict(profile=prof_kind, precision=prec, source=src_kind, q=q.tolist())
        chk.case((_cfg_key(c), prof_kind, prec, src_kind))
        _, p0, f0 = rs.solve3(q, kw)
        sc_f = max(float(np.max(np.abs(f0))), 1e-300)
        sc_p = max(float(np.max(np.abs(p0))), 1e-300)
        # mirror in x: q'[j, i] = q[j, -i mod nx], u -> -u
        ix = (-np.arange(nx)) % nx
        iy = (-np.arange(ny)) % ny
        _, px_, fx_ = rs.solve3(q[:, ix], kw, profiles=rs.flip_profiles(kw["profiles"], su=-1.0))
        df = _filtered_diff(fx_, f0[:, :, ix], c["nyqx"], c["nyqy"])
        dp = _filtered_diff(px_, p0[:, :, ix], c["nyqx"], c["nyqy"])
        if df > TOL[prec] * sc_f or dp > TOL[prec] * sc_p:
            _viol(chk, rs, c, "mirror_x", "x-mirrored problem is not the mirrored solution (flux %.3e, conc %.3e relative, Nyquist components %s/%s removed)" % (df / sc_f, dp / sc_p, c["nyqx"], c["nyqy"]), **extra)
            return
        _, py_, fy_ = rs.solve3(q[iy, :], kw, profiles=rs.flip_profiles(kw["profiles"], sv=-1.0))
        df = _filtered_diff(fy_, f0[:, iy, :], c["nyqx"], c["nyqy"])
        dp = _filtered_diff(py_, p0[:, iy, :], c["nyqx"], c["nyqy"])
        if df > TOL[prec] * sc_f or dp > TOL[prec] * sc_p:
            _viol(chk, rs, c, "mirror_y", "y-mirrored problem is not the mirrored solution (flux %.3e, conc %.3e relative)" % (df / sc_f, dp / sc_p), **extra)
            return
        # axis swap
        kwt = dict(kw)
        kwt["profiles"] = rs.flip_profiles(kw["profiles"], swap=True)
        kwt["domain"] = (kw["domain"][1], kw["domain"][0])
        kwt["modes"] = (kw["modes"][1], kw["modes"][0])
        _, pt, ft = rs.solve3(q.T, kwt)            # the transposed VIEW of the same map (same memory, other strides), right after the solves of q
        if not (_cmp(chk, rs, c, "transpose", "flux", ft, np.transpose(f0, (0, 2, 1)), prec, "axes exchanged (source transposed, u<->v, Kx<->Ky, domain and modes swapped)", **extra)
                and _cmp(chk, rs, c, "transpose", "conc", pt, np.transpose(p0, (0, 2, 1)), prec, "axes exchanged", **extra)):
            return
        # similarity: lengths and diffusivities times 2^k (every floating-point operation scales exactly)
        for k in (int(rng.integers(-20, -1)), int(rng.integers(2, 21))):
            s = 2.0 ** k
            u, v, Kx, Ky, Kz = kw["profiles"]
            kws = dict(kw)
            kws["z"] = kw["z"] * s
            kws["profiles"] = (u, v, Kx * s, Ky * s, Kz * s)
            kws["domain"] = (kw["domain"][0] * s, kw["domain"][1] * s)
            kws["meas_pt"] = (kw["meas_pt"][0] * s, kw["meas_pt"][1] * s)
            if kw["halo"] is not None:
                kws["halo"] = kw["halo"] * s
            _, ps, fs = rs.solve3(q, kws)
            if not (_cmp(chk, rs, c, "scale_length", "flux", fs, f0, prec, "all lengths and diffusivities times 2^%d" % k, **extra)
                    and _cmp(chk, rs, c, "scale_length", "conc", ps, p0, prec, "all lengths and diffusivities times 2^%d" % k, **extra)):
                return
            kwr = dict(kw)
            kwr["profiles"] = (u * s, v * s, Kx * s, Ky * s, Kz * s)
            _, pr, fr = rs.solve3(q, kwr)
            if not (_cmp(chk, rs, c, "scale_rate", "flux", fr, f0, prec, "winds and diffusivities times 2^%d" % k, **extra)
                    and _cmp(chk, rs, c, "scale_rate", "conc", pr * s, p0, prec, "winds and diffusivities times 2^%d: concentration must be divided by it" % k, **extra)):
                return


def replay_mirror(chk, rs, c, variants):
    """reflection about the domain centre with any halo; exact when the retained spectrum of the axis has an odd count"""
    if c["err"] != "none":
        return
    g = c["geom"]
    rng = _rng(c)
    ny, nx = c["ny"], c["nx"]
    for prof_kind, prec, src_kind in variants:
        if c["an"]:  # the analytic branch is meant for height-independent profiles: isotropic or anisotropic constants
            prof_kind = "const_aniso" if prof_kind in ("mostm", "aniso") else "const"
        kw = rs.solver_args(c, prof_kind, prec)
        q = rs.source(c, src_kind, rng, j=rng.integers(ny), i=rng.integers(nx))
        extra = dict(profile=prof_kind, precision=prec, source=src_kind, q=q.tolist())
        chk.case((_cfg_key(c), prof_kind, prec, src_kind))
        _, p0, f0 = rs.solve3(q, kw)
        if g["nlx"] % 2 == 1:
            mp = (((nx - 1) * c["ax"] - c["xm"]) * rs.U, kw["meas_pt"][1]) if c["fp"] else (0.0, 0.0)
            _, pm, fm = rs.solve3(q[:, ::-1].copy(), kw, profiles=rs.flip_profiles(kw["profiles"], su=-1.0), meas_pt=mp)
            if not (_cmp(chk, rs, c, "mirror_centre_x", "flux", fm, f0[:, :, ::-1], prec, "problem reflected about the domain centre in x (halo %s)" % kw["halo"], **extra)
                    and _cmp(chk, rs, c, "mirror_centre_x", "conc", pm, p0[:, :, ::-1], prec, "problem reflected about the domain centre in x (halo %s)" % kw["halo"], **extra)):
                return
        if g["nly"] % 2 == 1:
            mp = (kw["meas_pt"][0], ((ny - 1) * c["ay"] - c["ym"]) * rs.U) if c["fp"] else (0.0, 0.0)
            _, pm, fm = rs.solve3(q[::-1, :].copy(), kw, profiles=rs.flip_profiles(kw["profiles"], sv=-1.0), meas_pt=mp)
            if not (_cmp(chk, rs, c, "mirror_centre_y", "flux", fm, f0[:, ::-1, :], prec, "problem reflected about the domain centre in y (halo %s)" % kw["halo"], **extra)
                    and _cmp(chk, rs, c, "mirror_centre_y", "conc", pm, p0[:, ::-1, :], prec, "problem reflected about the domain centre in y (halo %s)" % kw["halo"], **extra)):
                return
        # the axis swap with a halo (the pad width of each axis is counted in ITS cells): source transposed, u <-> v, Kx <-> Ky,
        # domain, modes and measurement point swapped - the fields are the transposes, whatever the halo
        if c["halo"] != 0 and not os.environ.get("VERIF_NOMINAL"):
            kwt = dict(kw)
            kwt["profiles"] = rs.flip_profiles(kw["profiles"], swap=True)
            kwt["domain"] = (kw["domain"][1], kw["domain"][0])
            kwt["modes"] = (kw["modes"][1], kw["modes"][0])
            kwt["meas_pt"] = (kw["meas_pt"][1], kw["meas_pt"][0])
            _, pt, ft = rs.solve3(q.T, kwt)
            if not (_cmp(chk, rs, c, "transpose", "flux", ft, np.transpose(f0, (0, 2, 1)), prec, "axes exchanged with halo %s (source transposed, u<->v, Kx<->Ky, domain, modes and measurement point swapped)" % kw["halo"], **extra)
                    and _cmp(chk, rs, c, "transpose", "conc", pt, np.transpose(p0, (0, 2, 1)), prec, "axes exchanged with halo %s" % kw["halo"], **extra)):
                return


def replay_boundary(chk, rs, c, variants):
    """surface condition (flux at node 0 = prescribed flux / unit impulse at the tower) and radiation condition at the top"""
    if c["err"] != "none" or c["halo"] != 0 or not c["geom"]["clamped"]:
        return
    rng = _rng(c)
    ny, nx = c["ny"], c["nx"]
    lv = list(c["lv"])
    for prof_kind, prec, src_kind in variants:
        if c["an"]:
            prof_kind = "const_aniso" if prof_kind in ("mostm", "aniso") else "const"
        if prec != "double":
            continue
        kw = rs.solver_args(c, prof_kind, prec)
        q = rs.source(c, src_kind, rng, j=rng.integers(ny), i=rng.integers(nx))
        extra = dict(profile=prof_kind, precision=prec, source=src_kind, q=q.tolist())
        chk.case((_cfg_key(c), prof_kind, prec, src_kind))
        _, p, f = rs.solve3(q, kw)
        if 0 in lv:
            k = lv.index(0)
            if c["fp"]:
                want = np.zeros((ny, nx))
                want[c["ym"] // c["ay"], c["xm"] // c["ax"]] = 1.0
            else:
                want = q
            if not _cmp(chk, rs, c, "surface_bc", "flux at node 0", f[k], want, prec, "the flux at the surface node is the prescribed surface flux (all modes kept)", **extra):
                return
        top = c["nz"] - 1
        if top in lv and not c["fp"]:
            k = lv.index(top)
            u, v, Kx, Ky, Kz = kw["profiles"]
            dx, dy = kw["domain"][0] / nx, kw["domain"][1] / ny
            lx = 2 * np.pi * np.fft.fftfreq(nx, d=dx)
            ly = 2 * np.pi * np.fft.fftfreq(ny, d=dy)
            LX, LY = np.meshgrid(lx, ly)
            eig = np.sqrt((Kx[top] * LX**2 + Ky[top] * LY**2 + 1j * (u[top] * LX + v[top] * LY)) / Kz[top] + 0j)
            P = np.fft.fft2(p[k])
            Q = np.fft.fft2(f[k])
            mask = np.ones((ny, nx), dtype=bool)
            mask[0, 0] = False
            for kx in c["nyqx"]:
                mask[:, kx] = False
            for ky in c["nyqy"]:
                mask[ky, :] = False
            sc = max(float(np.max(np.abs(Q))), 1e-300)
            d = float(np.max(np.abs((Q - Kz[top] * eig * P) * mask))) / sc
            if d > 1e-8:
                _viol(chk, rs, c, "top_bc", "at the top node the spectral flux deviates from Kz*beta*concentration by %.3e relative (radiation condition)" % d, **extra)
                return


# ------------------------------------------------------------------------ C10 levels


def replay_levels(chk, rs, c, variants):
    if c["err"] != "none":
        return
    rng = _rng(c)
    lv = list(c["lv"])
    for prof_kind, prec, src_kind in variants:
        if c["an"]:  # the analytic branch is meant for height-independent profiles: isotropic or anisotropic constants
            prof_kind = "const_aniso" if prof_kind in ("mostm", "aniso") else "const"
        kw = rs.solver_args(c, prof_kind, prec)
        z = kw["z"]
        q = rs.source(c, src_kind, rng, j=rng.integers(c["ny"]), i=rng.integers(c["nx"]))
        bg = 0.21
        extra = dict(profile=prof_kind, precision=prec, source=src_kind, q=q.tolist())
        chk.case((_cfg_key(c), prof_kind, prec, src_kind))
        grid, pm, fm = rs.solve3(q, kw, srf_bg_conc=bg)
        Z = np.asarray(grid[2])
        zl = np.array([np.unique(Z[k])[0] if Z.ndim == 3 else np.unique(Z)[0] for k in range(len(lv))]) if len(lv) > 1 else np.array([np.unique(Z)[0]])
        if not np.array_equal(zl, z[lv]):
            _viol(chk, rs, c, "labels", "returned heights %s are not z[levels] = %s" % (zl.tolist(), z[lv].tolist()), **extra)
            return
        _, pf, ff = rs.solve3(q, kw, srf_bg_conc=bg, levels=list(range(c["nz"])))
        for k, node in enumerate(lv):
            _, ps, fs = rs.solve3(q, kw, srf_bg_conc=bg, levels=[node])
            what = "slot %d of levels=%s vs the single-level solve for node %d" % (k, lv, node)
            if not (_cmp(chk, rs, c, "slot_is_single", "flux", fm[k], fs[0], prec, what, exact=True, **extra)
                    and _cmp(chk, rs, c, "slot_is_single", "conc", pm[k], ps[0], prec, what, exact=True, **extra)):
                return
            what = "slot %d of levels=%s vs slice %d of the full-column solve" % (k, lv, node)
            if not (_cmp(chk, rs, c, "full_column", "flux", fm[k], ff[node], prec, what, exact=True, **extra)
                    and _cmp(chk, rs, c, "full_column", "conc", pm[k], pf[node], prec, what, exact=True, **extra)):
                return
        # argument forms: scalar, numpy array, tuple
        if len(lv) == 1:
            for form, val in (("scalar int", lv[0]), ("numpy scalar", np.int64(lv[0])), ("0-d array", np.array(lv[0]))):
                g2, p2, f2 = rs.solve(q, kw, srf_bg_conc=bg, levels=val)
                if not (_cmp(chk, rs, c, "level_forms", "flux", f2, fm[0], prec, "levels given as " + form, exact=True, **extra)
                        and _cmp(chk, rs, c, "level_forms", "conc", p2, pm[0], prec, "levels given as " + form, exact=True, **extra)):
                    return
        else:
            g2, p2, f2 = rs.solve3(q, kw, srf_bg_conc=bg, levels=np.array(lv))
            if not (_cmp(chk, rs, c, "level_forms", "flux", f2, fm, prec, "levels given as numpy array", exact=True, **extra)
                    and _cmp(chk, rs, c, "level_forms", "conc", p2, pm, prec, "levels given as numpy array", exact=True, **extra)):
                return


def large_column_scenarios(chk, rs, t):
    """C10 on LARGE vertical grids (the property quantifies over small and large grids; the bounded model enumerates
    nz <= 5, the bookkeeping it checks does not depend on nz): full columns and long unsorted level selections on
    nz = 41 / 70, every slot against the single-level solve; the recorded mean_store / return events of these calls
    go through TraceSolver like all others."""
    rng = np.random.default_rng(seed() + 99)
    n = 0
    for nz, nsel in ((41, 41), (41, 33), (70, 36), (70, 65)) if t == "quick" else ((41, 41), (41, 33), (70, 36), (70, 65), (70, 70), (130, 97)):
        for fp in (False, True):
            c = {"nx": 6, "ny": 4, "ax": 2, "ay": 3, "halo": 2, "mx": 6, "my": 4, "xm": 4, "ym": 3, "fp": fp, "an": False, "nz": nz,
                 "lv": [int(x) for x in rng.permutation(nz)[:nsel]], "err": "none", "shape": [nsel, 4, 6]}
            if not fp:
                c["xm"] = c["ym"] = 0
            kw = rs.solver_args(c, "most_u" if fp else "mostm", "double")
            q = rs.source(c, "dense", rng)
            chk.case(("large", nz, nsel, fp))
            n += 1
            grid, pm, fm = rs.solve3(q, kw, srf_bg_conc=0.3)
            if not (np.all(np.isfinite(pm)) and np.all(np.isfinite(fm))):
                chk.drift_note("large column scenario nz=%d produced non-finite fields (harness profile problem); skipped" % nz)
                continue
            Z = np.asarray(grid[2])
            zl = np.array([Z[k].flat[0] for k in range(nsel)])
            extra = dict(profile="most", precision="double", source="dense", q=q.tolist())
            if not np.array_equal(zl, kw["z"][c["lv"]]):
                _viol(chk, rs, c, "labels", "large column (nz=%d, %d levels): returned heights are not z[levels]" % (nz, nsel), **extra)
                continue
            check = range(nsel) if t == "thorough" else sorted(set([0, 1, nsel - 1, nsel - 2, 31, 32, nsel // 2] + [int(x) for x in rng.integers(0, nsel, 6)]))
            for k in check:
                if k >= nsel:
                    continue
                _, ps, fs = rs.solve3(q, kw, srf_bg_conc=0.3, levels=[c["lv"][k]])
                what = "large column (nz=%d): slot %d of %d requested levels vs the single-level solve for node %d" % (nz, k, nsel, c["lv"][k])
                if not (_cmp(chk, rs, c, "slot_is_single", "flux", fm[k], fs[0], "double", what, exact=True, **extra)
                        and _cmp(chk, rs, c, "slot_is_single", "conc", pm[k], ps[0], "double", what, exact=True, **extra)):
                    break
    return n


def py_geometry(c):
    """Geometry(c) of spec/Solver.tla in Python, for configurations larger than TLC enumerates (halo in units, -1 = None)"""
    h = c["halo"] if c["halo"] >= 0 else max(c["nx"] * c["ax"], c["ny"] * c["ay"])
    px, py = h // c["ax"], h // c["ay"]
    nxe, nye = c["nx"] + 2 * px, c["ny"] + 2 * py
    big = c["mx"] > nxe or c["my"] > nye
    nlx, nly = (nxe, nye) if big else (c["mx"], c["my"])
    return {"halo": h, "px": px, "py": py, "nxe": nxe, "nye": nye, "clamped": big, "nlx": nlx, "nly": nly,
            "dlx": (nxe - nlx) // 2, "dly": (nye - nly) // 2, "nmodes": nlx * nly - 1}


LARGE_GRIDS = [  # (nx, ny, ax, ay, halo units, mx, my): more than 8192 retained modes, counts that are not round numbers
    (120, 104, 1, 1, 0, 512, 512),      # clamped to the grid: 12 480 modes
    (131, 67, 2, 3, 0, 512, 512),       # odd sizes: 8 777 modes, no Nyquist component
    (96, 90, 1, 1, 0, 96, 88),          # truncated in y: 8 448 modes
    (100, 84, 3, 2, 6, 104, 90),        # with a halo (2 and 3 cells), truncated: 9 360 modes
]


def large_grid_scenarios(chk, rs, prop, replay, t):
    """The families' identities on LARGE horizontal grids.  The bounded model enumerates padded sizes up to 10 and the
    identities do not depend on the size; an implementation may (blocking, batching, size thresholds).  The same replay
    functions are run on configurations far beyond the bounds, with the geometry computed by the specification's rule."""
    n = 0
    for (nx, ny, ax, ay, halo, mx, my) in (LARGE_GRIDS if t == "thorough" else LARGE_GRIDS[:3] + LARGE_GRIDS[3:][: 1 if prop in ("C03", "C06", "C11") else 0]):
        for fp in (False, True):
            for an in ((False,) if t == "quick" else (False, True)):
                c = {"nx": nx, "ny": ny, "ax": ax, "ay": ay, "halo": halo, "mx": mx, "my": my, "xm": 0, "ym": 0, "fp": fp, "an": an, "nz": 3,
                     "lv": [2], "err": "none", "shape": [1, ny, nx], "src": ["rnd", 1, 0], "bg": 0, "tab": 1, "flip": [1, 1, False], "prec": "double", "emb": [0, 0, 0, 0]}
                if fp:
                    c["xm"], c["ym"] = (nx // 3) * ax, (ny // 2) * ay
                g = py_geometry(c)
                c["geom"] = g
                c["nyqx"] = sorted({(g["nlx"] // 2) % g["nxe"], (g["nxe"] - g["nlx"] // 2) % g["nxe"]}) if g["nlx"] % 2 == 0 else []
                c["nyqy"] = sorted({(g["nly"] // 2) % g["nye"], (g["nye"] - g["nly"] // 2) % g["nye"]}) if g["nly"] % 2 == 0 else []
                if prop == "C07" and fp:
                    continue        # the mirror / axis-swap identities are stated for the unshifted problem
                before = len(chk.violations)
                try:
                    replay(chk, rs, c, VARIANTS_QUICK[:1])
                except KeyError as ex:
                    raise MachineryError("large grid scenario lacks a field the replay needs: %s" % ex)
                except MachineryError:
                    raise
                except Exception as ex:  # noqa: BLE001 - as in run_family: the specification predicts a result for every call
                    chk.violation("the model predicts a result for every call of the identity replay, the code raised %s: %s" % (type(ex).__name__, str(ex)[:120]),
                                  {"kind": "replay_exception", "config": c, "family": "large grid"}, klass=dict(rs.classify(c), check="replay_exception"))
                n += 1
                if len(chk.violations) > before:
                    chk.violations[-1]["what"] = "LARGE GRID %dx%d (%d modes): " % (nx, ny, g["nlx"] * g["nly"]) + chk.violations[-1]["what"]
    return n


def fine_anisotropic_swap(chk, rs):
    """C07 on a grid that is FINE against the output height, with strongly anisotropic horizontal diffusion (Kx = 8 Kz, Ky = Kz / 2):
    many components have decayed to nothing at the output level along x and not at all along y. Exchanging the axes (and with
    them Kx and Ky) still transposes the fields; mirroring still mirrors them."""
    n = 0
    rng = np.random.default_rng(seed() + 41)
    for prec, an in (("double", False), ("single", False), ("double", True)):
        nx, ny = 24, 20
        z = np.linspace(0.1, 12.1, 25)
        Kz = (0.4 * z) if not an else np.full(25, 2.0)
        u = (1.0 + np.log(z / 0.05)) if not an else np.full(25, 3.0)
        v = 0.3 * u
        prof = (u, v, 8.0 * Kz, 0.5 * Kz, Kz)
        q = rng.uniform(0.0, 1.0, size=(ny, nx))
        kw = dict(z=z, profiles=prof, domain=(float(nx), float(ny)), levels=[12], modes=(nx, ny), meas_pt=(0.0, 0.0), footprint=False, analytic=an, halo=0.0, precision=prec)
        _, p0, f0 = rs.solve3(q, kw)
        kwt = dict(kw, profiles=rs.flip_profiles(prof, swap=True), domain=(float(ny), float(nx)), modes=(ny, nx))
        _, pt, ft = rs.solve3(q.T, kwt)
        n += 2
        tol = 1e-9 if prec == "double" else 2e-4
        sc_f, sc_p = max(float(np.max(np.abs(f0))), 1e-300), max(float(np.max(np.abs(p0))), 1e-300)
        df = float(np.max(np.abs(ft - np.transpose(f0, (0, 2, 1))))) / sc_f
        dp = float(np.max(np.abs(pt - np.transpose(p0, (0, 2, 1))))) / sc_p
        chk.case(json.dumps(["fine anisotropic swap", prec, an]))
        if df > tol or dp > tol:
            chk.violation("a 24 x 20 grid of one-metre cells, output 6 m up, Kx = 8 Kz, Ky = Kz / 2 (%s precision, %s): exchanging the axes does not transpose the fields (flux %.3e, conc %.3e relative)"
                          % (prec, "analytic" if an else "numerical", df, dp), {"kind": "fine_anisotropic_swap", "precision": prec, "analytic": an}, klass={"check": "transpose", "variant": "fine anisotropic"})
    return n


def interface_levels(chk):
    """C10 through the configuration layer (`domain.output_levels`, `domain.full_output` -> run_bldfm_single): the k-th slice
    is the run that asks for the k-th level alone, and its height coordinate is that level's, in the order of the request"""
    import copy as _copy

    from bldfm import parse_config_dict, run_bldfm_single

    n = 0
    for fp in (True, False):
        for an in (False, True):
            base = {"domain": {"nx": 8, "ny": 6, "xmax": 160.0, "ymax": 90.0, "nz": 8, "modes": [8, 6], "halo": 20.0, "ref_lat": 50.0, "ref_lon": 11.0},
                    "towers": [{"name": "a", "lat": 50.0003, "lon": 11.0006, "z_m": 4.0}],
                    "met": {"ustar": 0.35, "mol": -90.0, "wind_speed": 3.0, "wind_dir": 230.0},
                    "solver": {"footprint": fp, "analytic": an, "closure": "CONSTANT" if an else "MOST", "precision": "double", "surface_flux_shape": "circle"}}
            singles = {}

            def single(lv):
                if lv not in singles:
                    raw1 = _copy.deepcopy(base)
                    raw1["domain"]["output_levels"] = [lv]
                    cfg1 = parse_config_dict(raw1)
                    r1 = run_bldfm_single(cfg1, cfg1.towers[0])
                    singles[lv] = (np.asarray(r1["conc"]).reshape(6, 8), np.asarray(r1["flx"]).reshape(6, 8), float(np.asarray(r1["grid"][2]).ravel()[0]))
                return singles[lv]

            for req in ([5, 2, 7], [8, 3], [1, 4, 2, 6], [6, 5, 4], [3], "full"):
                raw = _copy.deepcopy(base)
                if req == "full":
                    raw["domain"]["full_output"] = True
                    want_levels = list(range(9))
                else:
                    raw["domain"]["output_levels"] = list(req)
                    want_levels = list(req)
                cfg = parse_config_dict(raw)
                sc = {"kind": "interface_levels", "footprint": fp, "analytic": an, "request": req}
                chk.case(json.dumps(sc, sort_keys=True))
                n += 1
                try:
                    res = run_bldfm_single(cfg, cfg.towers[0])
                except Exception as ex:  # noqa: BLE001
                    chk.violation("run_bldfm_single with output levels %s raised %r" % (req, ex), sc, klass={"check": "interface_levels"})
                    continue
                conc = np.asarray(res["conc"]).reshape(-1, 6, 8)
                flx = np.asarray(res["flx"]).reshape(-1, 6, 8)
                Z = np.asarray(res["grid"][2])
                if conc.shape[0] != len(want_levels):
                    chk.violation("output levels %s through the configuration return %d slices" % (req, conc.shape[0]), sc, klass={"check": "interface_levels"})
                    continue
                for k, lv in enumerate(want_levels):
                    c1, f1, z1 = single(lv)
                    scale = max(float(np.max(np.abs(f1))), float(np.max(np.abs(c1))), 1e-300)
                    zk = float(Z.reshape(len(want_levels), -1)[k, 0]) if Z.size >= len(want_levels) and Z.ndim == 3 else float("nan")
                    if float(np.max(np.abs(conc[k] - c1))) > 1e-10 * scale or float(np.max(np.abs(flx[k] - f1))) > 1e-10 * scale or (Z.ndim == 3 and zk != z1):
                        chk.violation("output levels %s through the configuration (%s, %s): slice %d is not the run that asks for level %d alone (flux differs by %.3e relative, height %r vs %r)"
                                      % (req, "footprint" if fp else "dispersion", "analytic" if an else "numerical", k, lv, float(np.max(np.abs(flx[k] - f1))) / scale, zk, z1), sc, klass={"check": "interface_levels"})
                        break
    return n


def coordinate_sweep(chk, rs, t):
    """C11 for MANY sizes and domain extents (the bounded model enumerates sizes up to 7 and exact cell sizes): the returned
    coordinate arrays have the shape of the fields, which have the shape of the source, and x = i*dx, y = j*dy - also
    when dx is not exactly representable (100/29, 30/13, 1/49 ...), where a coordinate built by accumulation or by
    arange(0, xmax, dx) gains or loses a point"""
    n = 0
    z, prof = rs.profiles("most_u", 3)
    sizes = list(range(3, 64)) if t == "quick" else list(range(3, 130))
    for dom in (100.0, 30.0, 1.0, 64.0, 70.0):
        for nx in sizes:
            ny = 3 + (nx * 7) % 11
            for fp in ((False,) if nx % 3 else (False, True)):
                q = np.ones((ny, nx))
                from bldfm.solver import steady_state_transport_solver

                try:
                    grid, conc, flx = steady_state_transport_solver(q, z, prof, (dom, dom * 0.7), [1, 2], modes=(4, 4), halo=0.0, footprint=fp, precision="double")
                except Exception as ex:
                    chk.violation("a %dx%d source on a %g x %g domain raised %s" % (nx, ny, dom, dom * 0.7, type(ex).__name__), {"kind": "coordinate_sweep", "nx": nx, "ny": ny, "domain": dom}, klass={"check": "coordinate_sweep"})
                    return n
                n += 1
                chk.case(("coords", dom, nx, ny, fp))
                X, Y, Z = (np.asarray(a) for a in grid)
                sc = {"kind": "coordinate_sweep", "nx": nx, "ny": ny, "domain": [dom, dom * 0.7], "footprint": fp}
                if np.shape(flx) != (2, ny, nx) or np.shape(conc) != (2, ny, nx) or X.shape != (2, ny, nx) or Y.shape != (2, ny, nx) or Z.shape != (2, ny, nx):
                    chk.violation("source %dx%d on a %g m domain: fields %s, coordinates %s / %s / %s - not all of the shape of the source" % (nx, ny, dom, np.shape(flx), X.shape, Y.shape, Z.shape), sc,
                                  klass={"check": "coordinate_shape"})
                    return n
                dx, dy = dom / nx, dom * 0.7 / ny
                if np.max(np.abs(X[0, 0, :] - np.arange(nx) * dx)) > 4e-16 * dom or np.max(np.abs(Y[0, :, 0] - np.arange(ny) * dy)) > 4e-16 * dom:
                    chk.violation("source %dx%d on a %g m domain: returned coordinates are not i*dx, j*dy" % (nx, ny, dom), sc, klass={"check": "coordinate_values"})
                    return n
    return n


# ------------------------------------------------------------------------- C11 shape


def replay_shape(chk, rs, c, variants):
    if c["err"] != "none":
        return
    if c["halo"] != 0 and (c["fp"] or (c["xm"] == 0 and c["ym"] == 0)):
        # registration with a halo: the field must be the crop of the explicitly padded problem
        replay_conserve(chk, rs, c, variants[:1])
    rng = _rng(c)
    g = c["geom"]
    ny, nx = c["ny"], c["nx"]
    for prof_kind, prec, src_kind in variants[:2]:
        if c["an"]:  # the analytic branch is meant for height-independent profiles: isotropic or anisotropic constants
            prof_kind = "const_aniso" if prof_kind in ("mostm", "aniso") else "const"
        kw = rs.solver_args(c, prof_kind, prec)
        q = rs.source(c, src_kind, rng, j=rng.integers(ny), i=rng.integers(nx))
        extra = dict(profile=prof_kind, precision=prec, source=src_kind, q=q.tolist())
        chk.case((_cfg_key(c), prof_kind, prec, src_kind))
        grid, p, f = rs.solve3(q, kw)
        X, Y = np.asarray(grid[0]), np.asarray(grid[1])
        dx, dy = kw["domain"][0] / nx, kw["domain"][1] / ny
        wantX = np.broadcast_to(np.arange(nx) * dx, (ny, nx))
        wantY = np.broadcast_to((np.arange(ny) * dy)[:, None], (ny, nx))
        if X.shape != (ny, nx) or not np.array_equal(X, wantX) or not np.array_equal(Y, wantY):
            _viol(chk, rs, c, "coordinates", "returned X/Y are not i*dx, j*dy on the source grid", **extra)
            return
        if c["halo"] == 0 and (c["fp"] or (c["xm"] == 0 and c["ym"] == 0)):
            nlx, nly = g["nlx"], g["nly"]
            if not g["clamped"]:
                _, pf, ff = rs.solve3(q, kw, modes=(nx + nx % 2 + 2, ny + ny % 2 + 2))
                for name, a, b in (("flux", f, ff), ("conc", p, pf)):
                    A = np.fft.fft2(a, axes=(-2, -1))
                    B = np.fft.fft2(b, axes=(-2, -1))
                    kx = np.abs(np.fft.fftfreq(nx, 1.0 / nx))[None, None, :]
                    ky = np.abs(np.fft.fftfreq(ny, 1.0 / ny))[None, :, None]
                    inside = (2 * kx < nlx) & (2 * ky < nly)
                    beyond = (2 * kx > nlx) | (2 * ky > nly)
                    sc = max(float(np.max(np.abs(B))), 1e-300)
                    d_in = float(np.max(np.abs((A - B) * inside)))
                    d_out = float(np.max(np.abs(A * beyond)))
                    if d_in > TOL[prec] * sc or d_out > TOL[prec] * sc:
                        _viol(chk, rs, c, "low_pass", "%s with modes (%d,%d): components inside the cut-off changed by %.3e, components beyond it have %.3e (relative)" % (name, nlx, nly, d_in / sc, d_out / sc), **extra)
                        return
            if g["clamped"] and not c["fp"] and c["xm"] == 0 and c["ym"] == 0:
                # every mode of the padded grid is retained (whatever its parity): nothing may be removed - at the surface
                # node the flux field IS the prescribed source, cell by cell (what "leaves every component unchanged" means
                # where the full solution is known exactly); an odd padded size cannot be requested exactly, so this is the
                # only place where the odd clamp is observable
                _, p0s, f0s = rs.solve3(q, kw, levels=[0])
                scq = max(float(np.max(np.abs(q))), 1e-300)
                if np.shape(f0s[0]) != np.shape(q) or float(np.max(np.abs(f0s[0] - q))) > TOL[prec] * scq:
                    _viol(chk, rs, c, "clamp_all_modes", "modes %s are clamped to the padded grid (%d,%d) - all modes retained - but the flux at the surface node differs from the prescribed source by %.3e relative: a retained component was removed or moved"
                          % (kw["modes"], g["nxe"], g["nye"], float(np.max(np.abs(f0s[0] - q))) / scq if np.shape(f0s[0]) == np.shape(q) else float("nan")), **extra)
                    return
            if g["clamped"] and c["mx"] > g["nxe"] and c["my"] > g["nye"] and g["nxe"] % 2 == 0 and g["nye"] % 2 == 0:
                _, pe, fe = rs.solve3(q, kw, modes=(g["nxe"], g["nye"]))
                if not (_cmp(chk, rs, c, "clamp_eq", "flux", f, fe, prec, "modes %s vs exactly the padded size (%d,%d)" % (kw["modes"], g["nxe"], g["nye"]), exact=True, **extra)
                        and _cmp(chk, rs, c, "clamp_eq", "conc", p, pe, prec, "modes above the padded size vs exactly the padded size", exact=True, **extra)):
                    return


ADVISORY_FAMILIES = {"Boundary"}   # specification growth beyond the listed properties: failures are reported as drift, never as a violation
REPLAYS_BY_FAMILY = {"Boundary": replay_boundary, "Mirror": replay_mirror, "AnalyticSym": replay_symmetry, "AnalyticCons": replay_conserve}
REPLAYS = {"C02": replay_recip, "C03": replay_conserve, "C04": replay_linear, "C06": replay_translate, "C07": replay_symmetry, "C10": replay_levels, "C11": replay_shape}

VARIANTS_QUICK = [("most_u", "double", "dense"), ("mostm", "double", "sparse"), ("aniso", "single", "smooth")]
VARIANTS_THOROUGH = VARIANTS_QUICK + [
    ("most_s", "double", "unit"),
    ("const", "double", "dense"),
    ("aniso", "double", "sparse"),
    ("mostm", "single", "dense"),
]


def validate_traces(chk, prop, rs, tracefile, limit):
    """code -> spec: the stage events recorded during the replays must be behaviours of the specification"""
    from . import trace_solver

    os.environ.pop("BLDFM_VERIF_TRACE", None)
    res = trace_solver.validate(tracefile, prop, limit=limit)
    chk.traces += res["accepted"]
    if "tlc" in res:
        chk.states += res["tlc"]["distinct_states"]
        chk.transitions += res["tlc"]["states_generated"]
    chk.extra["trace_validation"] = {k: res[k] for k in ("calls", "representable", "unrepresentable", "distinct", "validated", "accepted")}
    chk.extra["trace_validation"]["rejected"] = len(res["rejected"])
    for rej in res["rejected"]:
        nxt = rej["next_event"]
        cfgm = dict(rej["call"])
        cfgm["halo"] = -1 if cfgm["halo"] == 99999 else cfgm["halo"]
        if nxt is not None and nxt["e"] == "return":
            # the return event contradicts the specification: shape or labels - both are what C11 / C10 talk about
            want = [len(cfgm["lv"]), cfgm["ny"], cfgm["nx"]]
            if nxt["flx"] != want or nxt["conc"] != want:
                if prop in ("C11", "C02", "C03"):
                    chk.violation("recorded call returned shape %s for a source of shape %s" % (nxt["flx"], want[1:]),
                                  {"kind": "trace", "call": rej}, klass=dict(rs.classify(cfgm), check="trace_shape"))
                    continue
            elif nxt["zidx"] != cfgm["lv"]:
                if prop == "C10":
                    chk.violation("recorded call labelled its slices with nodes %s for levels=%s" % (nxt["zidx"], cfgm["lv"]),
                                  {"kind": "trace", "call": rej}, klass=dict(rs.classify(cfgm), check="trace_labels"))
                    continue
        if nxt is not None and nxt["e"] == "modes" and rej["matched_events"] >= 3:
            # the Fourier summation index of every retained slot: a different ORDER of the same wavenumbers would be another
            # representation (drift); a different SET means the sweep runs with wavenumbers the retained components do not
            # have - every property of the solver is stated per retained component
            g_ = py_geometry(dict(cfgm, halo=cfgm["halo"]))
            want_x = sorted(int(k) for k in np.fft.fftfreq(g_["nlx"], 1.0 / g_["nlx"]))
            want_y = sorted(int(k) for k in np.fft.fftfreq(g_["nly"], 1.0 / g_["nly"]))
            if sorted(nxt.get("ilx", [])) != want_x or sorted(nxt.get("ily", [])) != want_y:
                chk.violation("recorded call: the retained components carry the wavenumber indices %s x %s, the %d x %d retained modes are %s x %s"
                              % (nxt.get("ilx"), nxt.get("ily"), g_["nlx"], g_["nly"], [int(k) for k in np.fft.fftfreq(g_["nlx"], 1.0 / g_["nlx"])], [int(k) for k in np.fft.fftfreq(g_["nly"], 1.0 / g_["nly"])]),
                              {"kind": "trace", "call": rej}, klass=dict(rs.classify(cfgm), check="trace_modes"))
                continue
        if nxt is not None and nxt["e"] == "mean_store" and prop == "C10":
            chk.violation("mean-mode loop stored node %s in slot %s for levels=%s" % (nxt["node"], nxt["slot"], cfgm["lv"]),
                          {"kind": "trace", "call": rej}, klass=dict(rs.classify(cfgm), check="trace_mean_store"))
            continue
        chk.drift_note("trace not explained by the specification after %d of %d events; next event %s; call %s" % (rej["matched_events"], rej["of"], json.dumps(nxt), json.dumps(rej["call"])))
    if res["rejected"]:
        chk.extra["trace_validation"]["first_rejected"] = res["rejected"][0]


def main_and_finish(prop):
    return main(prop).finish()


def replay_scenario(prop, path):
    """Re-run one stored failing scenario."""
    from . import realsolver as rs

    v = json.load(open(path))
    sc = v["scenario"]
    chk = Check(prop)
    c = sc["config"]
    if sc["kind"] == "prediction":
        check_prediction(chk, prop, rs, c, sc.get("profile", "most_u"))
    else:
        fn = REPLAYS_BY_FAMILY.get(sc.get("family", ""), None)
        if sc["kind"].startswith("mirror_centre"):
            fn = replay_mirror
        (fn or REPLAYS[prop])(chk, rs, c, [(sc.get("profile", "most_u"), sc.get("precision", "double"), sc.get("source", "dense"))])
    return chk.finish()


def run_family(chk, prop, rs, fam, replay, t, variants):
    """TLC on one configuration family + replay of every emitted configuration"""
    cfgname = "MC_%s_%s" % (fam, t)
    if not os.path.exists(os.path.join(common.SPEC, cfgname + ".cfg")):
        cfgname = "MC_%s_quick" % fam
    r = run_tlc("MCSolver", cfgname, timeout=3000, env={"JAVA_TOOL_OPTIONS": "-XX:+UseParallelGC -Xmx12g"})
    chk.add_tlc(cfgname, r)
    if not r.ok:
        # the specification of the intended design violates its own invariant: the model is wrong
        raise MachineryError("TLC reports %s violated on %s:\n%s" % (r.violated, cfgname, "\n".join(r.output.splitlines()[-60:])))
    configs = r.emitted
    if not configs:
        raise MachineryError("TLC emitted no final states for " + cfgname)
    for c in configs:
        c["lv"] = list(c["lv"])
    n_err = 0
    main_chk = chk
    if fam in ADVISORY_FAMILIES:
        chk = Check(prop)      # a private collector: whatever it finds becomes a drift note of the real check
        chk._known = []
    for c in configs:
        ok, _ = check_prediction(chk, prop, rs, c, "const" if c["an"] else "most_u")
        if c["err"] != "none":
            n_err += 1
        if ok:
            try:
                replay(chk, rs, c, variants)
            except Exception as e:
                chk.violation(
                    "the model predicts a result for every call of the identity replay, the code raised %s: %s" % (type(e).__name__, str(e)[:120]),
                    {"kind": "replay_exception", "config": c, "family": fam},
                    klass=dict(rs.classify(c), check="replay_exception"),
                )
    if chk is not main_chk:
        for v in chk.violations[:10]:
            main_chk.drift_note("advisory family %s (not a listed property): %s" % (fam, v["what"]))
        main_chk.evaluations += chk.evaluations
        main_chk.nontrivial |= chk.nontrivial
        main_chk.extra.setdefault("advisory", {})[fam] = {"cases": chk.evaluations, "failures": len(chk.violations)}
        chk = main_chk
    chk.extra.setdefault("families", {})[fam] = {"config": cfgname, "configurations_from_tlc": len(configs), "predicted_error": n_err}
    for c in configs[:: max(1, len(configs) // 3)][:3]:
        chk.sample({"family": fam, "config": {k: c[k] for k in ("nx", "ny", "ax", "ay", "halo", "mx", "my", "xm", "ym", "fp", "an", "nz", "lv")}, "predicted": {"err": c["err"], "shape": c["shape"]}})
    return len(configs)


def main(prop, families=None):
    from . import realsolver as rs

    chk = Check(prop)
    t = tier()
    tracefile = os.path.join(common.scratch("trace_raw_" + prop), "events.ndjson")
    os.environ["BLDFM_VERIF_TRACE"] = tracefile
    if families is None:
        families = [(FAMILY[prop], None)] + EXTRA_FAMILIES.get(prop, [])
    if t == "thorough":
        for neg in NEGS.get(prop, []):
            rn = run_tlc("MCSolver", neg, timeout=1800, env={"JAVA_TOOL_OPTIONS": "-XX:+UseParallelGC -Xmx12g"})
            chk.add_tlc(neg, rn, expect_violation=True)
            if rn.ok:
                raise MachineryError("negative control %s was not violated: the invariants do not see the deviation" % neg)
    if prop == "C07":
        # the similarity clause: dimensional bookkeeping of every solver formula (Units.tla); replays are in replay_symmetry
        ru = run_tlc("Units", "MC_Units", workers=1)
        chk.add_tlc("MC_Units", ru)
        if not ru.ok:
            raise MachineryError("MC_Units: the solver's formulas as specified are not homogeneous under the similarity scalings")
        if t == "thorough":
            for neg in ("MC_Units_neg_b_no_kzinv", "MC_Units_neg_eig_no_kzinv", "MC_Units_neg_mean_no_kz"):
                rn = run_tlc("Units", neg, workers=1)
                chk.add_tlc(neg, rn, expect_violation=True)
                if rn.ok:
                    raise MachineryError("negative control %s was not violated" % neg)
    variants = VARIANTS_QUICK if t == "quick" else VARIANTS_THOROUGH
    total = 0
    for fam, key in families:
        replay = REPLAYS[prop] if key is None else REPLAYS_BY_FAMILY[key]
        total += run_family(chk, prop, rs, fam, replay, t, variants)
    chk.rule = (
        "TLC enumerates every configuration of the families %s within the bounds of their .cfg files and checks the invariants on the exact model; "
        "each final state is replayed on the real solver (error/shape prediction + the property's identities, several profile/source/precision variants); "
        "a case is a (configuration, profile set, precision, source) tuple on which an identity was evaluated" % [f for f, _ in families]
    )
    if prop == "C07":
        chk.extra["fine_anisotropic_swaps"] = fine_anisotropic_swap(chk, rs)
    if prop == "C10":
        chk.extra["large_column_scenarios"] = large_column_scenarios(chk, rs, t)
        chk.extra["interface_level_requests"] = interface_levels(chk)
    if prop == "C11":
        chk.extra["coordinate_sweep"] = coordinate_sweep(chk, rs, t)
    if prop in ("C02", "C03", "C04", "C06", "C07"):
        chk.extra["large_grid_scenarios"] = large_grid_scenarios(chk, rs, prop, REPLAYS[prop], t)
    again = rs.repeat_first()
    chk.extra["first_solves_repeated_at_the_end"] = len(rs.FIRST)
    if again:
        chk.violation("%d of the first %d solves of this run, repeated after all the others, no longer return the same fields (largest relative difference %.3e): something of the solves in between survives in the process"
                      % (len(again), len(rs.FIRST), max(d for _, d in again)), {"kind": "repeat_after_history", "solves": again}, klass={"check": "repeat_after_history"})
    if rs.MODIFIED:
        chk.violation("the solver modifies argument arrays in place (%s): every relation between two solves that share their arguments is void" % sorted(set(rs.MODIFIED)),
                      {"kind": "inputs_modified", "arguments": sorted(set(rs.MODIFIED))}, klass={"check": "inputs_modified"})
    validate_traces(chk, prop, rs, tracefile, limit=4000 if t == "quick" else 40000)
    if t == "thorough" and prop == "C11":
        # the repository's own tests, recorded with the hooks on (sizes far beyond the bounded model)
        from . import repo_tests

        tf, tail = repo_tests.record()
        kept = chk.extra.get("trace_validation")
        chk.extra["repo_tests_pytest"] = tail
        repo_tests.solver_calls(chk, prop, tf)
        chk.extra["trace_validation"] = kept
    chk.extra["configurations_from_tlc"] = total
    chk.extra["exhaustive"] = True
    chk.assumptions += [
        "identities are checked exactly on the GF(5039^2) model for every configuration in the bounds; the model represents the code's stages one to one (bound by prediction replays and trace validation)",
        "floating-point identities are compared with relative tolerance 1e-10 (double) / 2e-4 (single) of the field scale",
    ]
    return chk
