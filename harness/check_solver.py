"""Checks for the solver-plumbing properties C02 C03 C04 C06 C07 C10 C11.

For each property:
  1. TLC checks the property's invariants on the exact model (spec/MCSolver.tla) for every
     configuration of the family in the tier's bounds and emits each final state
     (configuration + predicted error/shape/geometry).
  2. Every emitted configuration is replayed on the real solver: the predicted
     error/shape must be observed and the property's identity must hold in floating point.
  3. The hook events recorded during the replays are validated against the stage actions
     of the specification by TLC (spec/TraceSolver.tla).
"""

import json
import os
import sys
import time
import traceback

import numpy as np

from . import common
from .common import Check, MachineryError, run_tlc, scratch, tier, seed

FAMILY = {
    "C02": "Recip",
    "C03": "Conserve",
    "C04": "Linear",
    "C06": "Translate",
    "C07": "Symmetry",
    "C10": "Levels",
    "C11": "Shape",
}

TOL = {"double": 1e-10, "single": 2e-4}


def _cfg_key(c):
    return json.dumps({k: c[k] for k in ("nx", "ny", "ax", "ay", "halo", "mx", "my", "xm", "ym", "fp", "an", "nz", "lv")}, sort_keys=True)


def close(a, b, prec, scale=None):
    a = np.asarray(a, dtype=float)
    b = np.asarray(b, dtype=float)
    if a.shape != b.shape:
        return False, float("inf")
    s = scale if scale is not None else max(np.max(np.abs(a)), np.max(np.abs(b)), 1e-300)
    d = float(np.max(np.abs(a - b))) / s if a.size else 0.0
    return d <= TOL[prec], d


# --------------------------------------------------------------------- predictions


def observed_outcome(rs, q, kw):
    """Run the real solver; return (err_kind, shape3, result-or-None)."""
    try:
        grid, conc, flx = rs.solve(q, kw)
    except ValueError as e:
        m = str(e)
        if "modes must consist of even" in m:
            return "odd_modes", None, None
        if "precision must be" in m:
            return "precision", None, None
        if "broadcast" in m:
            return "broadcast", None, None
        return "ValueError:" + m[:60], None, None
    except IndexError:
        return "index", None, None
    nl = len(kw["levels"])
    shp = tuple(flx.shape)
    if flx.ndim == 2:
        shp = (1,) + shp
    return "none", shp, (grid, conc, flx)


def check_prediction(chk, prop, rs, c, prof_kind="most_u"):
    """The model's predicted error / shape for configuration c must be what the code does."""
    kw = rs.solver_args(c, prof_kind)
    rng = np.random.default_rng(seed() + 17)
    q = rs.source(c, "dense", rng)
    err, shp, res = observed_outcome(rs, q, kw)
    pred_err = c["err"]
    ok = True
    if pred_err == "none":
        if err != "none":
            ok = False
            what = "model predicts a result of shape %s, the code raises %s" % (c["shape"], err)
        elif list(shp) != list(c["shape"]):
            ok = False
            what = "model predicts shape %s, the code returns %s" % (c["shape"], list(shp))
        elif res[1].shape != res[2].shape:
            ok = False
            what = "conc and flx shapes differ"
    else:
        if err == "none":
            ok = False
            what = "model predicts error %s, the code returns shape %s" % (pred_err, list(shp))
        elif err != pred_err:
            # a different exception is still "raises an error"; recorded as drift, not a violation
            chk.drift_note("config %s: model predicts error %s, code raises %s" % (_cfg_key(c), pred_err, err))
    if not ok:
        chk.violation(what, {"kind": "prediction", "config": c, "profile": prof_kind}, klass=dict(rs.classify(c), check="prediction"))
    return ok, res


# ------------------------------------------------------------------- C02 reciprocity


def replay_recip(chk, rs, c, variants):
    """sum(q * footprint) == forward field at the tower cell, for flux and concentration."""
    if c["err"] != "none" or not c["fp"]:
        return
    jm, im = c["ym"] // c["ay"], c["xm"] // c["ax"]
    rng = np.random.default_rng(seed() * 1000003 + hash(_cfg_key(c)) % 100000)
    for prof_kind, prec, src_kind in variants:
        kw = rs.solver_args(c, prof_kind, prec)
        q = rs.source(c, src_kind, rng, j=rng.integers(c["ny"]), i=rng.integers(c["nx"]))
        try:
            _, gconc, gflx = rs.solve3(np.zeros_like(q), kw)
            _, dconc, dflx = rs.solve3(q, kw, footprint=False, meas_pt=(0.0, 0.0))
        except Exception as e:  # the forward run may legitimately raise (then the identity is not applicable)
            chk.drift_note("recip: %s raised %r" % (_cfg_key(c), e))
            continue
        chk.case((_cfg_key(c), prof_kind, prec, src_kind))
        for k in range(len(c["lv"])):
            for name, G, D in (("flux", gflx, dflx), ("conc", gconc, dconc)):
                lhs = float(np.sum(q * G[k]))
                rhs = float(D[k][jm, im])
                scale = max(float(np.sum(np.abs(q * G[k]))), abs(rhs), 1e-300)
                if abs(lhs - rhs) > TOL[prec] * scale:
                    chk.violation(
                        "sum(q*footprint) = %.12g but forward %s at the tower = %.12g (rel %.2e), level slot %d"
                        % (lhs, name, rhs, abs(lhs - rhs) / scale, k),
                        {"kind": "recip", "config": c, "profile": prof_kind, "precision": prec, "source": src_kind, "q": q.tolist()},
                        klass=dict(rs.classify(c), check="recip"),
                    )
                    return


REPLAYS = {"C02": replay_recip}

VARIANTS_QUICK = [("most_u", "double", "dense"), ("mostm", "double", "sparse"), ("aniso", "single", "smooth")]
VARIANTS_THOROUGH = VARIANTS_QUICK + [
    ("most_s", "double", "unit"),
    ("const", "double", "dense"),
    ("aniso", "double", "sparse"),
    ("mostm", "single", "dense"),
]


def replay_scenario(prop, path):
    """Re-run one stored failing scenario."""
    from . import realsolver as rs

    v = json.load(open(path))
    sc = v["scenario"]
    chk = Check(prop)
    c = sc["config"]
    if sc["kind"] == "prediction":
        check_prediction(chk, prop, rs, c, sc.get("profile", "most_u"))
    else:
        REPLAYS[prop](chk, rs, c, [(sc.get("profile", "most_u"), sc.get("precision", "double"), sc.get("source", "dense"))])
    return chk.finish()


def main(prop):
    from . import realsolver as rs

    chk = Check(prop)
    fam = FAMILY[prop]
    t = tier()
    cfgname = "MC_%s_%s" % (fam, t)
    if not os.path.exists(os.path.join(common.SPEC, cfgname + ".cfg")):
        cfgname = "MC_%s_quick" % fam
    r = run_tlc("MCSolver", cfgname, timeout=3000, env={"JAVA_TOOL_OPTIONS": "-XX:+UseParallelGC -Xmx12g"})
    chk.add_tlc(cfgname, r)
    if not r.ok:
        # the specification of the intended design violates its own invariant: the model is wrong
        raise MachineryError("TLC reports %s violated on %s:\n%s" % (r.violated, cfgname, "\n".join(r.output.splitlines()[-60:])))
    configs = r.emitted
    if not configs:
        raise MachineryError("TLC emitted no final states for " + cfgname)
    for c in configs:
        c["lv"] = list(c["lv"])
    chk.rule = (
        "TLC enumerates every configuration of family %s within the bounds of %s.cfg and checks the invariants on the exact model; "
        "each final state is replayed on the real solver (error/shape prediction + the property's identity, several profile/source/precision variants); "
        "a case is a (configuration, profile set, precision, source) tuple on which the identity was evaluated" % (fam, cfgname)
    )
    variants = VARIANTS_QUICK if t == "quick" else VARIANTS_THOROUGH
    replay = REPLAYS[prop]
    n_err = 0
    for c in configs:
        ok, _ = check_prediction(chk, prop, rs, c)
        if c["err"] != "none":
            n_err += 1
        if ok:
            replay(chk, rs, c, variants)
    chk.extra["configurations_from_tlc"] = len(configs)
    chk.extra["configurations_predicted_error"] = n_err
    for c in configs[:: max(1, len(configs) // 4)][:4]:
        chk.sample({"config": {k: c[k] for k in ("nx", "ny", "ax", "ay", "halo", "mx", "my", "xm", "ym", "fp", "an", "nz", "lv")}, "predicted": {"err": c["err"], "shape": c["shape"]}})
    chk.extra["exhaustive"] = True
    chk.assumptions += [
        "identities are checked exactly on the GF(5039^2) model for every configuration in the bounds; the model represents the code's stages one to one (bound by prediction replays and trace validation)",
        "floating-point identities are compared with relative tolerance 1e-10 (double) / 2e-4 (single) of the field scale",
    ]
    return chk.finish()
