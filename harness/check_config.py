"""C16 (met time series) and C13 (config-driven single run = explicit pipeline).

TLC enumerates forcings / option-lattice points on spec/Config.tla and emits, per final state, the
specification's verdict (valid, number of steps) and its log of per-step records (C16) or of the
argument records of the four low-level calls plus metadata (C13).  The harness instantiates the tokens
with concrete numbers, drives the real package and compares token by token.
"""

import copy
import dataclasses
import json
import os
import sys

import numpy as np

from . import common
from .common import Check, MachineryError, run_tlc, seed, tier

ABSENT = 99
FIELDS = ("ustar", "mol", "wind_speed", "wind_dir")
BASE = {"ustar": 0.30, "mol": -80.0, "wind_speed": 3.0, "wind_dir": 200.0}
STEPV = {"ustar": 0.05, "mol": -35.0, "wind_speed": 0.75, "wind_dir": 37.0}
Z0 = 0.07


ZERO_TOKENS = {}        # instantiation with zeros: field -> token whose concrete value is exactly 0.0 (wind from due north, calm, ...)


def val(f, tok):
    """token -> concrete number: 0 = the scalar, j = j-th list entry"""
    if ZERO_TOKENS.get(f) == tok:
        return 0.0
    return BASE[f] + STEPV[f] * tok + (0.011 if tok == 0 else 0.0)


def met_kwargs(m):
    kw = {}
    for f in FIELDS:
        form = m[f]
        if form == ABSENT:
            kw[f] = None
        elif form == 0:
            kw[f] = val(f, 0)
        else:
            kw[f] = [val(f, j) for j in range(1, form + 1)]
    kw["z0"] = Z0 if m["z0"] else None
    kw["timestamps"] = None if m["ts"] == ABSENT else ["2024-01-01T%02d:00" % j for j in range(1, m["ts"] + 1)]
    return kw


def met_dict(m):
    d = {k: v for k, v in met_kwargs(m).items() if v is not None}
    return d


def step_tokens(m, step):
    """map a get_step() dict back to tokens; raises KeyError if a value is not the image of a token"""
    out = {}
    for f in FIELDS:
        v = step[f]
        if v is None:
            out[f] = ABSENT
            continue
        form = m[f]
        cands = [0] if form == 0 else list(range(1, form + 1))
        hit = [t for t in cands if val(f, t) == v]
        if len(hit) != 1:
            raise KeyError("%s=%r is not the image of a token" % (f, v))
        out[f] = hit[0]
    out["z0"] = "z0" in step and step["z0"] == Z0
    ts = step["timestamp"]
    if isinstance(ts, str):
        out["ts"] = ["label", int(ts[11:13])]
    else:
        out["ts"] = ["index", int(ts)]
    return out


BASE_DOMAIN = {"nx": 8, "ny": 6, "xmax": 160.0, "ymax": 90.0, "nz": 4, "ref_lat": 50.0, "ref_lon": 11.0}
TOWERS = [
    {"name": "T1", "lat": 50.0003, "lon": 11.0006, "z_m": 8.0},
    {"name": "T2", "lat": 50.0005, "lon": 11.0011, "z_m": 11.0},
    {"name": "T3", "lat": 50.0002, "lon": 11.0016, "z_m": 14.5},
]


def klass_met(m):
    lists = [f for f in FIELDS if 1 <= m[f] <= 50]
    return {
        "list_fields": "+".join(sorted(lists)) or "none",
        "timestamps": "absent" if m["ts"] == ABSENT else "present",
        "only_dir_or_mol_lists": bool(lists) and all(f in ("wind_dir", "mol") for f in lists),
    }


# --------------------------------------------------------------------------- C16


def synthetic_generators(chk):
    """ADVISORY (no listed property): spec/Synthetic.tla against bldfm/synthetic.py - the generators' output must be input the
    configuration layer accepts: n distinct towers where the specification puts them, a forcing with exactly n steps.
    Every disagreement is drift."""
    import math

    from bldfm.config_parser import parse_config_dict
    from bldfm.synthetic import generate_synthetic_timeseries, generate_towers_grid

    r = run_tlc("Synthetic", "MC_Synthetic", workers=4)
    chk.add_tlc("MC_Synthetic", r)
    if not r.ok:
        raise MachineryError("MC_Synthetic: %s violated" % r.violated)
    n = 0
    lat0, lon0, sp = 50.95, 11.586, 500.0
    for e in sorted(r.emitted, key=lambda x: json.dumps(x, sort_keys=True)):
        try:
            towers = generate_towers_grid(n_towers=e["n"], center_lat=lat0, center_lon=lon0, spacing_m=sp, layout=e["layout"])
        except Exception as ex:
            chk.drift_note("generate_towers_grid(%d, %s) raised %r" % (e["n"], e["layout"], ex))
            continue
        n += 1
        if len(towers) != e["n"] or len({t["name"] for t in towers}) != len(towers):
            chk.drift_note("generate_towers_grid(%d, %s) returned %d towers / %d distinct names" % (e["n"], e["layout"], len(towers), len({t["name"] for t in towers})))
            continue
        for t, off in zip(towers, e["offs"]):
            dx = (t["lon"] - lon0) * 111_320.0 * math.cos(math.radians(lat0))
            dy = (t["lat"] - lat0) * 111_320.0
            if abs(dx - off[0] * sp / 2) > 0.2 or abs(dy - off[1] * sp / 2) > 0.2:
                chk.drift_note("generate_towers_grid(%d, %s): tower %s at (%.1f, %.1f) m, the specification says (%.1f, %.1f)" % (e["n"], e["layout"], t["name"], dx, dy, off[0] * sp / 2, off[1] * sp / 2))
                break
        if e["n"] >= 1 and e["n"] % 5 == 1:
            for k in (1, 2, 7):
                met = generate_synthetic_timeseries(n_timesteps=k, seed=k)
                raw = {"domain": {"nx": 8, "ny": 8, "xmax": 100.0, "ymax": 100.0, "nz": 4, "ref_lat": lat0, "ref_lon": lon0}, "towers": towers, "met": met}
                try:
                    cfg = parse_config_dict(raw)
                    if cfg.met.n_timesteps != k or len(cfg.towers) != e["n"] or any(len(met[f]) != k for f in ("ustar", "mol", "wind_speed", "wind_dir", "timestamps")):
                        chk.drift_note("synthetic series of %d steps parses to %d steps / %d towers" % (k, cfg.met.n_timesteps, len(cfg.towers)))
                    if not all(0.0 <= w < 360.0 for w in met["wind_dir"]):
                        chk.drift_note("synthetic wind directions outside [0, 360)")
                except Exception as ex:
                    chk.drift_note("synthetic towers + series are not accepted by the configuration layer: %r" % ex)
                n += 1
    return n


def main_met():
    import bldfm
    from bldfm.config_parser import MetConfig, parse_config_dict

    chk = Check("C16")
    r = run_tlc("Config", "MC_Met", env={"EMIT_EVERY": "1", "EMIT_PHASE": "0", "JAVA_TOOL_OPTIONS": "-XX:+UseParallelGC -Xmx8g"})
    chk.add_tlc("MC_Met", r)
    if not r.ok:
        raise MachineryError("MC_Met: %s violated on the specification of the repaired design" % r.violated)
    if tier() == "thorough":
        rn = run_tlc("Config", "MC_Met_neg_pinned", env={"EMIT_EVERY": "1", "EMIT_PHASE": "0"})
        chk.add_tlc("MC_Met_neg_pinned", rn, expect_violation=True)
        if rn.ok:
            raise MachineryError("negative control MC_Met_neg_pinned was not violated: the invariants are vacuous")
    chk.rule = ("every forcing pattern (ustar absent/scalar/list 1..4; mol, wind_speed, wind_dir scalar/list 1..4; z0; timestamps absent/1..4) "
                "is enumerated by TLC and replayed through MetConfig.validate, parse_config_dict, n_timesteps and get_step; "
                "non-trivial = the forcing has a list-valued field or timestamps")
    n_runs = 0
    # two instantiations of the tokens: distinct non-zero numbers; and the same with the scalar / the first list entry of every
    # field exactly 0.0 (a value Python treats as false: wind from due north, zero speed, ...) - token level only, the driver
    # runs below use the first one
    passes = [(e, {}) for e in r.emitted] + [(e, {f: (0 if e["m"][f] == 0 else 1) for f in FIELDS}) for e in r.emitted if e["valid_spec"]]
    for e, zeros in passes:
        ZERO_TOKENS.clear()
        ZERO_TOKENS.update(zeros)
        m = e["m"]
        nontrivial = any(1 <= m[f] <= 50 for f in FIELDS) or m["ts"] != ABSENT
        chk.case(json.dumps([m, bool(zeros)], sort_keys=True), nontrivial)
        kw = met_kwargs(m)
        kw_nonone = {k: v for k, v in kw.items() if v is not None or k in ("ustar", "z0", "timestamps")}
        mc = MetConfig(**{k: v for k, v in kw.items() if v is not None})
        try:
            mc.validate()
            accepted = True
        except ValueError:
            accepted = False
        raw = {"domain": dict(BASE_DOMAIN), "towers": [dict(TOWERS[0])], "met": met_dict(m)}
        try:
            cfg = parse_config_dict(copy.deepcopy(raw))
            accepted2 = True
        except ValueError:
            accepted2 = False
        # the same forcing in a configuration without a reference origin (ref_lat / ref_lon are optional)
        raw_noref = copy.deepcopy(raw)
        raw_noref["domain"].pop("ref_lat")
        raw_noref["domain"].pop("ref_lon")
        try:
            parse_config_dict(raw_noref)
            accepted3 = True
        except ValueError:
            accepted3 = False
        sc = {"kind": "met", "m": m, "met": met_dict(m)}
        if accepted3 != e["valid_spec"]:
            chk.violation(
                "forcing %s is %s by the property but a configuration without reference origin is %s when built" % (met_dict(m), "valid" if e["valid_spec"] else "invalid", "accepted" if accepted3 else "rejected"),
                sc, klass=dict(klass_met(m), check="validity_noref"))
            continue
        if accepted != e["valid_spec"] or accepted2 != e["valid_spec"]:
            chk.violation(
                "forcing %s is %s by the property but validate() %s and parse_config_dict %s it"
                % (met_dict(m), "valid" if e["valid_spec"] else "invalid", "accepts" if accepted else "rejects", "accepts" if accepted2 else "rejects"),
                sc, klass=dict(klass_met(m), check="validity"))
            continue
        if not e["valid_spec"]:
            continue
        n = mc.n_timesteps
        if n != e["nsteps"] or cfg.met.n_timesteps != e["nsteps"]:
            chk.violation("n_timesteps = %d, the specification says %d for %s" % (n, e["nsteps"], met_dict(m)), sc, klass=dict(klass_met(m), check="nsteps"))
            continue
        for i, want in enumerate(e["log"]):
            try:
                got = step_tokens(m, mc.get_step(i))
            except Exception as ex:
                chk.violation("get_step(%d) failed or returned a foreign value: %r" % (i, ex), sc, klass=dict(klass_met(m), check="step"))
                break
            want = dict(want)
            want["ts"] = list(want["ts"])
            if got != want:
                chk.violation("get_step(%d) = %s, the specification says %s" % (i, got, want), sc, klass=dict(klass_met(m), check="step"))
                break
    ZERO_TOKENS.clear()
    # LONG series (the specification's lists have up to four entries; the code has no length-dependent branch - an
    # implementation might): every field a list of n entries, mixed with scalars, n up to 1500
    nlong = 0
    for n_, scalars in ((300, ()), (1500, ("mol",)), (257, ("ustar", "wind_dir")), (1000, ("wind_speed", "mol", "ustar"))):
        kwl = {f: (7.5 + 0.001 * hash(f) % 3 if f in scalars else [BASE[f] + 0.37 * j + 0.001 * k for j in range(n_)]) for k, f in enumerate(FIELDS)}
        kwl["timestamps"] = ["t%05d" % j for j in range(n_)]
        mcl = MetConfig(**kwl)
        nlong += 1
        sc = {"kind": "long_series", "n": n_, "scalars": list(scalars)}
        chk.case(("long", n_, scalars))
        try:
            mcl.validate()
            cfgl = parse_config_dict({"domain": dict(BASE_DOMAIN), "towers": [dict(TOWERS[0])], "met": copy.deepcopy(kwl)})
        except Exception as ex:
            chk.violation("a valid series of %d steps is rejected: %r" % (n_, ex), sc, klass={"check": "long_series"})
            continue
        if mcl.n_timesteps != n_ or cfgl.met.n_timesteps != n_:
            chk.violation("a series of %d entries reports %d / %d steps" % (n_, mcl.n_timesteps, cfgl.met.n_timesteps), sc, klass={"check": "long_series"})
            continue
        for i in (0, 1, n_ // 2, 255, 256, n_ - 2, n_ - 1):
            st = mcl.get_step(i)
            want = {f: (kwl[f] if f in scalars else kwl[f][i]) for f in FIELDS}
            if any(st[f] != want[f] for f in FIELDS) or st["timestamp"] != kwl["timestamps"][i]:
                chk.violation("step %d of a series of %d: get_step returns %s, the entries are %s" % (i, n_, {f: st[f] for f in FIELDS}, want), sc, klass={"check": "long_series"})
                break
    # CONSTANT lists are series (a direction that does not change for three records is three records)
    for lens in ((3, 3, 0, 0), (2, 0, 2, 0), (4, 4, 4, 4), (0, 0, 0, 3), (2, 3, 0, 0), (3, 0, 0, 1)):
        kwc = {f: (BASE[f] + 0.5 if n_ == 0 else [BASE[f] + 0.25] * n_) for f, n_ in zip(FIELDS, lens)}
        nmax = max(lens)
        for ts in (None, nmax, 1 if nmax > 1 else 2):
            kc = dict(kwc)
            if ts is not None:
                kc["timestamps"] = ["c%d" % j for j in range(ts)]
            lists = [n_ for n_ in lens if n_ > 0]
            valid = len(set(lists)) == 1 and (ts is None or ts == nmax)
            sc = {"kind": "constant_lists", "met": kc}
            chk.case(json.dumps(sc, sort_keys=True))
            try:
                mcc = MetConfig(**kc)
                mcc.validate()
                ok = True
            except ValueError:
                ok = False
            if ok != valid:
                chk.violation("forcing with constant lists %s is %s by the property but validate() %s it" % (kc, "valid" if valid else "invalid", "accepts" if ok else "rejects"), sc, klass={"check": "constant_lists"})
                continue
            if valid and (mcc.n_timesteps != nmax or any(mcc.get_step(i)[f] != (kc[f][i] if isinstance(kc[f], list) else kc[f]) for i in range(nmax) for f in FIELDS)
                          or (ts is not None and [mcc.get_step(i)["timestamp"] for i in range(nmax)] != kc["timestamps"])):
                chk.violation("forcing with constant lists %s: %d steps / per-step values do not match the entries" % (kc, mcc.n_timesteps), sc, klass={"check": "constant_lists"})
    # a forcing EDITED after it was built (a script extends the series of an existing configuration): the step count and the
    # steps are those of the fields as they are now, and validity is judged on them
    from bldfm.config_parser import MetConfig as _MC

    for start, edits, want_n, want_valid in (
            (dict(ustar=0.3, mol=-100.0, wind_speed=3.0, wind_dir=270.0), dict(wind_dir=[0.0, 90.0, 180.0, 270.0]), 4, True),
            (dict(ustar=[0.3, 0.4], mol=-100.0, wind_speed=3.0, wind_dir=270.0, timestamps=["a", "b"]), dict(ustar=[0.3, 0.4, 0.5], timestamps=["a", "b", "c"]), 3, True),
            (dict(ustar=[0.3, 0.4], mol=-100.0, wind_speed=3.0, wind_dir=270.0, timestamps=["a", "b"]), dict(ustar=[0.3, 0.4, 0.5]), 3, False),
            (dict(ustar=[0.3, 0.4, 0.5], mol=-100.0, wind_speed=3.0, wind_dir=[1.0, 2.0, 3.0]), dict(ustar=0.3, wind_dir=5.0), 1, True)):
        mc = _MC(**start)
        mc.validate()
        n0 = mc.n_timesteps            # the count is read once before the edit
        for k_, v_ in edits.items():
            setattr(mc, k_, v_)
        sc = {"kind": "edited_forcing", "start": start, "edits": edits}
        chk.case(json.dumps(sc, sort_keys=True, default=str))
        try:
            mc.validate()
            ok = True
        except Exception:
            ok = False
        if ok != want_valid:
            chk.violation("a forcing edited after it was built (%s, then %s) is %s by the property but validate() %s it" % (start, edits, "valid" if want_valid else "invalid", "accepts" if ok else "rejects"), sc, klass={"check": "edited_forcing"})
            continue
        if want_valid:
            vals = {f: (edits.get(f, start.get(f))) for f in FIELDS}
            steps_ok = mc.n_timesteps == want_n and all(mc.get_step(i)[f] == (vals[f][i] if isinstance(vals[f], list) else vals[f]) for i in range(want_n) for f in FIELDS)
            if not steps_ok:
                chk.violation("a forcing edited after it was built (%s, then %s) reports %d steps (it reported %d before the edit); its fields now have %d" % (start, edits, mc.n_timesteps, n0, want_n), sc, klass={"check": "edited_forcing"})
    chk.extra["long_series"] = nlong
    # drivers: the timeseries driver and the CLI loop iterate exactly NSteps times with the right parameters
    from bldfm import run_bldfm_timeseries

    rng = np.random.default_rng(seed())
    valid = [e for e in r.emitted if e["valid_spec"] and e["nsteps"] <= 3]
    pick = [valid[i] for i in rng.choice(len(valid), size=min(len(valid), 40 if tier() == "quick" else 300), replace=False)]
    # always include the patterns in which only wind_dir / mol vary
    pick += [e for e in valid if klass_met(e["m"])["only_dir_or_mol_lists"] and e["m"]["ts"] == ABSENT][:8]
    for e in pick:
        m = e["m"]
        raw = {"domain": dict(BASE_DOMAIN, modes=[8, 6], halo=20.0), "towers": [dict(TOWERS[0])], "met": met_dict(m), "solver": {"footprint": True, "precision": "double"}}
        cfg = parse_config_dict(copy.deepcopy(raw))
        res = run_bldfm_timeseries(cfg, cfg.towers[0])
        n_runs += 1
        sc = {"kind": "timeseries", "m": m, "met": met_dict(m)}
        if len(res) != e["nsteps"]:
            chk.violation("run_bldfm_timeseries returned %d results for a forcing with %d steps (%s)" % (len(res), e["nsteps"], met_dict(m)), sc, klass=dict(klass_met(m), check="driver_steps"))
            continue
        for i, (rr, want) in enumerate(zip(res, e["log"])):
            got = step_tokens(m, rr["params"])
            want = dict(want)
            want["ts"] = list(want["ts"])
            if got != want:
                chk.violation("timeseries step %d ran with %s, the specification says %s" % (i, got, want), sc, klass=dict(klass_met(m), check="driver_params"))
                break
    # the same through the parallel driver, whose workers may each see one step only: step i still carries the i-th entries and
    # the i-th timestamp - or the index i when the forcing has no timestamps
    from bldfm import run_bldfm_parallel

    par = [e for e in valid if e["nsteps"] >= 2 and e["m"]["ts"] == ABSENT][:2] + [e for e in valid if e["nsteps"] >= 3 and e["m"]["ts"] != ABSENT][:1]
    for e in par:
        m = e["m"]
        raw = {"domain": dict(BASE_DOMAIN, modes=[8, 6], halo=20.0), "towers": [dict(TOWERS[0])], "met": met_dict(m), "solver": {"footprint": True, "precision": "double"}}
        cfg = parse_config_dict(copy.deepcopy(raw))
        for strat in ("time", "both"):
            sc = {"kind": "parallel_series", "m": m, "met": met_dict(m), "strategy": strat}
            chk.case(json.dumps(sc, sort_keys=True))
            n_runs += 1
            try:
                resp = run_bldfm_parallel(cfg, max_workers=2, parallel_over=strat)[cfg.towers[0].name]
            except Exception as ex:  # noqa: BLE001
                chk.violation("run_bldfm_parallel(%s) raised %r for a valid forcing (%s)" % (strat, ex, met_dict(m)), sc, klass=dict(klass_met(m), check="driver_parallel"))
                continue
            if len(resp) != e["nsteps"]:
                chk.violation("run_bldfm_parallel(%s) returned %d results for a forcing with %d steps" % (strat, len(resp), e["nsteps"]), sc, klass=dict(klass_met(m), check="driver_parallel"))
                continue
            for i, (rr, want) in enumerate(zip(resp, e["log"])):
                got = step_tokens(m, rr["params"])
                want = dict(want)
                want["ts"] = list(want["ts"])
                want_label = met_dict(m)["timestamps"][i] if "timestamps" in met_dict(m) else i
                if got != want or rr["timestamp"] != want_label:
                    chk.violation("run_bldfm_parallel(%s): step %d carries the label %r and ran with %s, the specification says label %r and %s" % (strat, i, rr["timestamp"], got, want_label, want), sc,
                                  klass=dict(klass_met(m), check="driver_parallel"))
                    break
    # series with REPEATED records (a constant list; a value that returns later): every step keeps its own label
    for rep_kw in ({"ustar": [0.3, 0.45, 0.3], "wind_dir": [200.0, 215.0, 200.0], "timestamps": ["a", "b", "c"]}, {"ustar": [0.31, 0.31, 0.31, 0.31]},
                   {"wind_dir": [10.0, 10.0, 350.0, 10.0], "mol": [-50.0, -50.0, -50.0, -50.0], "timestamps": ["2024-01-01T04:00", "2024-01-01T03:00", "2024-01-01T02:00", "2024-01-01T01:00"]}):
        metd = dict({"ustar": 0.3, "mol": -100.0, "wind_speed": 3.0, "wind_dir": 270.0}, **rep_kw)
        raw = {"domain": dict(BASE_DOMAIN, modes=[8, 6], halo=20.0), "towers": [dict(TOWERS[0])], "met": metd, "solver": {"footprint": True, "precision": "double"}}
        cfg = parse_config_dict(copy.deepcopy(raw))
        res = run_bldfm_timeseries(cfg, cfg.towers[0])
        n_runs += 1
        nst = max(len(v) for v in rep_kw.values())
        sc = {"kind": "repeated_records", "met": metd}
        chk.case(json.dumps(sc, sort_keys=True))
        if len(res) != nst:
            chk.violation("a series of %d records (some repeated) gives %d results" % (nst, len(res)), sc, klass={"check": "driver_steps"})
            continue
        for i, rr in enumerate(res):
            want_ts = metd["timestamps"][i] if "timestamps" in metd else i
            want_p = {f: (metd[f][i] if isinstance(metd[f], list) else metd[f]) for f in FIELDS}
            if rr["timestamp"] != want_ts or any(rr["params"][f] != want_p[f] for f in FIELDS) or rr["params"].get("timestamp", want_ts) != want_ts:
                chk.violation("series with repeated records: step %d carries the label %r / parameters %s, its own are %r / %s" % (i, rr["timestamp"], {f: rr["params"][f] for f in FIELDS}, want_ts, want_p), sc,
                              klass={"check": "driver_repeated"})
                break
    chk.traces = n_runs
    chk.extra["driver_runs"] = n_runs
    chk.extra["exhaustive"] = True
    chk.extra["synthetic_generator_cases"] = synthetic_generators(chk)
    for e in r.emitted[:: max(1, len(r.emitted) // 5)][:5]:
        chk.sample({"forcing": met_dict(e["m"]), "valid": e["valid_spec"], "nsteps": e["nsteps"], "steps": e["log"]})
    chk.assumptions.append("token instantiation is injective (distinct floats per field and index); comparisons are exact")
    return chk.finish()


# --------------------------------------------------------------------------- C13


def build_raw(o, m, square=False):
    dom = dict(BASE_DOMAIN)
    if not square and (o["ntowers"] + o["tower"] + len(o["closure"])) % 3 == 0:
        # a TALL domain (ymax > xmax): the default halo is the larger of the two extents
        dom.update(nx=6, ny=8, xmax=90.0, ymax=160.0)
    if (o["ntowers"] + 2 * o["tower"] + len(o["shape"] or "")) % 4 == 1:
        # a reference origin ON the equator / ON the Greenwich meridian (0.0 is a coordinate, not "no origin")
        dom["ref_lat"], dom["ref_lon"] = (0.0, 11.0) if o["tower"] % 2 else (50.0, 0.0)
    if square:
        # a square grid: a user-supplied (ny, nx) flux then has the shape of its own transpose
        dom.update(nx=7, ny=7, xmax=140.0, ymax=105.0)
    if o["modes"] == "explicit":
        dom["modes"] = [6, 4]
    if o["halo"] == "value":
        dom["halo"] = 40.0 if (o["ntowers"] + o["tower"]) % 2 else 0.0       # an explicit zero-width halo is a value too
    if o["levels"] == "list":
        dom["output_levels"] = [3, 1, 4]
    elif o["levels"] == "full":
        dom["full_output"] = True
    sol = {"closure": o["closure"], "precision": o["prec"], "footprint": bool(o["fp"]), "analytic": bool(o["an"]), "surface_flux_shape": o["shape"]}
    if o["srcloc"] == "value":
        sol["src_loc"] = [70.0, 30.0]
    raw = {"domain": dom, "towers": [dict(t) for t in TOWERS[: o["ntowers"]]], "met": met_dict(m), "solver": sol}
    return raw


class Recorder:
    def __init__(self, mod):
        self.mod = mod
        self.calls = []
        self.saved = {}

    def wrap(self, name):
        fn = getattr(self.mod, name)
        self.saved[name] = fn

        def w(*a, **k):
            out = fn(*a, **k)
            self.calls.append((name, a, k, out))
            return out

        setattr(self.mod, name, w)

    def restore(self):
        for n, f in self.saved.items():
            setattr(self.mod, n, f)


def same(a, b):
    """deep exact equality (bit-identical arrays, same tuple structure)"""
    if isinstance(a, (tuple, list)) and isinstance(b, (tuple, list)):
        return len(a) == len(b) and all(same(x, y) for x, y in zip(a, b))
    if isinstance(a, dict) and isinstance(b, dict):
        return a.keys() == b.keys() and all(same(a[k], b[k]) for k in a)
    if isinstance(a, np.ndarray) or isinstance(b, np.ndarray):
        a, b = np.asarray(a), np.asarray(b)
        return a.shape == b.shape and a.dtype == b.dtype and np.array_equal(a, b, equal_nan=True)
    return a == b and type(a) == type(b) or (a is None and b is None) or (isinstance(a, (int, float)) and isinstance(b, (int, float)) and a == b)


def explicit_pipeline(cfg, raw, o, m, i, tower, supplied, tower_index=None):
    """The documented low-level pipeline, called by hand with the numbers the specification names."""
    from bldfm.utils import compute_wind_fields, ideal_source
    from bldfm.pbl_model import vertical_profiles
    from bldfm.solver import steady_state_transport_solver
    from bldfm.config_parser import latlon_to_xy

    kw = met_kwargs(m)
    pick = lambda f: None if kw[f] is None else (kw[f][i] if isinstance(kw[f], list) else kw[f])
    u, v = compute_wind_fields(pick("wind_speed"), pick("wind_dir"))
    t = TOWERS[(tower_index or o["tower"]) - 1]
    dom = raw["domain"]
    if m["z0"]:
        z, prof = vertical_profiles(n=dom["nz"], meas_height=t["z_m"], wind=(u, v), z0=Z0, mol=pick("mol"), closure=o["closure"])
    else:
        z, prof = vertical_profiles(n=dom["nz"], meas_height=t["z_m"], wind=(u, v), ustar=pick("ustar"), mol=pick("mol"), closure=o["closure"])
    if supplied is not None:
        q = supplied
    else:
        q = ideal_source((dom["nx"], dom["ny"]), (dom["xmax"], dom["ymax"]), src_loc=(70.0, 30.0) if o["srcloc"] == "value" else None, shape=o["shape"])
    if o["levels"] == "list":
        levels = [3, 1, 4]
    elif o["levels"] == "full":
        levels = list(range(dom["nz"] + 1))
    else:
        levels = dom["nz"]
    x, y = latlon_to_xy(t["lat"], t["lon"], dom["ref_lat"], dom["ref_lon"])
    grid, conc, flx = steady_state_transport_solver(
        q, z, prof, (dom["xmax"], dom["ymax"]), levels,
        modes=(6, 4) if o["modes"] == "explicit" else (512, 512),
        meas_pt=(x, y), footprint=bool(o["fp"]), analytic=bool(o["an"]),
        halo=dom.get("halo"), precision=o["prec"],
    )
    ts = kw["timestamps"][i] if kw["timestamps"] is not None else i
    return {"grid": grid, "conc": conc, "flx": flx, "tower_name": t["name"], "tower_xy": (x, y), "timestamp": ts}


def _call_record_mismatch(o, m, i, want, rec, cfg, tower, supplied):
    """the recorded arguments of the four low-level calls must be the ones the specification names"""
    names = [c[0] for c in rec.calls]
    exp_names = ["compute_wind_fields", "vertical_profiles"] + ([] if o["src"] == "supplied" else ["ideal_source"]) + ["steady_state_transport_solver"]
    if names != exp_names:
        return "low-level calls %s, the specification says %s" % (names, exp_names)
    calls = {c[0]: c for c in rec.calls}
    kw = met_kwargs(m)
    tokval = lambda f, tok: None if tok == ABSENT else val(f, tok)
    # 1 wind
    _, a, k, wind_out = calls["compute_wind_fields"]
    if list(a) != [tokval("wind_speed", want["wind"]["speed"]), tokval("wind_dir", want["wind"]["dir"])] or k:
        return "compute_wind_fields called with %s" % (a,)
    # 2 profiles
    _, a, k, prof_out = calls["vertical_profiles"]
    t = TOWERS[o["tower"] - 1]
    expk = {"n": cfg.domain.nz, "meas_height": t["z_m"], "wind": wind_out, "mol": tokval("mol", want["profiles"]["mol"]), "closure": o["closure"]}
    fk, ft = want["profiles"]["forcing"]
    expk["z0" if fk == "z0" else "ustar"] = Z0 if fk == "z0" else tokval("ustar", ft)
    if a or set(k) != set(expk) or any(not (k[x] is expk[x] or same(k[x], expk[x])) for x in expk):
        return "vertical_profiles called with %s, expected %s" % ({x: k[x] for x in k if x != "wind"}, {x: expk[x] for x in expk if x != "wind"})
    # 3 source
    if o["src"] == "ideal":
        _, a, k, src_out = calls["ideal_source"]
        exp_a = [(cfg.domain.nx, cfg.domain.ny), (cfg.domain.xmax, cfg.domain.ymax)]
        exp_k = {"src_loc": (70.0, 30.0) if o["srcloc"] == "value" else None, "shape": o["shape"]}
        if list(a) != exp_a or k != exp_k:
            return "ideal_source called with %s %s, expected %s %s" % (a, k, exp_a, exp_k)
    else:
        src_out = supplied
    # 4 solver
    _, a, k, _ = calls["steady_state_transport_solver"]
    z_out, p_out = prof_out
    lv = {"output_levels": [3, 1, 4], "range(nz+1)": list(range(cfg.domain.nz + 1)), "nz": cfg.domain.nz}[want["solver"]["levels"]]
    exp = {
        "srf_flx": src_out, "z": z_out, "profiles": p_out, "domain": (cfg.domain.xmax, cfg.domain.ymax), "levels": lv,
        "modes": (6, 4) if o["modes"] == "explicit" else (512, 512), "meas_pt": (tower.x, tower.y),
        "footprint": bool(o["fp"]), "analytic": bool(o["an"]), "halo": cfg.domain.halo,
        "precision": o["prec"], "cache": None,
    }
    if a or set(k) != set(exp):
        return "solver called with positional args or keys %s" % sorted(k)
    for x in exp:
        if x in ("srf_flx", "z", "profiles"):
            if k[x] is not exp[x]:
                return "solver argument %s is not the object returned by the previous step" % x
        elif not same(k[x], exp[x]) and not (x == "modes" and tuple(k[x]) == tuple(exp[x])):
            return "solver argument %s = %r, the specification says %r" % (x, k[x], exp[x])
    return None


def check_call_records(chk, o, m, i, want, rec, cfg, tower, supplied, sc):
    """Code -> specification: the recorded low-level calls against the call records of Config.tla.

    HOW the pipeline calls its steps (positional or keyword arguments, the same array object or an equal copy, an
    explicit default, a memoised step) is the specification's form, not the property's: a mismatch is reported as
    drift and the comparison of the result with the explicit pipeline decides (alarm policy, DESIGN 3.4).
    """
    msg = _call_record_mismatch(o, m, i, want, rec, cfg, tower, supplied)
    if msg:
        chk.drift_note("call records (%s, step %d): %s" % (o, i, msg))
    return False


# (given value, falsy value) per optional key; None = the key has no falsy value that is legitimate input
KEY_VALUES = {
    "domain.modes": ([64, 32], None), "domain.halo": (35.0, 0.0), "domain.ref_lat": (47.5, 0.0), "domain.ref_lon": (8.25, 0.0),
    "domain.output_levels": ([1, 2], None), "domain.full_output": (True, False),
    "met.ustar": (0.42, None), "met.mol": (-75.0, None), "met.wind_speed": (6.5, 0.0), "met.wind_dir": (123.0, 0.0),
    "met.z0": (0.03, None), "met.timestamps": (["2024-01-01T00:00"], None),
    "solver.closure": ("MOSTM", None), "solver.precision": ("double", None), "solver.footprint": (True, False),
    "solver.surface_flux_shape": ("circle", None), "solver.analytic": (True, False), "solver.src_loc": ([10.0, 20.0], None),
    "output.format": ("csv", None), "output.directory": ("/tmp/somewhere", None),
    "parallel.num_threads": (3, 0), "parallel.max_workers": (5, 0), "parallel.use_cache": (True, False),
}


def defaults_scenarios(chk):
    """C13 (defaults): TLC enumerates presence patterns of every optional key; parse_config_dict must keep what is given
    (also values Python treats as false) and fill in the documented default for what is absent"""
    from bldfm.config_parser import parse_config_dict

    r = run_tlc("Config", "MC_Defaults", workers=4, env={"EMIT_EVERY": "1", "EMIT_PHASE": "0"})
    chk.add_tlc("MC_Defaults", r)
    if not r.ok:
        raise MachineryError("MC_Defaults: %s violated" % r.violated)
    n = 0
    for e in r.emitted:
        sc = e["sc"]
        raw = {"domain": {"nx": 8, "ny": 6, "xmax": 160.0, "ymax": 90.0, "nz": 4}, "towers": [{"name": "T", "lat": 47.5001, "lon": 8.2502, "z_m": 9.0}], "met": {}}
        given = {}
        for k in sorted(KEY_VALUES):
            form = sc["form"] if k == sc["key"] else sc["others"]
            if form == "absent":
                continue
            val, falsy = KEY_VALUES[k]
            v = falsy if (form == "falsy" and falsy is not None) else val
            sec, key = k.split(".")
            raw.setdefault(sec, {})[key] = v
            given[k] = v
        if "met.ustar" not in given and "met.z0" not in given:
            raw["met"]["ustar"] = 0.3      # a forcing needs one of the two; the key under test is then compared as given
            given["met.ustar"] = 0.3
        try:
            cfg = parse_config_dict(copy.deepcopy(raw))
        except Exception as ex:
            chk.violation("parse_config_dict raised %r for %s" % (ex, raw), {"kind": "defaults", "sc": sc, "raw": raw}, klass={"check": "defaults_exception"})
            continue
        n += 1
        chk.case(json.dumps(sc, sort_keys=True))
        for k, exp in e["expect"].items():
            sec, key = k.split(".")
            got = getattr(getattr(cfg, sec), key)
            if k in given:
                want = given[k]
                ok = (tuple(got) == tuple(want)) if isinstance(want, list) else (got == want and type(got) == type(want))
                if not ok:
                    chk.violation("configuration key %s was given as %r but parsed as %r" % (k, want, got), {"kind": "defaults", "sc": sc, "raw": raw, "key": k}, klass={"check": "given_not_kept", "key": k})
                    break
            else:
                if repr(got) != exp[1]:
                    chk.violation("absent configuration key %s parsed as %r, the documented default is %s" % (k, got, exp[1]), {"kind": "defaults", "sc": sc, "raw": raw, "key": k}, klass={"check": "default_value", "key": k})
                    break
    chk.extra["default_scenarios"] = n


def main_single():
    import bldfm
    import bldfm.interface as iface
    import yaml
    from bldfm.config_parser import parse_config_dict, load_config

    chk = Check("C13")
    t = tier()
    every = 150 if t == "quick" else 12
    r = run_tlc("Config", "MC_Single", env={"EMIT_EVERY": str(every), "EMIT_PHASE": str(seed()), "JAVA_TOOL_OPTIONS": "-XX:+UseParallelGC -Xmx8g"}, timeout=1800)
    chk.add_tlc("MC_Single", r)
    if not r.ok:
        raise MachineryError("MC_Single: %s violated" % r.violated)
    chk.rule = ("TLC enumerates the option lattice (closure x precision x footprint x analytic x halo x modes x levels x source x src_loc x shape x towers) x forcing patterns x steps "
                "and checks the call-record invariants on all of it; every %d-th lattice point (phase = seed) is replayed: recorded arguments of the four low-level calls "
                "vs the specification's records, then high-level result vs the explicit pipeline bit-identically, then YAML vs dict" % every)
    d = common.scratch("c13_yaml")
    rng = np.random.default_rng(seed() + 5)
    nsup = 0
    global Z0
    nz0 = 0
    nboth = 0
    for e in r.emitted:
        o, m = e["o"], e["m"]
        if e["outcome"] != "done":
            continue
        # the roughness length of z0-forced points: an ordinary one, water / snow (0.3 mm), tall forest (2.5 m) - whatever the
        # configuration says is what the run uses
        nz0 += bool(m["z0"])
        Z0 = [0.07, 0.0003, 2.5][nz0 % 3] if m["z0"] else 0.07
        nsup += o["src"] == "supplied"
        raw = build_raw(o, m, square=(o["src"] == "supplied" and nsup % 2 == 1))
        cfg = parse_config_dict(copy.deepcopy(raw))
        cfg_before = copy.deepcopy(cfg)
        tower = cfg.towers[o["tower"] - 1]
        # a supplied flux map defines its own raster: every third one has other cell counts than the configuration's nx, ny
        sup_shape = (raw["domain"]["ny"] + 2, raw["domain"]["nx"] + 4) if nsup % 3 == 2 else (raw["domain"]["ny"], raw["domain"]["nx"])
        supplied = rng.uniform(-1, 2, size=sup_shape) if o["src"] == "supplied" else None
        supplied_before = None if supplied is None else supplied.copy()
        # YAML and dictionary parse to the same configuration
        yp = os.path.join(d, "c.yaml")
        with open(yp, "w") as f:
            yaml.safe_dump(raw, f)
        cfg_y = load_config(yp)
        chk.case(json.dumps([o, m], sort_keys=True))
        if cfg_y != cfg:
            chk.violation("load_config(yaml) differs from parse_config_dict(dict)", {"kind": "yaml", "o": o, "m": m, "raw": raw}, klass={"check": "yaml"})
            continue
        # ... also when names and time labels are strings that LOOK like numbers ('4711', '0930', '1e3'): a label is a label
        raw_n = copy.deepcopy(raw)
        raw_n["towers"][0]["name"] = "4711"
        nts = len(raw_n["met"].get("timestamps") or [])
        if nts:
            raw_n["met"]["timestamps"] = (["0930", "1e3", "20240715", "1000", "007"] * nts)[:nts]
        with open(yp, "w") as f:
            yaml.safe_dump(raw_n, f)
        try:
            cfg_yn, cfg_n = load_config(yp), parse_config_dict(copy.deepcopy(raw_n))
            labels_n = [cfg_yn.met.get_step(i_)["timestamp"] for i_ in range(cfg_yn.met.n_timesteps)] if nts else []
            if cfg_yn != cfg_n or cfg_yn.towers[0].name != "4711" or (nts and labels_n != raw_n["met"]["timestamps"]):
                chk.violation("a configuration file whose tower name / time labels are numeric-looking strings loads as name %r, labels %r (written: '4711', %r)" % (cfg_yn.towers[0].name, labels_n, raw_n["met"].get("timestamps")),
                              {"kind": "yaml_labels", "o": o, "m": m, "raw": raw_n}, klass={"check": "yaml_labels"})
                continue
        except Exception as ex:  # noqa: BLE001
            chk.violation("a configuration file with numeric-looking string labels raised %r" % ex, {"kind": "yaml_labels", "o": o, "m": m, "raw": raw_n}, klass={"check": "yaml_labels"})
            continue
        # BOTH level options set (output_levels and full_output: true): the property names three exclusive cases and is silent on
        # this one; the code lets the list win - a change of that precedence is reported as drift, never as a violation
        if o["levels"] == "list" and nboth < 3:
            nboth += 1
            raw_b = copy.deepcopy(raw)
            raw_b["domain"]["full_output"] = True
            try:
                hb = iface.run_bldfm_single(parse_config_dict(raw_b), parse_config_dict(raw_b).towers[o["tower"] - 1], met_index=0, surface_flux=supplied)
                if np.shape(hb["conc"])[0] != len(raw_b["domain"]["output_levels"]):
                    chk.drift_note("output_levels %s together with full_output: true returns %d levels (the list used to win)" % (raw_b["domain"]["output_levels"], np.shape(hb["conc"])[0]))
            except Exception as ex:  # noqa: BLE001
                chk.drift_note("output_levels together with full_output: true raised %r" % ex)
        for i, want in enumerate(e["log"]):
            sc = {"kind": "single", "o": o, "m": m, "step": i, "raw": raw}
            rec = Recorder(iface)
            for n in ("compute_wind_fields", "vertical_profiles", "ideal_source", "steady_state_transport_solver"):
                rec.wrap(n)
            err_hi = None
            try:
                hi = iface.run_bldfm_single(cfg, tower, met_index=i, surface_flux=supplied)
            except Exception as ex:
                err_hi = ex
            finally:
                rec.restore()
            err_lo = None
            try:
                lo = explicit_pipeline(cfg, raw, o, m, i, tower, supplied)
            except Exception as ex:
                err_lo = ex
            chk.traces += 1
            if err_hi is not None or err_lo is not None:
                if type(err_hi) is not type(err_lo):
                    chk.violation("high-level run raised %r, explicit pipeline raised %r" % (err_hi, err_lo), sc, klass={"check": "exceptions"})
                continue
            if check_call_records(chk, o, m, i, want, rec, cfg, tower, supplied, sc):
                continue
            bad = [k for k in ("grid", "conc", "flx", "tower_name", "tower_xy", "timestamp") if not same(hi[k], lo[k])]
            if bad:
                chk.violation("run_bldfm_single differs from the explicit pipeline in %s" % bad, sc, klass={"check": "result", "fields": ",".join(bad)})
                continue
            got = step_tokens(m, hi["params"])
            w = dict(want["meta"]["params"])
            w["ts"] = list(w["ts"])
            if got != w:
                chk.violation("result params %s, the specification says %s" % (got, w), sc, klass={"check": "params"})
            # the same step for another tower of the configuration, in the same process (SingleCall names the tower's
            # own height and position: whatever the earlier call left behind must not leak into this one)
            if o["ntowers"] > 1:
                other = o["tower"] % o["ntowers"] + 1
                try:
                    hi2 = iface.run_bldfm_single(cfg, cfg.towers[other - 1], met_index=i, surface_flux=supplied)
                    lo2 = explicit_pipeline(cfg, raw, o, m, i, tower, supplied, tower_index=other)
                except Exception as ex:
                    chk.violation("the same step for a second tower raised %r" % ex, dict(sc, second_tower=other), klass={"check": "second_tower_exception"})
                    continue
                chk.traces += 1
                bad = [k for k in ("grid", "conc", "flx", "tower_name", "tower_xy", "timestamp") if not same(hi2[k], lo2[k])]
                if bad:
                    chk.violation("after a run for tower %d, the run for tower %d of the same step differs from the explicit pipeline in %s" % (o["tower"], other, bad),
                                  dict(sc, second_tower=other), klass={"check": "result_second_tower", "fields": ",".join(bad)})
        # a run reads its configuration and its flux: neither may be changed by it (the next run would see the change)
        if cfg != cfg_before or (supplied is not None and not np.array_equal(supplied, supplied_before)):
            chk.violation("run_bldfm_single modifies %s it is given" % ("the configuration" if cfg != cfg_before else "the surface-flux array"),
                          {"kind": "single", "o": o, "m": m, "raw": raw}, klass={"check": "inputs_modified"})
    defaults_scenarios(chk)
    chk.extra["lattice_points_replayed"] = len(r.emitted)
    for e in r.emitted[:3]:
        chk.sample({"options": e["o"], "forcing": met_dict(e["m"]), "first_call_record": e["log"][0] if e["log"] else None})
    chk.assumptions += ["the explicit pipeline is called with the numbers the specification's record names; equality is bit-identical (same operations in the same order)"]
    return chk.finish()
