"""C17: tower geolocation - local metres and lat/lon are mutual inverses, well oriented.

spec/Geo.tla states the two equirectangular transforms as exact rational maps on a lattice of angular offsets and the
filling of the towers' local coordinates at configuration time; TLC checks RoundTripLL, RoundTripXY, Oriented, OwnPosition
and Scale.  Every emitted state (reference latitude class, presence of a reference origin, one or two towers on the lattice)
is instantiated with real angles and run through parse_config_dict / latlon_to_xy / xy_to_latlon; the lattice coordinates
the specification assigns to each tower are compared with the code's metres, the inverse must return the angles, and the
local distance and bearing are compared with the great-circle distance and initial bearing (0.1 percent, 0.1 degree).
"""

import json
import math

import numpy as np

from .common import Check, MachineryError, run_tlc, seed, tier

R = 6_371_000.0
LAT = {"eq": 0.0, "n37": math.degrees(math.acos(0.8)), "s37": -math.degrees(math.acos(0.8)), "n60": 60.0, "s60": -60.0}
EXTRA_LAT = {"eq": [0.0, 7.3, -12.0], "n37": [36.87, 45.3, 28.1], "s37": [-36.87, -41.0, -23.5], "n60": [60.0, 52.4, 58.9], "s60": [-60.0, -54.8, -59.99]}
LONS = [-179.95, -73.2, 0.0, 13.4, 179.95, 101.7]
UNITS = [0.0005, 0.005, 0.015, 0.0117]           # lattice unit in degrees of latitude; the longitude unit is unit / cos(ref)


def haversine(lat1, lon1, lat2, lon2):
    p1, p2 = math.radians(lat1), math.radians(lat2)
    dl = math.radians(lon2 - lon1)
    a = math.sin((p2 - p1) / 2) ** 2 + math.cos(p1) * math.cos(p2) * math.sin(dl / 2) ** 2
    d = 2 * R * math.asin(math.sqrt(a))
    b = math.degrees(math.atan2(math.sin(dl) * math.cos(p2), math.cos(p1) * math.sin(p2) - math.sin(p1) * math.cos(p2) * math.cos(dl))) % 360.0
    return d, b


def qf(q):
    return q[0] / q[1]


def run_state(chk, e, k):
    from bldfm import parse_config_dict
    from bldfm.config_parser import latlon_to_xy
    from bldfm.plotting._geo import xy_to_latlon

    cls = e["ref"]["class"]
    present = e["ref"]["present"]
    exact = k % 3 == 0
    ref_lat = LAT[cls] if exact else EXTRA_LAT[cls][k % 3]
    ref_lon = LONS[k % len(LONS)]
    unit = UNITS[(k // 3) % len(UNITS)]
    unit_lon = unit / math.cos(math.radians(ref_lat))
    towers = []
    for i, tw in enumerate(e["towers"]):
        towers.append({"name": "t%d" % i, "lat": ref_lat + tw["dlat"] * unit, "lon": ref_lon + tw["dlon"] * unit_lon, "z_m": 3.0})
    raw = {"domain": {"nx": 8, "ny": 8, "xmax": 100.0, "ymax": 100.0, "nz": 4}, "towers": towers, "met": {"ustar": 0.3, "wind_speed": 3.0, "wind_dir": 270.0}}
    if present:
        raw["domain"]["ref_lat"], raw["domain"]["ref_lon"] = ref_lat, ref_lon
    sc = {"kind": "geo", "state": e, "ref_lat": ref_lat, "ref_lon": ref_lon, "unit_deg": unit}
    chk.case(json.dumps([e, k % 72], sort_keys=True))
    cfg = parse_config_dict(raw)
    n = 1
    for i, (tw, got) in enumerate(zip(e["towers"], cfg.towers)):
        if not present:
            if got.x != 0.0 or got.y != 0.0:
                chk.violation("without a reference origin tower %d has local coordinates (%r, %r)" % (i, got.x, got.y), sc, klass={"check": "no_ref"})
            continue
        # the specification's lattice coordinates in metres: x = R cos(ref) dlon, y = R dlat
        wx = R * math.radians(tw["dlon"] * unit_lon) * math.cos(math.radians(ref_lat))
        wy = R * math.radians(tw["dlat"] * unit)
        if exact:
            # the model's rational cosine is the real one for the exact classes: its x is the code's x
            mx = qf(tw["x"]) * R * math.radians(unit_lon)
            my = qf(tw["y"]) * R * math.radians(unit)
            if abs(mx - wx) > 1e-9 * max(1.0, abs(wx)) or abs(my - wy) > 1e-9 * max(1.0, abs(wy)):
                raise MachineryError("Geo.tla and the harness disagree on a tower position: %r vs %r" % ((mx, my), (wx, wy)))
        tol = 1e-8 * max(abs(wx), abs(wy)) + 2e-6            # metres (differences of angles near 180 degrees carry 1e-9 m rounding)
        # the exact equirectangular form is the specification's, not the property's (another projection that is its own
        # inverse and agrees with the great circle would do): a difference is reported as drift, the property checks follow
        if abs(got.x - wx) > tol or abs(got.y - wy) > tol:
            chk.drift_note("tower %d at offsets (dlat %+d, dlon %+d) lattice units gets local (%.6f, %.6f) m, the specification's transform gives (%.6f, %.6f) m"
                           % (i, tw["dlat"], tw["dlon"], got.x, got.y, wx, wy))
        if tw["dlat"] == 0 and tw["dlon"] == 0 and (got.x != 0.0 or got.y != 0.0):
            chk.violation("a tower at the reference origin gets local (%r, %r)" % (got.x, got.y), sc, klass={"check": "origin"})
            continue
        # orientation
        sx = (got.x > 0) - (got.x < 0)
        sy = (got.y > 0) - (got.y < 0)
        if sx != (tw["dlon"] > 0) - (tw["dlon"] < 0) or sy != (tw["dlat"] > 0) - (tw["dlat"] < 0):
            chk.violation("orientation: a tower %s/%s of the reference has local (%.3f, %.3f)" % ("east" if tw["dlon"] > 0 else "west" if tw["dlon"] < 0 else "-", "north" if tw["dlat"] > 0 else "south" if tw["dlat"] < 0 else "-", got.x, got.y),
                          sc, klass={"check": "orientation"})
            continue
        # inverse
        lat2, lon2 = xy_to_latlon(got.x, got.y, ref_lat, ref_lon)
        n += 1
        if abs(float(lat2) - got.lat) > 1e-10 or abs(float(lon2) - got.lon) > 1e-10:
            chk.violation("lat/lon -> local -> lat/lon returns (%.12f, %.12f) for (%.12f, %.12f)" % (lat2, lon2, got.lat, got.lon), sc, klass={"check": "round_trip_ll"})
            continue
        # great circle
        d, b = haversine(ref_lat, ref_lon, got.lat, got.lon)
        dl = math.hypot(got.x, got.y)
        if d > 0 and dl <= 5000.0 and abs(ref_lat) <= 60.0:
            bl = math.degrees(math.atan2(got.x, got.y)) % 360.0
            db = abs((bl - b + 180.0) % 360.0 - 180.0)
            if abs(dl - d) > 1e-3 * d or db > 0.1:
                chk.violation("local distance %.3f m / bearing %.4f deg, great circle %.3f m / %.4f deg (ref_lat %.2f)" % (dl, bl, d, b, ref_lat), sc, klass={"check": "great_circle"})
    return n


def lattice_xy(chk, rng, count):
    """local -> lat/lon -> local, scalars and arrays, at arbitrary reference points and offsets up to 5 km"""
    from bldfm.config_parser import latlon_to_xy
    from bldfm.plotting._geo import xy_to_latlon

    n = 0
    for i in range(count):
        ref_lat = float(rng.uniform(-60, 60)) if i % 5 else [0.0, 60.0, -60.0, 45.0, -0.0][i // 5 % 5]
        ref_lon = float(rng.uniform(-180, 180)) if i % 7 else [-179.99, 179.99, 0.0][i // 7 % 3]
        r = float(10 ** rng.uniform(-2, math.log10(5000.0)))          # centimetres to kilometres
        th = float(rng.uniform(0, 2 * math.pi)) if i % 3 else [0.0, math.pi / 2, math.pi, 1.5 * math.pi][i // 3 % 4]
        x, y = r * math.sin(th), r * math.cos(th)
        sc = {"kind": "geo_xy", "ref_lat": ref_lat, "ref_lon": ref_lon, "x": x, "y": y}
        chk.case(json.dumps(sc, sort_keys=True))
        lat, lon = xy_to_latlon(x, y, ref_lat, ref_lon)
        x2, y2 = latlon_to_xy(float(lat), float(lon), ref_lat, ref_lon)
        n += 1
        if abs(x2 - x) > 1e-8 * r + 2e-6 or abs(y2 - y) > 1e-8 * r + 2e-6:
            chk.violation("local -> lat/lon -> local returns (%.6f, %.6f) for (%.6f, %.6f) at ref_lat %.3f" % (x2, y2, x, y, ref_lat), sc, klass={"check": "round_trip_xy"})
            continue
        if (float(lon) > ref_lon) != (x > 0) and abs(x) > 1e-6 or (float(lat) > ref_lat) != (y > 0) and abs(y) > 1e-6:
            chk.violation("orientation of the inverse: (x, y) = (%.3f, %.3f) maps to dlat %+.3g, dlon %+.3g" % (x, y, float(lat) - ref_lat, float(lon) - ref_lon), sc, klass={"check": "orientation_inverse"})
            continue
        if i % 3 == 0:
            # call history: the same position against ANOTHER reference origin, then the first one again
            ref2 = [(ref_lat + 0.013, ref_lon - 0.021), (ref_lat, ref_lon - 0.021), (ref_lat + 0.013, ref_lon)][(i // 3) % 3]      # another origin; same parallel; same meridian
            xa, ya = latlon_to_xy(float(lat), float(lon), ref2[0], ref2[1])
            lat_b, lon_b = xy_to_latlon(xa, ya, ref2[0], ref2[1])
            o2 = latlon_to_xy(ref2[0], ref2[1], ref2[0], ref2[1])
            if o2 != (0.0, 0.0):
                chk.violation("after conversions against another origin, the new reference origin maps to %r" % (o2,), dict(sc, second_reference=ref2), klass={"check": "call_history_origin"})
                continue
            x3, y3 = latlon_to_xy(float(lat), float(lon), ref_lat, ref_lon)
            n += 1
            if abs(float(lat_b) - float(lat)) > 1e-10 or abs(float(lon_b) - float(lon)) > 1e-10 or (x3, y3) != (x2, y2):
                chk.violation("the same position converted against a second reference origin does not round-trip (or the repeated first conversion differs): %r vs %r" % ((float(lat_b), float(lon_b)), (float(lat), float(lon))),
                              dict(sc, second_reference=ref2), klass={"check": "call_history"})
                continue
        d, b = haversine(ref_lat, ref_lon, float(lat), float(lon))
        bl = math.degrees(th) % 360.0
        db = abs((bl - b + 180.0) % 360.0 - 180.0)
        if abs(r - d) > 1e-3 * d + 1e-6 or (db > 0.1 and r > 10.0):
            chk.violation("inverse: local distance %.3f m / bearing %.4f deg, great circle to the returned point %.3f m / %.4f deg (ref_lat %.2f)" % (r, bl, d, b, ref_lat), sc, klass={"check": "great_circle_inverse"})
    # arrays through the inverse (documented as vectorised) agree with the scalars
    xs = rng.uniform(-4000, 4000, size=(3, 5))
    ys = rng.uniform(-4000, 4000, size=(3, 5))
    xs0, ys0 = xs.copy(), ys.copy()
    la, lo = xy_to_latlon(xs, ys, 47.2, 11.3)
    if not (np.array_equal(xs, xs0) and np.array_equal(ys, ys0)):
        chk.violation("xy_to_latlon modifies the coordinate arrays it is given (the metre grid is overwritten)", {"kind": "geo_arrays"}, klass={"check": "arrays_modified"})
        xs, ys = xs0.copy(), ys0.copy()
    ok = np.shape(la) == xs.shape and all(
        (float(la[i, j]), float(lo[i, j])) == tuple(float(v) for v in xy_to_latlon(float(xs[i, j]), float(ys[i, j]), 47.2, 11.3)) for i in range(3) for j in range(5))
    if not ok:
        chk.violation("xy_to_latlon of arrays differs from the scalar results", {"kind": "geo_arrays"}, klass={"check": "arrays"})
    # whole-metre offsets given as INTEGERS (Python ints, integer arrays such as an np.arange / np.meshgrid grid): the same
    # positions as the float offsets, and the round trip holds
    for ref in ((47.2031, 11.3052), (-33.4567, 151.2093)):
        xi, yi = np.meshgrid(np.arange(-2000, 2001, 800), np.arange(-1500, 1501, 600))
        ys_line = np.linspace(-3000.0, 3000.0, 7)
        forms = [("integer arrays", xi, yi), ("Python ints", 300, -400), ("Python ints at the origin", 0, 0), ("integer x, float y", 300, -400.0),
                 ("a scalar x with an array of y (points along a meridian)", 0.0, ys_line), ("an array of x with a scalar y (points along a parallel)", ys_line, 250.0),
                 ("a column of x against a row of y (broadcast)", ys_line[:, None], ys_line[None, :3])]
        for what, xa, ya in forms:
            n += 1
            try:
                la_i, lo_i = xy_to_latlon(xa, ya, ref[0], ref[1])
                la_f, lo_f = xy_to_latlon(np.asarray(xa, dtype=float), np.asarray(ya, dtype=float), ref[0], ref[1])
                la_b, lo_b = np.broadcast_arrays(np.asarray(la_i, dtype=float), np.asarray(lo_i, dtype=float))
                back_xy = [latlon_to_xy(float(a_), float(o_), ref[0], ref[1]) for a_, o_ in zip(np.ravel(la_b), np.ravel(lo_b))]   # the forward transform takes scalars
                xb = np.array([b_[0] for b_ in back_xy]).reshape(np.shape(la_b))
                yb = np.array([b_[1] for b_ in back_xy]).reshape(np.shape(la_b))
                if np.shape(la_b) != np.broadcast(np.asarray(xa), np.asarray(ya)).shape:
                    chk.violation("offsets given as %s: %d positions go in, %d come out" % (what, np.broadcast(np.asarray(xa), np.asarray(ya)).size, np.size(la_b)),
                                  {"kind": "geo_integer_offsets", "form": what, "ref": ref}, klass={"check": "integer_offsets"})
                    continue
                la_f, lo_f = np.broadcast_arrays(np.asarray(la_f, dtype=float), np.asarray(lo_f, dtype=float))
                la_i, lo_i = la_b, lo_b
            except Exception as ex:  # noqa: BLE001
                chk.violation("xy_to_latlon of %s raised %r" % (what, ex), {"kind": "geo_integer_offsets", "form": what, "ref": ref}, klass={"check": "integer_offsets"})
                continue
            bad = float(np.max(np.abs(np.asarray(la_i, dtype=float) - la_f))) > 1e-12 or float(np.max(np.abs(np.asarray(lo_i, dtype=float) - lo_f))) > 1e-12
            back = float(np.max(np.abs(np.asarray(xb) - np.asarray(xa, dtype=float)))) > 1e-5 or float(np.max(np.abs(np.asarray(yb) - np.asarray(ya, dtype=float)))) > 1e-5
            if bad or back:
                chk.violation("offsets given as %s: local -> lat/lon differs from the same offsets as floats by up to %.3g deg, and the round trip is off by up to %.3g m (reference %s)"
                              % (what, max(float(np.max(np.abs(np.asarray(la_i, dtype=float) - la_f))), float(np.max(np.abs(np.asarray(lo_i, dtype=float) - lo_f)))),
                                 max(float(np.max(np.abs(np.asarray(xb) - np.asarray(xa, dtype=float)))), float(np.max(np.abs(np.asarray(yb) - np.asarray(ya, dtype=float))))), ref),
                              {"kind": "geo_integer_offsets", "form": what, "ref": ref}, klass={"check": "integer_offsets"})
    # a LARGE fine raster (a 300 x 300 map of one-metre cells, plain Python floats as reference): every cell comes back where the
    # scalar transform puts it, and neighbouring cells are one metre apart
    xr, yr = np.meshgrid(np.arange(-150.0, 150.0, 1.0), np.arange(-150.0, 150.0, 1.0))
    for ref in ((47.2031, 11.3052), (-33.4567, 151.2093)):
        n += 1
        la_r, lo_r = xy_to_latlon(xr, yr, ref[0], ref[1])
        worst = 0.0
        for j_, i_ in ((0, 0), (299, 299), (150, 151), (17, 233), (233, 17), (150, 150)):
            ls, os_ = xy_to_latlon(float(xr[j_, i_]), float(yr[j_, i_]), ref[0], ref[1])
            worst = max(worst, abs(float(la_r[j_, i_]) - float(ls)), abs(float(lo_r[j_, i_]) - float(os_)))
        xb_, yb_ = latlon_to_xy(float(la_r[150, 151]), float(lo_r[150, 151]), ref[0], ref[1])
        xa_, ya_ = latlon_to_xy(float(la_r[150, 150]), float(lo_r[150, 150]), ref[0], ref[1])
        step = math.hypot(xb_ - xa_, yb_ - ya_)
        if np.shape(la_r) != xr.shape or worst > 1e-11 or abs(step - 1.0) > 1e-5:
            chk.violation("a 300 x 300 raster of one-metre cells through xy_to_latlon: cells differ from the scalar transform by up to %.3g deg, neighbouring cells come back %.6f m apart (reference %s)" % (worst, step, ref),
                          {"kind": "geo_large_raster", "ref": ref}, klass={"check": "large_raster"})
    # the same TowerConfig objects in a second configuration with another reference origin, and re-localised in place
    from bldfm.config_parser import BLDFMConfig, DomainConfig, MetConfig, TowerConfig
    tw = [TowerConfig(name="a", lat=47.2031, lon=11.3052, z_m=3.0), TowerConfig(name="b", lat=47.1975, lon=11.2969, z_m=5.0)]
    for ref in ((47.2, 11.3), (47.19, 11.31), (47.2, 11.31)):
        cfg2 = BLDFMConfig(domain=DomainConfig(nx=8, ny=8, xmax=100.0, ymax=100.0, nz=4, ref_lat=ref[0], ref_lon=ref[1]), towers=tw, met=MetConfig(ustar=0.3))
        for t_ in cfg2.towers:
            want = latlon_to_xy(t_.lat, t_.lon, ref[0], ref[1])
            n += 1
            if (t_.x, t_.y) != want:
                chk.violation("tower %s re-used in a configuration with reference origin %s keeps local coordinates (%.3f, %.3f); its position gives (%.3f, %.3f)" % (t_.name, ref, t_.x, t_.y, want[0], want[1]),
                              {"kind": "geo_tower_reuse", "ref": ref}, klass={"check": "tower_reuse"})
    o = latlon_to_xy(47.2, 11.3, 47.2, 11.3)
    if o != (0.0, 0.0):
        chk.violation("the reference origin maps to %r" % (o,), {"kind": "geo_origin"}, klass={"check": "origin"})
    return n


def main():
    chk = Check("C17")
    t = tier()
    r = run_tlc("Geo", "MC_Geo", workers=8)
    chk.add_tlc("MC_Geo", r)
    if not r.ok:
        raise MachineryError("MC_Geo: %s violated" % r.violated)
    if t == "thorough":
        for neg in ("MC_Geo_neg_cos", "MC_Geo_neg_axes", "MC_Geo_neg_fill"):
            rn = run_tlc("Geo", neg, workers=4)
            chk.add_tlc(neg, rn, expect_violation=True)
            if rn.ok:
                raise MachineryError("negative control %s was not violated" % neg)
    chk.rule = ("TLC enumerates reference latitude class x reference present/absent x one or two towers on a 5x5 lattice of offsets; every state is instantiated "
                "with real angles (exact-cosine latitudes and others, six reference longitudes incl. +-179.95, four lattice units up to 1.7 km) and run through "
                "parse_config_dict, latlon_to_xy, xy_to_latlon; distinct = distinct (state, instantiation) pairs")
    em = sorted(r.emitted, key=lambda e: json.dumps(e, sort_keys=True))
    rng = np.random.default_rng(seed())
    reps = 1 if t == "quick" else 6
    n = 0
    for rep in range(reps):
        for i, e in enumerate(em):
            n += run_state(chk, e, i + 13 * rep + 5 * seed())
            if len(chk.violations) > 60:
                break
    n += lattice_xy(chk, rng, 400 if t == "quick" else 20000)
    chk.traces = len(em) * reps
    chk.extra["states_from_tlc"] = len(em)
    chk.extra["calls"] = n
    chk.sample(em[len(em) // 2])
    chk.assumptions += [
        "offsets up to 5 km, |latitude| <= 60 degrees for the great-circle comparison (sphere of radius 6 371 000 m, haversine)",
        "longitudes are not normalised by the code: a tower and a reference on opposite sides of the antimeridian are outside what is exercised",
        "arrays are exercised on the inverse (documented as vectorised); the forward transform is scalar (math module)",
    ]
    return chk.finish()
