"""C15: the Green's-function cache is transparent, complete, effective and crash-safe.

TLC explores spec/Cache.tla (every scenario x every crash point) and emits the log of each complete
behaviour; the harness executes each log on the real solver with a real cache directory and compares,
operation by operation: the returned fields (bit-identical to the cache-free solve), hit / solved,
and that nothing raises.  Stored entries are truncated at byte offsets to model interrupted runs.
"""

import glob
import io
import json
import os
import shutil
import subprocess
import sys

import numpy as np

from . import common
from .common import Check, MachineryError, run_tlc, seed, tier

PARAMS = ["srcvals", "shape", "z", "profiles", "domain", "levels", "modes", "meas_pt", "bg", "analytic", "halo", "precision"]


class SimulatedCrash(BaseException):
    pass


def concrete(req):
    """model request (dict param -> 0/1, halo 0/1/2) -> (srf_flx, kwargs) of the real solver"""
    from . import realsolver as rs

    nz = 5
    z, prof = rs.profiles("most_u", nz)
    if req["z"]:
        z = z * 1.125
    if req["profiles"]:
        z2, prof = rs.profiles("mostm", nz)
    ny, nx = (6, 10) if req["shape"] else (6, 8)
    rng = np.random.default_rng(7)
    q = rng.uniform(0, 1, size=(ny, nx))
    if req["srcvals"]:
        q = q * 2.0 + 1.0
    domain = (100.0, 90.0) if req["domain"] else (80.0, 90.0)
    halo = {0: None, 1: max(domain), 2: 20.0, 3: 0.0}[req["halo"]]
    kw = dict(
        z=z, profiles=prof, domain=domain, levels=[3] if req["levels"] else [2], modes=((6, 4) if req["domain"] else (12, 10)) if req["modes"] else (8, 6),      # below the source grid / between source and padded grid / the source grid
        meas_pt=(30.0, 30.0) if req["meas_pt"] else (20.0, 30.0), srf_bg_conc=0.5 if req["bg"] else 0.0,
        footprint=True, analytic=bool(req["analytic"]), halo=halo, precision="double" if req["precision"] else "single",
    )
    return q, kw


def call_solver(q, kw, cache=None):
    from bldfm.solver import steady_state_transport_solver

    k = dict(kw)
    return steady_state_transport_solver(q, k.pop("z"), k.pop("profiles"), k.pop("domain"), k.pop("levels"), cache=cache, **k)


def same_result(a, b):
    (ga, ca, fa), (gb, cb, fb) = a, b
    ok = all(np.array_equal(np.asarray(x), np.asarray(y)) for x, y in zip(ga, gb))
    return ok and np.array_equal(np.asarray(ca), np.asarray(cb)) and np.array_equal(np.asarray(fa), np.asarray(fb)) and np.asarray(ca).shape == np.asarray(cb).shape


def make_recording_cache(cache_dir):
    from bldfm.cache import GreensFunctionCache

    class Rec(GreensFunctionCache):
        def __init__(self, d):
            super().__init__(d)
            self.gets = []
            self.puts = 0

        def get(self, *a, **k):
            out = super().get(*a, **k)
            self.gets.append(out is not None)
            return out

        def put(self, *a, **k):
            self.puts += 1
            return super().put(*a, **k)

    return Rec(cache_dir)


class CrashingSavez:
    """stand-in for numpy.savez inside bldfm.cache: writes the first part of the archive, then the process 'dies'"""

    def __init__(self, fraction=0.5):
        self.fraction = fraction

    def __call__(self, file, *a, **k):
        buf = io.BytesIO()
        np.savez(buf, *a, **k)
        data = buf.getvalue()
        part = data[: max(1, int(len(data) * self.fraction))]
        if hasattr(file, "write"):
            file.write(part)
            try:
                file.flush()
            except Exception:
                pass
        else:
            p = str(file)
            if not p.endswith(".npz"):
                p += ".npz"
            with open(p, "wb") as f:
                f.write(part)
        raise SimulatedCrash()


def req_key(req):
    return json.dumps(req, sort_keys=True)


def model_key(req):
    """the entry a request reads/writes in the specification: result-determining parameters, halo resolved"""
    r = dict(req)
    r.pop("srcvals")
    if r["halo"] == 0:
        r["halo"] = 1
    return json.dumps(r, sort_keys=True)


def run_log(chk, log, refs, workdir, trunc_fraction=0.5, label=""):
    """Execute one behaviour (TLC log) on the real code. Returns number of requests executed."""
    import bldfm.cache as cmod

    from bldfm import _verif

    d = os.path.join(workdir, "cache")
    shutil.rmtree(d, ignore_errors=True)
    _verif.emit("ext_newdir")
    cache = make_recording_cache(d)
    files_of = {}
    n = 0
    # the caller's arrays: the SAME z / profile array objects are used for every request of the history and updated in
    # place (a sweep over met conditions does exactly that) - the cache must key on their contents, not on their identity
    shared = {}

    def in_place(kw):
        if "z" not in shared:
            shared["z"] = np.array(kw["z"], dtype=float)
            if len(log) % 2:
                # the profiles as COLUMNS of one (levels x variables) table - strided views, as a caller slicing a
                # levels x time-steps array passes them: the cache must take any array the solver takes
                table = np.empty((len(kw["z"]), len(kw["profiles"])), dtype=float)
                for k_, a in enumerate(kw["profiles"]):
                    table[:, k_] = a
                shared["profiles"] = tuple(table[:, k_] for k_ in range(table.shape[1]))
            else:
                shared["profiles"] = tuple(np.array(a, dtype=float) for a in kw["profiles"])
        else:
            np.copyto(shared["z"], kw["z"])
            for dst, src in zip(shared["profiles"], kw["profiles"]):
                np.copyto(dst, src)
        return dict(kw, z=shared["z"], profiles=shared["profiles"])

    for idx, op in enumerate(log):
        kind = op["op"]
        sc = {"kind": "history", "log": log, "failed_at": idx, "variant": label}
        if kind == "newproc":
            cache = make_recording_cache(d)
            continue
        req = {p: int(op["req"][p]) for p in PARAMS}
        q, kw = concrete(req)
        rk = req_key(req)
        if rk not in refs:
            refs[rk] = call_solver(q, kw, cache=None)
        if kind == "corrupt":
            targets = files_of.get(model_key(req), [])
            for f in targets:
                if os.path.exists(f):
                    size = os.path.getsize(f)
                    with open(f, "r+b") as fh:
                        fh.truncate(max(0, int(size * trunc_fraction)))
                    _verif.emit("ext_truncate", key=os.path.basename(f)[:16])
            continue
        if kind == "crash":
            cache = make_recording_cache(d)  # the retry runs in a new process
            if op["at"] != "commit":
                continue  # nothing reached the disk
            saved_np = cmod.np
            try:
                cmod.np = _NumpyProxy(saved_np, CrashingSavez(trunc_fraction))
                try:
                    call_solver(q, in_place(kw), cache=cache)
                except SimulatedCrash:
                    pass
                except Exception as ex:
                    chk.violation("request raised %r while a crash during the store was being simulated" % ex, sc, klass={"check": "crash_fatal"})
                    return n
            finally:
                cmod.np = saved_np
            cache = make_recording_cache(d)
            continue
        # a request
        stat = lambda: {f: (os.path.getsize(f), os.stat(f).st_mtime_ns) for f in glob.glob(os.path.join(d, "*.npz"))}
        before = stat()
        g0, p0 = len(cache.gets), cache.puts
        try:
            out = call_solver(q, in_place(kw), cache=cache)
        except Exception as ex:
            chk.violation("request raised %s: %s (a cache entry must never be fatal)" % (type(ex).__name__, str(ex)[:100]), sc, klass={"check": "fatal", "exception": type(ex).__name__})
            return n
        n += 1
        after = stat()
        mk = model_key(req)
        files_of[mk] = sorted(set(files_of.get(mk, [])) | {f for f in after if before.get(f) != after[f]})
        hit = any(cache.gets[g0:])
        solved = cache.puts > p0
        if not same_result(out, refs[rk]):
            changed = [p for p in PARAMS if idx > 0 and any(o.get("req", op["req"])[p] != op["req"][p] for o in log[:idx] if o["op"] == "req")]
            chk.violation("result served with the cache differs from the cache-free solve (hit=%s); parameters that changed earlier in the history: %s" % (hit, changed), sc,
                          klass={"check": "transparent", "changed": ",".join(changed)})
            return n
        if op["hit"] and not hit:
            chk.violation("an identical earlier request was stored, but this repetition was not served from the cache (solved again)", sc,
                          klass={"check": "effective", "halo": req["halo"]})
            return n
        # the caller normalises / rescales its result in place afterwards: what it does to its arrays is its own business
        try:
            for arr in (out[1], out[2]):
                arr_ = np.asarray(arr)
                if arr_.flags.writeable:
                    arr_ *= -3.0
        except Exception:
            pass
        if hit != op["hit"] or solved != op["solved"]:
            brief = [dict(op=o["op"], at=o.get("at"), req={k: v for k, v in o.get("req", {}).items() if v}) for o in log]
            chk.drift_note("hit/solved = %s/%s, the specification says %s/%s at op %d of %s" % (hit, solved, op["hit"], op["solved"], idx, json.dumps(brief)))
    return n


class _NumpyProxy:
    """numpy with savez replaced (only inside bldfm.cache's namespace)"""

    def __init__(self, real, savez):
        self._real = real
        self._savez = savez

    def __getattr__(self, name):
        if name == "savez":
            return self._savez
        return getattr(self._real, name)


def truncation_sweep(chk, workdir, refs, offsets="sample"):
    """every (or sampled) byte offset of a stored entry: the next identical request is a correct miss, the one after a hit"""
    from bldfm import _verif

    d = os.path.join(workdir, "trunc")
    _verif.emit("ext_newdir")
    req = {p: 0 for p in PARAMS}
    req["halo"] = 2
    q, kw = concrete(req)
    rk = req_key(req)
    if rk not in refs:
        refs[rk] = call_solver(q, kw, cache=None)
    shutil.rmtree(d, ignore_errors=True)
    cache = make_recording_cache(d)
    call_solver(q, kw, cache=cache)
    files = glob.glob(os.path.join(d, "*.npz"))
    if len(files) != 1:
        chk.drift_note("expected one cache file after one store, found %d" % len(files))
        return 0
    f = files[0]
    blob = open(f, "rb").read()
    size = len(blob)
    if offsets == "all":
        offs = list(range(size))
    else:
        rng = np.random.default_rng(seed())
        offs = sorted(set(list(range(0, size, 16)) + [0, 1, 2, 3, 4, 29, 30, 31, size - 1, size - 2, size - 22, size - 23] + [int(x) for x in rng.integers(0, size, 40)]))
        offs = [o for o in offs if 0 <= o < size]
    n = 0
    for off in offs:
        with open(f, "wb") as fh:
            fh.write(blob[:off])
        _verif.emit("ext_truncate", key=os.path.basename(f)[:16])
        cache = make_recording_cache(d)
        sc = {"kind": "truncation", "offset": off, "size": size}
        try:
            out = call_solver(q, kw, cache=cache)
        except Exception as ex:
            chk.violation("entry truncated to %d of %d bytes: the next request raised %s" % (off, size, type(ex).__name__), sc, klass={"check": "fatal", "exception": type(ex).__name__})
            return n
        n += 1
        if not same_result(out, refs[rk]):
            chk.violation("entry truncated to %d of %d bytes was returned as a result" % (off, size), sc, klass={"check": "truncated_returned"})
            return n
        out2 = call_solver(q, kw, cache=make_recording_cache(d))
        if not same_result(out2, refs[rk]):
            chk.violation("after re-solving a truncated entry (offset %d) the repetition returned a wrong result" % off, sc, klass={"check": "truncated_returned"})
            return n
    # bit flips inside the payload must not be fatal either (they may or may not be detected; a returned value must still load)
    rng = np.random.default_rng(seed() + 1)
    saved_trace = os.environ.pop("BLDFM_VERIF_TRACE", None)  # detection of a flipped byte is not modelled: no trace
    for off in [int(x) for x in rng.integers(0, size, 24)]:
        b = bytearray(blob)
        b[off] ^= 0xFF
        with open(f, "wb") as fh:
            fh.write(bytes(b))
        try:
            call_solver(q, kw, cache=make_recording_cache(d))
        except Exception as ex:
            chk.violation("entry with a flipped byte at %d raised %s" % (off, type(ex).__name__), {"kind": "bitflip", "offset": off}, klass={"check": "fatal", "exception": type(ex).__name__})
            return n
    with open(f, "wb") as fh:
        fh.write(blob)
    if saved_trace:
        os.environ["BLDFM_VERIF_TRACE"] = saved_trace
    return n


def _conc_worker(args):
    req, d = args
    from bldfm.cache import GreensFunctionCache

    q, kw = concrete(req)
    try:
        out = call_solver(q, kw, cache=GreensFunctionCache(d))
        return req_key(req), out, None
    except Exception as ex:  # noqa
        return req_key(req), None, "%s: %s" % (type(ex).__name__, ex)


def concurrent_stress(chk, workdir, refs, rounds):
    """several processes on one directory at the same time (CacheConc.tla): nothing fatal, every result right"""
    import multiprocessing as mp

    d = os.path.join(workdir, "conc")
    n = 0
    ctx = mp.get_context("fork")
    reqs = []
    for h in (0, 2):
        for lv in (0, 1):
            r = {p: 0 for p in PARAMS}
            r["halo"], r["levels"] = h, lv
            reqs.append(r)
    for r in reqs:
        q, kw = concrete(r)
        refs.setdefault(req_key(r), call_solver(q, kw, cache=None))
    saved = os.environ.pop("BLDFM_VERIF_TRACE", None)  # interleaved events of several processes are not a TraceCache trace
    try:
        for rnd in range(rounds):
            shutil.rmtree(d, ignore_errors=True)
            tasks = [(reqs[i % len(reqs)], d) for i in range(16)]
            with ctx.Pool(8) as pool:
                outs = pool.map(_conc_worker, tasks, chunksize=1)
            for rk, out, err in outs:
                n += 1
                sc = {"kind": "concurrent", "round": rnd}
                if err is not None:
                    chk.violation("a request on a cache directory shared by concurrent processes raised %s" % err, sc, klass={"check": "concurrent_fatal"})
                    return n
                if not same_result(out, refs[rk]):
                    chk.violation("a request on a cache directory shared by concurrent processes returned a wrong result", sc, klass={"check": "concurrent_wrong"})
                    return n
    finally:
        if saved:
            os.environ["BLDFM_VERIF_TRACE"] = saved
    return n


_CHILD = """
import sys, json, numpy as np
sys.path.insert(0, %r)
from harness import common, check_cache as cc
req = json.loads(sys.argv[1])
q, kw = cc.concrete(req)
cache = cc.make_recording_cache(sys.argv[2])
out = cc.call_solver(q, kw, cache=cache)
np.savez(sys.argv[3], conc=np.asarray(out[1]), flx=np.asarray(out[2]))
print("RESULT " + json.dumps({"hit": any(cache.gets), "puts": cache.puts}))
"""


def cross_process(chk, workdir, refs):
    """the directory outlives the process: the same request from fresh interpreters with DIFFERENT string-hash seeds
    (PYTHONHASHSEED) - the first solves and stores, every later one is served, all results equal the cache-free solve"""
    d = os.path.join(workdir, "xproc")
    shutil.rmtree(d, ignore_errors=True)
    n = 0
    for req in ({p: 0 for p in PARAMS}, dict({p: 0 for p in PARAMS}, halo=2, levels=1, analytic=1)):
        rk = req_key(req)
        if rk not in refs:
            q, kw = concrete(req)
            refs[rk] = call_solver(q, kw, cache=None)
        for k, hs in enumerate(("11", "4242", "random", "7")):
            out = os.path.join(workdir, "xproc_out.npz")
            env = dict(os.environ, PYTHONHASHSEED=hs)
            env.pop("BLDFM_VERIF_TRACE", None)
            p = subprocess.run([common.PY, "-c", _CHILD % common.VERIF, json.dumps(req), d, out], env=env, cwd=workdir, stdout=subprocess.PIPE, stderr=subprocess.STDOUT, text=True)
            line = [l for l in p.stdout.splitlines() if l.startswith("RESULT ")]
            sc = {"kind": "cross_process", "request": req, "process": k, "hash_seed": hs}
            if p.returncode != 0 or not line:
                chk.violation("a request from a fresh process on an existing cache directory failed: %s" % p.stdout[-300:], sc, klass={"check": "cross_process_fatal"})
                return n
            n += 1
            res = json.loads(line[0][7:])
            got = np.load(out)
            ref = refs[rk]
            if not (np.array_equal(got["conc"], np.asarray(ref[1])) and np.array_equal(got["flx"], np.asarray(ref[2]))):
                chk.violation("process %d (hash seed %s) got a result that differs from the cache-free solve" % (k, hs), sc, klass={"check": "cross_process_wrong"})
                return n
            if k > 0 and not res["hit"]:
                chk.violation("an identical request from another process (hash seed %s) on the same directory was not served from the cache" % hs, sc, klass={"check": "cross_process_effective"})
                return n
    return n


CACHE_EVENTS = {"cache_get", "cache_hit", "cache_put_begin", "cache_put_end", "ext_truncate", "ext_newdir"}


def interface_histories(chk, workdir):
    """the same property through the configuration layer: `parallel.use_cache: true` makes the series drivers attach a cache in
    the working directory (.bldfm_cache). Configurations that differ in one option are run one after the other over the same
    directory, twice (the second pass is served from it); every result equals the run with caching off."""
    import copy as _copy

    from bldfm import parse_config_dict, run_bldfm_multitower

    base = {"domain": {"nx": 8, "ny": 6, "xmax": 160.0, "ymax": 90.0, "nz": 6, "modes": [8, 6], "halo": 20.0, "ref_lat": 50.0, "ref_lon": 11.0},
            "towers": [{"name": "a", "lat": 50.0003, "lon": 11.0006, "z_m": 4.0}, {"name": "b", "lat": 50.0005, "lon": 11.0011, "z_m": 6.0}],
            "met": {"ustar": [0.3, 0.45], "mol": -120.0, "wind_speed": 3.5, "wind_dir": [200.0, 250.0]},
            "solver": {"footprint": True, "precision": "double", "closure": "MOST"}, "parallel": {"use_cache": True}}

    def variant(**kw):
        raw = _copy.deepcopy(base)
        for k, v in kw.items():
            sec, key = k.split("__")
            raw[sec][key] = v
        return raw

    variants = [("base", variant()), ("levels [2, 5]", variant(domain__output_levels=[2, 5])), ("levels [5, 2]", variant(domain__output_levels=[5, 2])), ("full output", variant(domain__full_output=True)),
                ("nx 10", variant(domain__nx=10)), ("halo 0", variant(domain__halo=0.0)), ("halo 40 written as an integer", variant(domain__halo=40)), ("domain and halo written as integers", variant(domain__xmax=160, domain__ymax=90, domain__halo=60)), ("halo 31 (as many pad columns as halo 20, one more pad row)", variant(domain__halo=31.0)), ("halo 44 (one more pad column than halo 31, as many pad rows)", variant(domain__halo=44.0)), ("no halo given", variant(domain__halo=None)), ("modes (6, 4)", variant(domain__modes=[6, 4])),
                ("analytic", variant(solver__analytic=True, solver__closure="CONSTANT")), ("single precision", variant(solver__precision="single")), ("another stability", variant(met__mol=80.0))]
    d = os.path.join(workdir, "iface")
    shutil.rmtree(d, ignore_errors=True)
    os.makedirs(d)
    here = os.getcwd()
    n = 0
    try:
        os.chdir(d)
        refs = {}
        for name, raw in variants:
            off = _copy.deepcopy(raw)
            off["parallel"]["use_cache"] = False
            if off["domain"].get("halo", 0) is None:
                del off["domain"]["halo"]
            cfg_off = parse_config_dict(off)
            refs[name] = run_bldfm_multitower(cfg_off)
        order = [variants[i] for i in np.random.default_rng(seed() + 11).permutation(len(variants))]
        stored_after_first = None
        for rnd in (1, 2):
            if rnd == 2:
                stored_after_first = {f: (os.path.getsize(f), os.stat(f).st_mtime_ns) for f in glob.glob(os.path.join(d, ".bldfm_cache", "*.npz"))}
            for name, raw in order:
                raw = _copy.deepcopy(raw)
                if raw["domain"].get("halo", 0) is None:
                    del raw["domain"]["halo"]
                cfg = parse_config_dict(raw)
                sc = {"kind": "interface_history", "variant": name, "pass": rnd, "order": [o[0] for o in order]}
                chk.case(json.dumps([name, rnd]))
                n += 1
                try:
                    got = run_bldfm_multitower(cfg)
                except Exception as ex:  # noqa: BLE001
                    chk.violation("series driver with caching on raised %s: %s (configuration '%s', pass %d)" % (type(ex).__name__, str(ex)[:100], name, rnd), sc, klass={"check": "interface_fatal"})
                    continue
                ref = refs[name]
                bad = [(tn, i_) for tn in ref for i_ in range(len(ref[tn]))
                       if not (np.array_equal(np.asarray(got[tn][i_]["flx"]), np.asarray(ref[tn][i_]["flx"])) and np.array_equal(np.asarray(got[tn][i_]["conc"]), np.asarray(ref[tn][i_]["conc"]))
                               and all(np.array_equal(np.asarray(a_), np.asarray(b_)) for a_, b_ in zip(got[tn][i_]["grid"], ref[tn][i_]["grid"])))]
                if bad:
                    chk.violation("configuration '%s' run through the series driver with caching on (pass %d over one cache directory, after %s) differs from the run with caching off at %s"
                                  % (name, rnd, [o[0] for o in order[: order.index((name, [r_ for n_, r_ in variants if n_ == name][0]))]] if rnd == 1 else "the whole first pass", bad[:3]), sc, klass={"check": "interface_transparent", "variant": name})
        # the second pass repeats every request of the first over the same directory: it is served from it - nothing is stored again
        stored_now = {f: (os.path.getsize(f), os.stat(f).st_mtime_ns) for f in glob.glob(os.path.join(d, ".bldfm_cache", "*.npz"))}
        if stored_after_first is not None and stored_after_first and stored_now != stored_after_first:
            new_files = sorted(set(stored_now) - set(stored_after_first))
            chk.violation("the second pass over one cache directory repeats the requests of the first, yet %d entries were written or rewritten (%d new files): identical requests were solved again instead of being served from the cache"
                          % (sum(1 for f in stored_now if stored_after_first.get(f) != stored_now[f]), len(new_files)), {"kind": "interface_history", "pass": 2, "order": [o[0] for o in order]}, klass={"check": "interface_effective"})
    finally:
        os.chdir(here)
    return n


def validate_cache_trace(chk, tracefile):
    """code -> spec: the recorded cache events must be a behaviour of the store of Cache.tla (spec/TraceCache.tla)"""
    from .trace_solver import read_events

    evs = [e for e in read_events(tracefile) if e["ev"] in CACHE_EVENTS]
    evs.sort(key=lambda e: e["seq"])
    tr = [{"e": e["ev"], "key": e.get("key", ""), "exists": bool(e.get("exists", False))} for e in evs]
    if not tr:
        chk.drift_note("no cache events were recorded")
        return
    d = common.scratch("trace_cache")
    tf = os.path.join(d, "cache_trace.json")
    json.dump(tr, open(tf, "w"))
    r = run_tlc("TraceCache", "TraceCache", workers=1, env={"TRACE_FILE": tf}, name="trace_cache", timeout=1800)
    reached = max([x["l"] for x in r.emitted] or [0])
    chk.states += r.distinct
    chk.transitions += r.generated
    chk.extra["cache_trace_events"] = len(tr)
    chk.extra["cache_trace_events_matched"] = reached - 1
    if reached == len(tr) + 1:
        chk.extra["cache_trace_accepted"] = True
        return
    chk.extra["cache_trace_accepted"] = False
    bad = tr[reached - 1]
    ctx = tr[max(0, reached - 6): reached]
    if bad["e"] == "cache_hit":
        chk.violation("the cache returned an entry that is not a completely stored one (event %d)" % reached, {"kind": "cache_trace", "context": ctx}, klass={"check": "trace_partial_returned"})
    elif bad["e"] == "cache_put_begin":
        chk.violation("a request stored a result although its lookup was served, or stored under another key than it looked up (event %d)" % reached, {"kind": "cache_trace", "context": ctx}, klass={"check": "trace_put"})
    else:
        chk.drift_note("cache trace not explained by the specification at event %d: %s" % (reached, json.dumps(ctx)))


def main():
    chk = Check("C15")
    t = tier()
    r = run_tlc("Cache", "MC_Cache", env={"JAVA_TOOL_OPTIONS": "-XX:+UseParallelGC -Xmx8g"})
    chk.add_tlc("MC_Cache", r)
    if not r.ok:
        raise MachineryError("MC_Cache: %s violated on the specification of the repaired design" % r.violated)
    rc = run_tlc("CacheConc", "MC_CacheConc", workers=8)
    chk.add_tlc("MC_CacheConc", rc)
    if not rc.ok:
        raise MachineryError("MC_CacheConc: %s violated" % rc.violated)
    if t == "thorough":
        rn = run_tlc("CacheConc", "MC_CacheConc_neg_nocatch", workers=4)
        chk.add_tlc("MC_CacheConc_neg_nocatch", rn, expect_violation=True)
        if rn.ok:
            raise MachineryError("negative control MC_CacheConc_neg_nocatch was not violated")
        for neg in ("MC_Cache_neg_key", "MC_Cache_neg_halo", "MC_Cache_neg_crash", "MC_Cache_neg_key_lemma", "MC_Cache_neg_halo_lemma"):
            rn = run_tlc("Cache", neg)
            chk.add_tlc(neg, rn, expect_violation=True)
            if rn.ok:
                raise MachineryError("negative control %s was not violated" % neg)
    logs = {}
    for e in r.emitted:
        logs[json.dumps(e["log"], sort_keys=True)] = e["log"]
    logs = [logs[k] for k in sorted(logs)]
    chk.rule = ("TLC explores every scenario of Cache.tla (identical repeats, every single-parameter change r->r'->r with and without process boundaries, "
                "halo None/explicit-default/other, corrupt entries) with a crash at every step (<= 2 crashes) and emits the log of every complete behaviour; "
                "each distinct log is executed on the real solver with a real cache directory; in addition TLC simulates histories of 7 requests drawn from the whole "
                "request space (MC_Cache_sim) and each is executed the same way; distinct = distinct logs")
    refs = {}
    tracefile = os.path.join(common.scratch("trace_raw_C15"), "events.ndjson")
    os.environ["BLDFM_VERIF_TRACE"] = tracefile
    work = common.scratch("c15_work")
    rng = np.random.default_rng(seed())
    order = list(range(len(logs)))
    if t == "quick":
        # all crash-free logs, plus a seeded sample of the behaviours with crashes
        plain = [i for i in order if not any(o["op"] == "crash" for o in logs[i])]
        crashy = [i for i in order if i not in set(plain)]
        pick = plain + [crashy[i] for i in rng.choice(len(crashy), size=min(len(crashy), 250), replace=False)]
    else:
        pick = order
    nreq = 0
    for i in pick:
        chk.case(json.dumps(logs[i], sort_keys=True))
        nreq += run_log(chk, logs[i], refs, work, 0.5, "log%d" % i)
        if len(chk.violations) > 40:
            break
    # simulation mode of the same specification: long random histories over the WHOLE request space (2^11 x 4 requests),
    # process boundaries, corruption of the entry just used, up to 3 crashes; invariants evaluated by TLC in every state
    nsim = 40 if t == "quick" else 1500
    rs_ = run_tlc("Cache", "MC_Cache_sim", workers=1, simulate="num=%d" % nsim, extra=["-depth", "120", "-seed", str(seed())], name="MC_Cache_sim", timeout=1500)
    chk.add_tlc("MC_Cache_sim", rs_)
    if not rs_.ok:
        raise MachineryError("MC_Cache_sim: %s violated in simulation of the repaired design" % rs_.violated)
    simlogs = [e["log"] for e in rs_.emitted]
    for i, lg in enumerate(simlogs):
        chk.case(json.dumps(lg, sort_keys=True))
        nreq += run_log(chk, lg, refs, work, 0.5, "sim%d" % i)
        if len(chk.violations) > 40:
            break
    chk.extra["simulated_histories_replayed"] = len(simlogs)
    chk.extra["distinct_requests_executed"] = len(refs)
    chk.traces = len(pick) + len(simlogs)
    chk.extra["behaviours_from_tlc"] = len(logs)
    chk.extra["behaviours_replayed"] = len(pick)
    chk.extra["requests_executed"] = nreq
    chk.extra["truncation_offsets"] = truncation_sweep(chk, work, refs, "all" if t == "thorough" else "sample")
    chk.extra["concurrent_requests"] = concurrent_stress(chk, work, refs, 3 if t == "quick" else 25)
    chk.extra["cross_process_requests"] = cross_process(chk, work, refs)
    chk.extra["interface_history_runs"] = interface_histories(chk, work)
    os.environ.pop("BLDFM_VERIF_TRACE", None)
    validate_cache_trace(chk, tracefile)
    if t == "thorough":
        from . import repo_tests

        tf, tail = repo_tests.record()
        chk.extra["repo_tests_pytest"] = tail
        chk.traces += repo_tests.cache_events(chk, tf)
    for l in logs[:: max(1, len(logs) // 3)][:3]:
        chk.sample(l)
    chk.assumptions += ["a process boundary is a fresh cache object on the same directory (the cache keeps nothing in memory)",
                        "a crash during the store is simulated by writing the first half of the archive and aborting"]
    return chk.finish()
