"""Self-tests of the machinery (not property verdicts):

  negcontrols   every MC_*_neg_* configuration must be violated by the intended invariant
  traces        a good recorded trace is accepted; the same trace with one field corrupted or one event
                removed is rejected (demonstrates that the trace specifications bind)
  faithful      the solver model with the pinned commit's deviation switches has exactly the failure
                sets of the pinned code (scratch worktree of the pre-fix commit, removed afterwards)
  coverage      TLC -coverage on the main configurations: no action of a specification is dead

usage: python -m harness.selftest [negcontrols] [traces] [faithful] [coverage]
"""

import copy
import glob
import json
import os
import shutil
import subprocess
import sys

from . import common
from .common import run_tlc, MachineryError

PINNED = "a74d237"  # hooks in, no fix yet

NEG = [
    ("MCSolver", "MC_Recip_neg_halo", "Recip"),
    ("MCSolver", "MC_Levels_neg_cursor", "SlotIsSingle"),
    ("MCSolver", "MC_Shape_neg_sym", "ShapeOrError"),
    ("MCSolver", "MC_Levels_neg_flat", None),
    ("Config", "MC_Met_neg_pinned", None),
    ("Cache", "MC_Cache_neg_key", None),
    ("Cache", "MC_Cache_neg_halo", "Effective"),
    ("Cache", "MC_Cache_neg_crash", "NeverFatal"),
    ("Runtime", "MC_Runtime_neg_sticky", "Pure"),
    ("Drivers", "MC_Drivers_neg_completion", "EachIsSingle"),
    ("Drivers", "MC_Drivers_neg_slice", "EachIsSingle"),
    ("Drivers", "MC_Drivers_neg_noinit", None),
    ("NetcdfIO", "MC_Netcdf_neg_place", "SelReturnsOwn"),
    ("NetcdfIO", "MC_Netcdf_neg_meta", "MetaOwn"),
    ("StepAlgebra", "MC_Step_neg_sign", "CodeIsTaylor3"),
    ("Units", "MC_Units_neg_b_no_kzinv", "Similarity"),
    ("Units", "MC_Units_neg_eig_no_kzinv", "Similarity"),
    ("Units", "MC_Units_neg_mean_no_kz", "Similarity"),
    ("System", "MC_System_neg_noinit", None),
    ("System", "MC_System_neg_nocatch", "NeverFatal"),
    ("CacheConc", "MC_CacheConc_neg_nocatch", "NeverFatalC"),
    ("MCSolver", "MC_Mirror_neg_halo", None),
    ("MCSolver", "MC_Translate_neg_halo", "PointReflectIn"),
    ("MCSolver", "MC_Shape_neg_halo", "HaloIsPadding"),
    ("MCSolver", "MC_Conserve_neg_halo", "HaloIsPadding"),
    ("Orientation", "MC_Orientation_neg_sincos", "Cardinals"),
    ("Orientation", "MC_Orientation_neg_sign", "Cardinals"),
    ("Cache", "MC_Cache_sim_neg_key", "SIM"),
    ("Cache", "MC_Cache_neg_key_lemma", "KeyDeterminesResult"),
    ("Cache", "MC_Cache_neg_halo_lemma", "LookupFindsOwnStore"),
    ("KMTypes", "MC_KMTypes_neg_like", "NoLossyStore"),
    ("KMGrid", "MC_KMGrid_neg_cw", None),
    ("KMGrid", "MC_KMGrid_neg_rows", "Coordinates"),
    ("KMGrid", "MC_KMGrid_neg_ge", None),
    ("KMZ0", "MC_KMZ0_neg_nowrap", "WindowIsCircular"),
    ("KMZ0", "MC_KMZ0_neg_onesided", None),
    ("KMZ0", "MC_KMZ0_neg_wide", None),
    ("Profiles", "MC_Profiles_neg_nopsi", "WindAtZm"),
    ("Profiles", "MC_Profiles_neg_step", "GridIndex"),
    ("Profiles", "MC_Profiles_neg_norm", "WindAtZm"),
    ("Geo", "MC_Geo_neg_cos", "RoundTripLL"),
    ("Geo", "MC_Geo_neg_axes", None),
    ("Geo", "MC_Geo_neg_fill", None),
    ("NetcdfFiles", "MC_NetcdfFiles_neg_memo", "LoadReturnsLastSaved"),
    ("Synthetic", "MC_Synthetic_neg_nobreak", "ExactlyN"),
    ("Lifecycle", "MC_Lifecycle_neg_noforce", "LastSetupWins"),
    ("Lifecycle", "MC_Lifecycle_neg_reinit", "InitOnce"),
    ("Lifecycle", "MC_Lifecycle_neg_flagfirst", None),
    ("Cli", "MC_Cli_neg_dry", "DryRunIsPure"),
    ("Column", "MC_Column_neg_previous", "InLayer"),
    ("Column", "MC_Column_neg_dz", "InLayer"),
    ("Column", "MC_Column_neg_top", "TopFromTopNode"),
    ("Column", "MC_Column_neg_weights", "MeanQuadrature"),
]


def negcontrols():
    bad = 0
    for module, cfg, inv in NEG:
        if inv == "SIM":  # free mode of Cache.tla: found by simulation
            r = run_tlc(module, cfg, workers=1, simulate="num=2000", extra=["-depth", "120", "-seed", "3"], timeout=600)
            ok = not r.ok
            print("NEGCONTROL %-32s violated=%-22s %s" % (cfg, r.violated, "ok" if ok else "NOT VIOLATED in simulation"))
            bad += not ok
            continue
        r = run_tlc(module, cfg, env={"EMIT_EVERY": "1", "EMIT_PHASE": "0", "JAVA_TOOL_OPTIONS": "-XX:+UseParallelGC -Xmx8g"}, timeout=1200)
        ok = (not r.ok) and (inv is None or r.violated == inv)
        print("NEGCONTROL %-32s violated=%-22s %s" % (cfg, r.violated, "ok" if ok else "NOT AS EXPECTED (wanted %s)" % inv))
        bad += not ok
    return bad


def _tlc_trace(module, cfg, tracefile, workers=None):
    return run_tlc(module, cfg, workers=workers, env={"TRACE_FILE": tracefile, "EMIT_EVERY": "1", "EMIT_PHASE": "0"}, name="selftest_" + cfg)


def traces():
    """corrupt one field / drop one event of good traces left in out/ by the checks; each must be rejected"""
    bad = 0
    d = common.scratch("selftest_traces")

    def need(path, prop):
        if not os.path.exists(path):
            subprocess.run([os.path.join(common.VERIF, "bin", "check"), prop], stdout=subprocess.DEVNULL)
        if not os.path.exists(path):
            raise MachineryError("no recorded trace at %s" % path)

    # --- solver stage traces
    p = os.path.join(common.OUT, "trace_C11", "calls.json")
    need(p, "C11")
    calls = [c for c in json.load(open(p)) if c["ev"] and c["ev"][-1]["e"] == "return"][:40]

    def solver_accept(cs):
        tf = os.path.join(d, "calls.json")
        json.dump(cs, open(tf, "w"))
        r = _tlc_trace("TraceSolver", "TraceSolver", tf)
        done = {e["t"] for e in r.emitted if e["pc"] == "done" and e["l"] == len(cs[e["t"] - 1]["ev"])}
        return [t in done for t in range(1, len(cs) + 1)], r

    acc, _ = solver_accept(calls)
    print("TRACE solver: good calls accepted %d/%d" % (sum(acc), len(acc)))
    bad += not all(acc)
    mut = copy.deepcopy(calls)
    kinds = []
    for i, c in enumerate(mut):
        k = i % 5
        if k == 0:
            [e for e in c["ev"] if e["e"] == "pad"][0]["px"] += 1
            kinds.append("pad.px+1")
        elif k == 1:
            [e for e in c["ev"] if e["e"] == "clamp"][0]["dlx"] += 1
            kinds.append("clamp.dlx+1")
        elif k == 2:
            c["ev"] = [e for e in c["ev"] if e["e"] != "crop"]
            kinds.append("crop event removed")
        elif k == 3:
            e = c["ev"][-1]
            e["flx"] = [e["flx"][0], e["flx"][1], e["flx"][2] - 1]
            kinds.append("returned shape one column short")
        else:
            e = c["ev"][-1]
            e["zidx"] = [(z + 1) % c["cfg"]["nz"] for z in e["zidx"]]
            kinds.append("height labels shifted")
    acc, r = solver_accept(mut)
    if r.violated:
        print("TRACE solver: corrupted batch stopped TLC with %s (counts as rejected)" % r.violated)
    rej = sum(not a for a in acc)
    print("TRACE solver: corrupted calls rejected %d/%d (%s)" % (rej, len(acc), sorted(set(kinds))))
    bad += rej != len(acc)

    # --- cache trace
    p = os.path.join(common.OUT, "trace_cache", "cache_trace.json")
    need(p, "C15")
    tr = json.load(open(p))[:400]

    def lin_accept(module, cfg, t, fname):
        tf = os.path.join(d, fname)
        json.dump(t, open(tf, "w"))
        r = _tlc_trace(module, cfg, tf, workers=1)
        reached = max([x["l"] for x in r.emitted] or [0])
        return reached == len(t) + 1 and r.ok

    ok = lin_accept("TraceCache", "TraceCache", tr, "cache.json")
    print("TRACE cache: good trace accepted: %s" % ok)
    bad += not ok
    i = next(k for k, e in enumerate(tr) if e["e"] == "cache_get" and not e["exists"])
    m1 = copy.deepcopy(tr)
    m1[i]["exists"] = True
    j = next(k for k, e in enumerate(tr) if e["e"] == "cache_put_end")
    m2 = tr[:j] + tr[j + 1:]
    h = next(k for k, e in enumerate(tr) if e["e"] == "cache_hit")
    m3 = copy.deepcopy(tr)
    m3[h]["key"] = "0" * 16
    for name, m in (("exists flag flipped", m1), ("put_end removed", m2), ("hit on a foreign key", m3)):
        ok = lin_accept("TraceCache", "TraceCache", m, "cache_mut.json")
        print("TRACE cache: %-22s rejected: %s" % (name, not ok))
        bad += ok

    # --- runtime trace
    p = os.path.join(common.OUT, "trace_runtime", "runtime_trace.json")
    need(p, "C12")
    tr = json.load(open(p))[:300]
    while tr and tr[-1]["e"] != "return":      # cut at the end of a solve (some model steps consume several events)
        tr.pop()
    ok = lin_accept("TraceRuntime", "TraceRuntime", tr, "rt.json")
    print("TRACE runtime: good trace accepted: %s" % ok)
    bad += not ok
    i = next(k for k, e in enumerate(tr) if e["e"] == "thread_setup")
    m1 = copy.deepcopy(tr)
    m1[i]["mgr"] = m1[i]["mgr"] + 1
    i = next(k for k, e in enumerate(tr) if e["e"] == "mgr_create")
    m2 = tr[:i] + tr[i + 1:]
    i = next(k for k, e in enumerate(tr) if e["e"] == "kernel_call")
    m3 = copy.deepcopy(tr)
    m3[i]["parallel"] = not m3[i]["parallel"]
    for name, m in (("manager threads +1", m1), ("mgr_create removed", m2), ("kernel variant flipped", m3)):
        ok = lin_accept("TraceRuntime", "TraceRuntime", m, "rt_mut.json")
        print("TRACE runtime: %-22s rejected: %s" % (name, not ok))
        bad += ok

    # --- drivers trace
    p = os.path.join(common.OUT, "trace_drivers", "runs.json")
    need(p, "C14")
    runs = [r for r in json.load(open(p)) if r["nt"] * r["ns"] >= 2][:30]

    def drv_accept(rs):
        tf = os.path.join(d, "runs.json")
        json.dump(rs, open(tf, "w"))
        r = _tlc_trace("TraceDrivers", "TraceDrivers", tf)
        done = {e["run"]: e["ok"] for e in r.emitted}
        return [bool(done.get(i)) for i in range(1, len(rs) + 1)], r

    acc, _ = drv_accept(runs)
    print("TRACE drivers: good runs accepted %d/%d" % (sum(acc), len(acc)))
    bad += not all(acc)
    mut = copy.deepcopy(runs)
    for i, r_ in enumerate(mut):
        k = i % 4
        procs = [p_ for ph in r_["procs"] for p_ in ph if p_]
        if k == 0:
            r_["keys"] = list(reversed(r_["keys"])) if len(r_["keys"]) > 1 else [r_["keys"][0] + 1]
        elif k == 1:
            r_["lens"] = [l + 1 for l in r_["lens"]]
        elif k == 2:
            ev = [e for e in procs[0] if e["e"] == "solve"][0]
            ev["step"] = ev["step"] % r_["ns"] + 1 if r_["ns"] > 1 else ev["step"] + 1
        else:
            ev = [e for e in procs[0] if e["e"] == "init"][0]
            ev["thr"] = 4
    acc, r = drv_accept(mut)
    rej = sum(not a for a in acc)
    print("TRACE drivers: corrupted runs rejected %d/%d%s" % (rej, len(acc), " (TLC stopped at %s)" % r.violated if r.violated else ""))
    bad += rej != len(acc) and not r.violated
    # --- composed system traces (parallel run with the cache on)
    cands = sorted(glob.glob(os.path.join(common.OUT, "trace_system_*towers*", "run.json")))
    if not cands:
        subprocess.run([os.path.join(common.VERIF, "bin", "check"), "C14"], stdout=subprocess.DEVNULL)
        cands = sorted(glob.glob(os.path.join(common.OUT, "trace_system_*towers*", "run.json")))
    src = cands[0]
    cfg = os.path.join(os.path.dirname(src), "TraceSystem_run")
    good = json.load(open(src))

    def sys_accept(tr):
        tf = os.path.join(d, "sys_run.json")
        json.dump(tr, open(tf, "w"))
        r = run_tlc("TraceSystem", cfg, workers=4, env={"TRACE_FILE": tf}, name="selftest_system")
        done = [e for e in r.emitted if e.get("done")]
        return bool(r.ok and done and all(e["keys_ok"] for e in done))

    ok = sys_accept(good)
    print("TRACE system: good run accepted: %s" % ok)
    bad += not ok
    muts = []
    m = copy.deepcopy(good)
    ev = next(e for p_ in m["procs"] for e in p_ if e["e"] == "thread_setup")
    ev["fftw"] = 4
    muts.append(("pyfftw threads 4 at thread_setup", m))
    m = copy.deepcopy(good)
    ev = next(e for p_ in m["procs"] for e in p_ if e["e"] == "get")
    ev["exists"] = not ev["exists"]
    muts.append(("lookup result flipped", m))
    m = copy.deepcopy(good)
    for p_ in m["procs"]:
        idx_ = [i for i, e in enumerate(p_) if e["e"] == "put_end"]
        if idx_:
            del p_[idx_[0]]
            break
    muts.append(("put_end removed", m))
    m = copy.deepcopy(good)
    ev = next(e for p_ in m["procs"] for e in p_ if e["e"] == "init")
    ev["thr"] = 4
    muts.append(("worker keeps 4 threads", m))
    m = copy.deepcopy(good)
    m["keys"] = list(reversed(m["keys"]))
    muts.append(("result keys reversed", m))
    for name, m in muts:
        ok = sys_accept(m)
        print("TRACE system: %-34s rejected: %s" % (name, not ok))
        bad += ok
    return bad


def faithful():
    wt = "/tmp/bldfm_pinned_selftest"
    subprocess.run(["git", "-C", "/repo", "worktree", "remove", "--force", wt], stdout=subprocess.DEVNULL, stderr=subprocess.DEVNULL)
    subprocess.run(["git", "-C", "/repo", "worktree", "add", "-f", wt, PINNED], check=True, stdout=subprocess.DEVNULL, stderr=subprocess.DEVNULL)
    try:
        env = dict(os.environ, BLDFM_REPO=wt, PYTHONPATH=common.VERIF, BLDFM_VERIF="1", PYTHONHASHSEED="0")
        cwd = common.scratch("selftest_faithful")
        p = subprocess.run([common.PY, "-m", "harness.faithful", "Recip", "Conserve", "Linear", "Translate", "Symmetry", "Mirror", "Levels", "Shape", "KMTypes"], cwd=cwd, env=env, stdout=subprocess.PIPE, stderr=subprocess.STDOUT, text=True)
        lines = [l for l in p.stdout.splitlines() if l.startswith(("FAITHFUL", "DISAGREE"))]
        print("\n".join(lines))
        return 0 if p.returncode == 0 and len([l for l in lines if l.startswith("FAITHFUL")]) == 9 and not any(l.startswith("DISAGREE") for l in lines) else 1
    finally:
        subprocess.run(["git", "-C", "/repo", "worktree", "remove", "--force", wt], stdout=subprocess.DEVNULL, stderr=subprocess.DEVNULL)
        shutil.rmtree(wt, ignore_errors=True)


COVER = [("MCSolver", "MC_Levels_quick"), ("MCSolver", "MC_Shape_quick"), ("Config", "MC_Met"), ("Config", "MC_Defaults"), ("Cache", "MC_Cache"),
         ("Cache", "MC_Cache_sim"), ("Runtime", "MC_Runtime_quick"), ("Drivers", "MC_Drivers_quick"), ("NetcdfIO", "MC_Netcdf"), ("NetcdfFiles", "MC_NetcdfFiles"),
         ("KMTypes", "MC_KMTypes_z0"), ("KMGrid", "MC_KMGrid_quick"), ("KMZ0", "MC_KMZ0_quick"), ("Profiles", "MC_Profiles_quick"), ("Geo", "MC_Geo"), ("Column", "MC_Column"), ("Lifecycle", "MC_Lifecycle"), ("Cli", "MC_Cli")]
SIMULATED = {"MC_Cache_sim": "num=40"}       # configurations explored by simulation


def coverage():
    bad = 0
    taken = {}
    for module, cfg in COVER:
        if cfg in SIMULATED:
            r = run_tlc(module, cfg, coverage=True, workers=1, simulate=SIMULATED[cfg], extra=["-depth", "120", "-seed", "1"], timeout=600)
        else:
            r = run_tlc(module, cfg, coverage=True, env={"EMIT_EVERY": "1000000", "EMIT_PHASE": "0", "JAVA_TOOL_OPTIONS": "-XX:+UseParallelGC -Xmx8g"}, timeout=1800)
        t = taken.setdefault(module, {})
        for a, (dist, tot) in r.coverage.items():
            t[a] = t.get(a, 0) + tot
        print("COVERAGE %-20s actions=%d taken=%d" % (cfg, len(r.coverage), sum(1 for v in r.coverage.values() if v[1] > 0)))
    # an action must be taken in at least one main configuration of its module.  Legitimately unreachable in the
    # repaired design (they exist for the negative controls / for inputs no family enumerates):
    allowed = {"MCSolver": {"RaisePrecision", "IndexError"}}
    for module, t in taken.items():
        dead = sorted(a for a, n in t.items() if n == 0 and a not in allowed.get(module, set()) and a != "Init")
        print("COVERAGE module %-10s dead actions: %s" % (module, dead))
        bad += bool(dead)
    return bad


def main(argv):
    what = argv or ["negcontrols", "traces", "coverage", "faithful"]
    bad = 0
    for w in what:
        bad += {"negcontrols": negcontrols, "traces": traces, "faithful": faithful, "coverage": coverage}[w]()
    print("SELFTEST %s" % ("OK" if not bad else "FAILED (%d)" % bad))
    return 1 if bad else 0


if __name__ == "__main__":
    sys.exit(main(sys.argv[1:]))
