"""bin/check entry point: dispatch a property id to its check module."""

import sys

from .common import main_wrapper, MachineryError

SOLVER = {"C02", "C03", "C04", "C06", "C07", "C10", "C11"}


def run():
    from .common import quiet_package_logging

    quiet_package_logging()
    prop = sys.argv[1]
    replay = sys.argv[2] if len(sys.argv) > 2 else ""
    if prop in SOLVER:
        from . import check_solver as m

        return m.replay_scenario(prop, replay) if replay else m.main_and_finish(prop)
    if prop in ("C16", "C13"):
        from . import check_config as m

        if replay:
            print("note: the scenario in %s is re-run as part of the whole check of %s (its scenarios are regenerated from the specification)" % (replay, prop))
        return m.main_met() if prop == "C16" else m.main_single()
    if prop == "C15":
        from . import check_cache as m

        if replay:
            print("note: the scenario in %s is re-run as part of the whole check of %s (its scenarios are regenerated from the specification)" % (replay, prop))
        return m.main()
    if prop == "C12":
        from . import check_runtime as m

        if replay:
            print("note: the scenario in %s is re-run as part of the whole check of %s (its scenarios are regenerated from the specification)" % (replay, prop))
        return m.main()
    if prop == "C14":
        from . import check_drivers as m

        if replay:
            print("note: the scenario in %s is re-run as part of the whole check of %s (its scenarios are regenerated from the specification)" % (replay, prop))
        return m.main()
    if prop == "C18":
        from . import check_netcdf as m

        if replay:
            print("note: the scenario in %s is re-run as part of the whole check of %s (its scenarios are regenerated from the specification)" % (replay, prop))
        return m.main()
    if prop == "C20":
        from . import check_sourcearea as m

        if replay:
            print("note: the scenario in %s is re-run as part of the whole check of %s (its scenarios are regenerated from the specification)" % (replay, prop))
        return m.main()
    if prop == "C05":
        from . import check_step as m

        if replay:
            print("note: the scenario in %s is re-run as part of the whole check of %s (its scenarios are regenerated from the specification)" % (replay, prop))
        return m.main()
    if prop == "C08":
        from . import check_orientation as m

        if replay:
            print("note: the scenario in %s is re-run as part of the whole check of %s (its scenarios are regenerated from the specification)" % (replay, prop))
        return m.main()
    if prop == "C01":
        from . import check_column as m

        if replay:
            print("note: the scenario in %s is re-run as part of the whole check of %s (its scenarios are regenerated from the specification)" % (replay, prop))
        return m.main()
    if prop == "C09":
        from . import check_profiles as m

        if replay:
            print("note: the scenario in %s is re-run as part of the whole check of %s (its scenarios are regenerated from the specification)" % (replay, prop))
        return m.main()
    if prop == "C17":
        from . import check_geo as m

        if replay:
            print("note: the scenario in %s is re-run as part of the whole check of %s (its scenarios are regenerated from the specification)" % (replay, prop))
        return m.main()
    if prop == "C19":
        from . import check_km as m

        if replay:
            print("note: the scenario in %s is re-run as part of the whole check of %s (its scenarios are regenerated from the specification)" % (replay, prop))
        return m.main()
    raise MachineryError("no check registered for " + prop)


if __name__ == "__main__":
    main_wrapper(run)
