"""bin/check entry point: dispatch a property id to its check module."""

import sys

from .common import main_wrapper, MachineryError

SOLVER = {"C02", "C03", "C04", "C06", "C07", "C10", "C11"}


def run():
    prop = sys.argv[1]
    replay = sys.argv[2] if len(sys.argv) > 2 else ""
    if prop in SOLVER:
        from . import check_solver as m

        return m.replay_scenario(prop, replay) if replay else m.main(prop)
    raise MachineryError("no check registered for " + prop)


if __name__ == "__main__":
    main_wrapper(run)
