"""writes seeded/README.md from the meta.json files of the seeded changes"""
import glob, json, os
HERE = os.path.dirname(os.path.dirname(os.path.abspath(__file__)))
rows = []
for m in sorted(glob.glob(os.path.join(HERE, "seeded", "*", "meta.json"))):
    d = json.load(open(m))
    name = os.path.basename(os.path.dirname(m))
    c = d.get("confirmed_by_me", {})
    rows.append("| %s | %s | %s | %s | tests %s, demo %s/%s | %s (exit %s, %s VIOLATION lines)%s |" % (
        name, d.get("property"), (d.get("summary") or "").replace("|", "/")[:230], (d.get("needs") or "").replace("|", "/")[:200],
        c.get("existing_tests_with_change"), c.get("demo_with_change"), c.get("demo_without_change"),
        "detected" if d.get("detected_by_quick_check") else "MISSED", d.get("check_exit_code"), d.get("violation_lines"),
        (" — " + d["note"]) if d.get("note") else ""))
txt = """# Seeded changes

Each directory holds a change to BLDFM produced by an independent sub-agent that saw only the text of one
property: `patch.diff`, the agent's demonstration `demo.py`, `meta.json` (what it needs to manifest, what was
run to confirm it), `confirm.log` and the output of the property's quick check on the seeded tree.
Confirmation (by `bin/seedtest`, in a fresh scratch worktree of /repo's HEAD, removed afterwards): the 135
existing tests pass with the change, the demo fails with it and passes without it.

| name | property | change | needs | confirmed | quick check of the property on the seeded tree |
|---|---|---|---|---|---|
""" + "\n".join(rows) + "\n"
open(os.path.join(HERE, "seeded", "README.md"), "w").write(txt)
print(txt)
