"""C12: a solve is a pure function of its arguments (history, threads, FFT-manager resets do not matter).

TLC explores spec/Runtime.tla and emits, for every reachable (global state, request) pair, a shortest
history of operations that reaches it.  Each history is executed in one real process from a state reset to
that of a fresh process; the final projected global state is compared with the model (mismatch = drift),
every solve result is compared bit-identically with the first in-process result of the same request under
the same kernel variant, and to 1e-12 (double) / 1e-5 (single storage) with the same request solved in a
fresh subprocess.  The recorded runtime events are validated against the sub-steps of the specification.
"""

import json
import os
import shutil
import subprocess
import sys
import tempfile
from concurrent.futures import ThreadPoolExecutor

import numpy as np

from . import common
from .common import Check, MachineryError, run_tlc, seed, tier

RUNTIME_EVENTS = {"ext_init", "ext_wisdom", "ext_set_threads", "mgr_reset", "enter", "mgr_create", "thread_setup", "kernel_compile", "kernel_call", "return"}


def build_request(rid):
    """the alphabet of 8 solves: they differ in mode flags, precision, shape, modes/halo, levels"""
    from . import realsolver as rs

    nz = 6
    z, prof = rs.profiles("most_u", nz)
    zc, profc = rs.profiles("const", nz)
    rng = np.random.default_rng(100 + rid)
    base = dict(z=z, profiles=prof, domain=(160.0, 90.0), levels=[3], modes=(8, 6), meas_pt=(40.0, 30.0), footprint=True, analytic=False, halo=40.0, precision="single")
    shape = (6, 8)
    kw = dict(base)
    if rid == 2:
        kw.update(footprint=False, meas_pt=(0.0, 0.0))
    elif rid == 3:
        kw.update(analytic=True, z=zc, profiles=profc, halo=None)
    elif rid == 4:
        # as request 2 in everything that shapes the spectral arrays (source grid, modes, pad widths in cells), on a domain
        # of twice the extent: whatever is derived from the cell size must not be taken from an earlier solve
        kw.update(analytic=True, footprint=False, z=zc, profiles=profc, precision="double", domain=(320.0, 180.0), halo=80.0)
    elif rid == 5:
        kw.update(precision="double")
    elif rid == 6:
        # the same arguments as request 2 on another source grid (the halo is not a whole number of its cells)
        kw.update(footprint=False)
        shape = (6, 10)
    elif rid == 7:
        # the same extended grid, level count and precision as request 1 with FEWER modes: whatever an earlier solve
        # left in a work array of that shape must not reach this one
        kw.update(modes=(6, 4))
    elif rid == 8:
        kw.update(footprint=False, levels=[1, 5, 2], precision="double", meas_pt=(0.0, 0.0))
    elif rid == 9:
        # outside the model's alphabet: a finer column and grid (the shooting sweep amplifies last-bit differences of the
        # kernel's arithmetic) - used for the comparison across processes and thread settings only
        from bldfm.pbl_model import vertical_profiles

        zf, proff = vertical_profiles(32, 10.0, (3.0, 1.0), ustar=0.4, mol=-200.0)
        kw.update(z=zf, profiles=proff, domain=(100.0, 75.0), footprint=False, meas_pt=(0.0, 0.0), precision="double", levels=[16, 32], modes=(64, 48), halo=50.0)
        shape = (48, 64)
    elif rid == 10:
        # outside the model's alphabet: a padded grid of 90 x 90 (not a power of two, many plans to choose from)
        from bldfm.pbl_model import vertical_profiles

        zf, proff = vertical_profiles(12, 10.0, (3.0, 1.0), ustar=0.4, mol=-200.0)
        kw.update(z=zf, profiles=proff, domain=(100.0, 100.0), footprint=False, meas_pt=(0.0, 0.0), precision="double", levels=[3, 11], modes=(48, 48), halo=100.0)
        shape = (30, 30)
    elif rid == 11:
        # outside the model's alphabet: with request 12 a pair of dispersion solves on the SAME padded grid (14 x 16) reached
        # with different halos (two cells around 10 x 12, four cells around 6 x 8)
        kw.update(footprint=False, meas_pt=(0.0, 0.0), precision="double", domain=(240.0, 200.0), halo=40.0, modes=(8, 6))
        shape = (10, 12)
    elif rid == 12:
        kw.update(footprint=False, meas_pt=(0.0, 0.0), precision="double", domain=(160.0, 120.0), halo=80.0, modes=(8, 6))
        shape = (6, 8)
    q = rng.uniform(-1, 2, size=shape)
    return q, kw


_REQUESTS = {}


def solve_request(rid):
    from bldfm.solver import steady_state_transport_solver

    # the SAME argument objects every time a request is repeated: "bit-identical repeats" is a statement about repeating a
    # call, and FFTW picks its code path by the alignment of the array it is handed - an equal copy at another address may
    # legitimately differ in the last bit
    if rid not in _REQUESTS:
        _REQUESTS[rid] = build_request(rid)
    q, kw = _REQUESTS[rid]
    k = dict(kw)
    g, c, f = steady_state_transport_solver(q, k.pop("z"), k.pop("profiles"), k.pop("domain"), k.pop("levels"), **k)
    return np.asarray(c), np.asarray(f)


def _compiled_dict():
    import bldfm.solver as S

    for cell in S.ivp_solver.__closure__:
        if isinstance(cell.cell_contents, dict):
            return cell.cell_contents
    raise MachineryError("cannot find the kernel table of bldfm.utils.parallelize")


def soft_reset():
    """put the process-global state back to that of a fresh process"""
    import numba
    import pyfftw
    import bldfm.fft_manager as fm
    from bldfm import config, _verif

    config.NUM_THREADS = 1
    fm._fft_manager = None
    pyfftw.config.NUM_THREADS = 1
    numba.set_num_threads(numba.config.NUMBA_NUM_THREADS)
    _compiled_dict().clear()
    if os.path.exists("fftw_wisdom.pkl"):
        os.remove("fftw_wisdom.pkl")
    _verif.emit("ext_init")


def observe():
    import numba
    import pyfftw
    import bldfm.fft_manager as fm
    from bldfm import config

    return {
        "threads": config.NUM_THREADS,
        "numba": numba.get_num_threads(),
        "compiled": sorted(_compiled_dict().keys()),
        "mgr": 0 if fm._fft_manager is None else fm._fft_manager.num_threads,
        "fftw": pyfftw.config.NUM_THREADS,
    }


def set_wisdom(state):
    """put the wisdom file of the working directory into the given state: missing | ok | corrupt"""
    import pickle
    import pyfftw
    from bldfm import _verif

    path = "fftw_wisdom.pkl"
    if state == "missing":
        if os.path.exists(path):
            os.remove(path)
    elif state == "ok":
        with open(path, "wb") as f:
            pickle.dump(pyfftw.export_wisdom(), f)
    else:
        with open(path, "wb") as f:
            f.write(b"\x80\x04 this is not a pickle of FFTW wisdom")
    _verif.emit("ext_wisdom", state=state)


def apply_op(op, arg):
    from bldfm import config, _verif
    import bldfm.fft_manager as fm

    if op == "threads":
        config.NUM_THREADS = int(arg)
        _verif.emit("ext_set_threads", n=int(arg))
        return None
    if op == "reset":
        fm.reset_fft_manager()
        return None
    if op == "wisdom":
        set_wisdom(arg)
        return None
    if op == "solve":
        return solve_request(int(arg))
    raise MachineryError("unknown op " + op)


def fresh_reference(rid, outdir, threads=1, numba_cache=None):
    """solve request rid in a fresh subprocess (default state, one thread; optionally another thread setting and a private,
    empty numba cache directory - the compiled kernel variants then come from this process alone)"""
    out = os.path.join(outdir, "ref_%d_%d%s.npz" % (rid, threads, "_own" if numba_cache else ""))
    code = (
        "import sys, numpy as np\n"
        "sys.path.insert(0, %r)\n"
        "from bldfm import config as _c\n"
        "_c.NUM_THREADS = %d\n"
        "from harness.check_runtime import solve_request\n"
        "c, f = solve_request(%d)\n"
        "np.savez(%r, conc=c, flx=f)\n" % (common.VERIF, threads, rid, out)
    )
    env = dict(os.environ)
    if numba_cache:
        shutil.rmtree(numba_cache, ignore_errors=True)
        os.makedirs(numba_cache)
        env["NUMBA_CACHE_DIR"] = numba_cache
    env.pop("BLDFM_VERIF_TRACE", None)
    env["PYTHONPATH"] = common.VERIF + os.pathsep + os.path.join(common.REPO, "src")
    p = subprocess.run([common.PY, "-c", code], cwd=outdir, env=env, stdout=subprocess.PIPE, stderr=subprocess.STDOUT, text=True)
    if p.returncode != 0 or not os.path.exists(out):
        raise MachineryError("fresh-process reference for request %d failed:\n%s" % (rid, p.stdout[-2000:]))
    d = np.load(out)
    return d["conc"], d["flx"]


def rel(a, b):
    s = max(float(np.max(np.abs(a))), float(np.max(np.abs(b))), 1e-300)
    return float(np.max(np.abs(a.astype(float) - b.astype(float)))) / s


def validate_runtime_trace(chk, tracefile):
    from .trace_solver import read_events

    evs = [e for e in read_events(tracefile) if e["ev"] in RUNTIME_EVENTS and e["pid"] == os.getpid()]
    evs.sort(key=lambda e: e["seq"])
    tr = []
    for e in evs:
        r = {"e": e["ev"]}
        if e["ev"] == "ext_set_threads":
            r["n"] = e["n"]
        elif e["ev"] == "ext_wisdom":
            r["state"] = e["state"]
        elif e["ev"] == "enter":
            r["fp"], r["an"] = bool(e["footprint"]), bool(e["analytic"])
        elif e["ev"] == "mgr_create":
            r["threads"], r["fftw"] = e["threads"], e["fftw"]
        elif e["ev"] == "thread_setup":
            r.update(cfg=e["cfg"], numba=e["numba"], mgr=e["mgr"], fftw=e["fftw"])
        elif e["ev"] in ("kernel_compile", "kernel_call"):
            r["parallel"] = bool(e["parallel"])
        elif e["ev"] == "return":
            r["mgr"] = 0 if e["mgr"] is None else e["mgr"]
        tr.append(r)
    if not tr:
        chk.drift_note("no runtime events recorded")
        return
    d = common.scratch("trace_runtime")
    tf = os.path.join(d, "runtime_trace.json")
    json.dump(tr, open(tf, "w"))
    r = run_tlc("TraceRuntime", "TraceRuntime", workers=1, env={"TRACE_FILE": tf}, name="trace_runtime", timeout=1800)
    chk.states += r.distinct
    chk.transitions += r.generated
    reached = max([x["l"] for x in r.emitted] or [0])
    chk.extra["runtime_trace_events"] = len(tr)
    chk.extra["runtime_trace_events_matched"] = reached - 1
    ok = reached == len(tr) + 1 and r.ok
    chk.extra["runtime_trace_accepted"] = ok
    if not r.ok and r.violated in common.INTERNAL_INVARIANTS:
        chk.drift_note("the recorded run violates %s of Runtime.tla (an FFT ran with more than one thread, or the kernel variant does not match the thread setting): %s"
                       % (r.violated, json.dumps(tr[max(0, reached - 8): reached + 1])))
    elif not r.ok:
        chk.violation("the recorded run violates %s of Runtime.tla" % r.violated,
                      {"kind": "runtime_trace", "invariant": r.violated, "context": tr[max(0, reached - 8): reached + 1]}, klass={"check": "trace_invariant", "invariant": r.violated})
    elif not ok:
        chk.drift_note("runtime trace not explained by the specification at event %d: %s" % (reached, json.dumps(tr[max(0, reached - 5): reached + 1])))


def main():
    import numba

    chk = Check("C12")
    t = tier()
    cfgname = "MC_Runtime_%s" % t
    r = run_tlc("Runtime", cfgname, env={"JAVA_TOOL_OPTIONS": "-XX:+UseParallelGC -Xmx8g"})
    chk.add_tlc(cfgname, r)
    if not r.ok:
        raise MachineryError("%s: %s violated on the specification" % (cfgname, r.violated))
    if t == "thorough":
        rn = run_tlc("Runtime", "MC_Runtime_neg_sticky")
        chk.add_tlc("MC_Runtime_neg_sticky", rn, expect_violation=True)
        if rn.ok:
            raise MachineryError("negative control MC_Runtime_neg_sticky was not violated")
    hists = sorted(r.emitted, key=lambda e: json.dumps(e["hist"]))
    work = common.scratch("c12_work")
    tracefile = os.path.join(common.scratch("trace_raw_C12"), "events.ndjson")
    with ThreadPoolExecutor(8) as ex:
        refs = dict(zip(range(1, 9), ex.map(lambda i: fresh_reference(i, work), range(1, 9))))
    # across processes AND thread settings, each with its own empty compiled-kernel cache (what a process finds on disk
    # from earlier runs must not decide which numbers it computes): 4 threads vs 1 thread, double precision requests
    own = {}
    with ThreadPoolExecutor(4) as ex:
        jobs = {(rid, th): ex.submit(fresh_reference, rid, work, th, os.path.join(work, "numba_%d_%d" % (rid, th))) for rid in (5, 9) for th in (1, 4)}
        own = {k: j.result() for k, j in jobs.items()}
    for rid in (5, 9):
        (c1_, f1_), (c4_, f4_) = own[(rid, 1)], own[(rid, 4)]
        d = max(rel(c1_, c4_), rel(f1_, f4_))
        if rid in refs:
            d = max(d, rel(c1_, refs[rid][0]), rel(f1_, refs[rid][1]))
        chk.case(("own_cache", rid))
        if d > 1e-12:
            chk.violation("request %d solved in fresh processes with private kernel caches: 1 thread, 4 threads and the shared-cache process differ by %.3e relative (tolerance 1e-12)" % (rid, d),
                          {"kind": "fresh_process_threads", "request": rid}, klass={"check": "fresh_process_threads", "request": rid})
    os.environ["BLDFM_VERIF_TRACE"] = tracefile
    first = {}
    prec_of = {rid: build_request(rid)[1]["precision"] for rid in range(1, 9)}
    nsolves = 0

    def check_result(rid, res, kernel, sc):
        nonlocal nsolves
        nsolves += 1
        c, f = res
        key = (rid, bool(kernel))
        if key in first:
            c0, f0 = first[key]
            if not (np.array_equal(c, c0) and np.array_equal(f, f0)):
                chk.violation("request %d repeated with the same thread setting is not bit-identical to its first result (max rel diff %.3e)" % (rid, max(rel(c, c0), rel(f, f0))),
                              sc, klass={"check": "repeat_bitwise", "request": rid})
                return False
        else:
            first[key] = (c, f)
        cr, fr = refs[rid]
        tol = 1e-12 if prec_of[rid] == "double" else 1e-5
        d = max(rel(c, cr), rel(f, fr))
        if c.shape != cr.shape or d > tol:
            chk.violation("request %d differs from the same solve in a fresh process by %.3e relative (tolerance %.0e)" % (rid, d, tol), sc, klass={"check": "fresh_process", "request": rid})
            return False
        return True

    for e in hists:
        hist = [list(h) for h in e["hist"]]
        chk.case(json.dumps(hist))
        soft_reset()
        sc = {"kind": "history", "hist": hist}
        ok = True
        for op, arg in hist:
            try:
                res = apply_op(op, arg)
            except Exception as ex:
                chk.violation("operation %s(%s) raised %s: %s" % (op, arg, type(ex).__name__, str(ex)[:100]), sc, klass={"check": "exception", "op": op})
                ok = False
                break
            if op == "solve":
                from bldfm import config

                rq = build_request(int(arg))[1]
                ok = check_result(int(arg), res, (not rq["analytic"]) and config.NUM_THREADS > 1, sc)
                if not ok:
                    break
        if not ok:
            continue
        obs = observe()
        want = e["state"]
        want_c = sorted(bool(x) for x in want["compiled"])
        if (obs["threads"], obs["mgr"], obs["fftw"], obs["compiled"]) != (want["threads"], want["mgr"], want["fftw"], want_c) or (want["numba"] != 0 and obs["numba"] != want["numba"]):
            chk.drift_note("global state after %s is %s, the specification says %s" % (json.dumps(hist), obs, want))
    chk.traces = len(hists)
    # the caller UPDATES ITS SOURCE ARRAY IN PLACE between two solves (a flux series written into one buffer): the second
    # solve is a solve of the new contents - the same object at the same address is not the same argument
    from bldfm.solver import steady_state_transport_solver

    soft_reset()
    for rid in (2, 6, 8):
        solve_request(rid)
        q, kw = _REQUESTS[rid]
        saved = q.copy()
        try:
            k = dict(kw)
            args = (k.pop("z"), k.pop("profiles"), k.pop("domain"), k.pop("levels"))
            _, c_a, f_a = steady_state_transport_solver(q, *args, **k)
            c_a, f_a = np.array(c_a), np.array(f_a)
            q *= 3.0
            q[1, 2] += 0.5
            _, c_b, f_b = steady_state_transport_solver(q, *args, **k)
            c_b, f_b = np.array(c_b), np.array(f_b)
            _, c_c, f_c = steady_state_transport_solver(q.copy(), *args, **k)
            nsolves += 3
            tol = 1e-12 if kw["precision"] == "double" else 1e-5
            d = max(rel(c_b, np.asarray(c_c)), rel(f_b, np.asarray(f_c)))
            chk.case(json.dumps(["source updated in place", rid]))
            if d > tol:
                chk.violation("request %d solved again after its source array was updated in place differs from the solve of an equal new array by %.3e relative (it %s the result for the earlier contents)"
                              % (rid, d, "equals" if max(rel(c_b, c_a), rel(f_b, f_a)) == 0.0 else "is not"), {"kind": "source_updated_in_place", "request": rid}, klass={"check": "in_place_source", "request": rid})
        finally:
            np.copyto(q, saved)
    # two dispersion requests that share their PADDED grid but not their halo, alternately: each returns its own first result
    soft_reset()
    first_pair = {}
    for rid in (12, 11, 12, 11, 12):
        c_r, f_r = solve_request(rid)
        nsolves += 1
        if rid in first_pair:
            c0, f0 = first_pair[rid]
            if not (np.array_equal(c_r, c0) and np.array_equal(f_r, f0)):
                chk.violation("request %d solved again after a request with the same padded grid and another halo is not bit-identical to its first result (max rel diff %.3e)" % (rid, max(rel(c_r, c0), rel(f_r, f0))),
                              {"kind": "same_padded_grid", "request": rid}, klass={"check": "repeat_bitwise", "request": rid})
                break
        else:
            first_pair[rid] = (np.array(c_r), np.array(f_r))
    chk.case(json.dumps(["same padded grid, other halo", 11, 12]))
    # MANY repetitions in a row (one thread, one FFT manager, nothing in between): the sixth call returns the bits of the first
    soft_reset()
    for rid in (1, 5, 2, 8, 10, 9):
        c0, f0 = solve_request(rid)
        c0, f0 = np.array(c0), np.array(f0)
        for rep in range(2, 8):
            c_r, f_r = solve_request(rid)
            nsolves += 1
            if not (np.array_equal(c_r, c0) and np.array_equal(f_r, f0)):
                chk.violation("request %d repeated %d times in a row in one process: call %d is not bit-identical to the first (max rel diff %.3e)" % (rid, rep, rep, max(rel(c_r, c0), rel(f_r, f0))),
                              {"kind": "many_repeats", "request": rid, "call": rep}, klass={"check": "repeat_bitwise", "request": rid})
                break
        chk.case(json.dumps(["seven in a row", rid]))
    # single vs double precision: storage rounding only
    soft_reset()
    c1, f1 = solve_request(1)
    c5, f5 = solve_request(5)
    if max(rel(c1, c5), rel(f1, f5)) > 1e-5:
        chk.violation("single and double precision differ by %.3e of the field maximum" % max(rel(c1, c5), rel(f1, f5)), {"kind": "precision"}, klass={"check": "precision"})
    # ... also for several output levels on grids that are fine against the output height (the shooting sweep grows by
    # exp(k h) there: whatever is rounded to single precision before the two auxiliary solutions are combined is amplified)
    from bldfm.solver import steady_state_transport_solver as _steady

    for rid in (8, 9, 10):
        qsd, kwsd = build_request(rid)
        outs = {}
        for prec in ("single", "double"):
            k = dict(kwsd, precision=prec)
            _, c_, f_ = _steady(qsd, k.pop("z"), k.pop("profiles"), k.pop("domain"), k.pop("levels"), **k)
            outs[prec] = (np.asarray(c_, dtype=float), np.asarray(f_, dtype=float))
            nsolves += 1
        d = max(rel(outs["single"][0], outs["double"][0]), rel(outs["single"][1], outs["double"][1]))
        chk.case(json.dumps(["single vs double", rid]))
        if not d <= 1e-5:
            chk.violation("request %d (levels %s) in single and in double precision differ by %.3e of the field maximum" % (rid, [int(v_) for v_ in np.atleast_1d(kwsd["levels"])], d), {"kind": "precision", "request": rid}, klass={"check": "precision", "request": rid})
    # long random histories, multi-threaded schedules repeated
    rng = np.random.default_rng(seed())
    nlong = 150 if t == "quick" else 1500
    soft_reset()
    hist = []
    for i in range(nlong):
        x = rng.random()
        if x < 0.2:
            op = ("threads", int(rng.choice([1, 2, 4, 8])))
        elif x < 0.27:
            op = ("reset", 0)
        elif x < 0.33:
            op = ("wisdom", str(rng.choice(["missing", "ok", "corrupt"])))
        else:
            op = ("solve", int(rng.integers(1, 9)))
        hist.append(list(op))
        if op[0] == "reset":
            import bldfm.fft_manager as fm

            if fm._fft_manager is None:
                continue
        res = apply_op(*op)
        if op[0] == "solve":
            from bldfm import config

            rq = build_request(op[1])[1]
            if not check_result(op[1], res, (not rq["analytic"]) and config.NUM_THREADS > 1, {"kind": "long_history", "hist": hist[-12:], "length": len(hist)}):
                break
    chk.extra["solves_compared"] = nsolves
    chk.extra["histories_from_tlc"] = len(hists)
    chk.extra["long_history_ops"] = nlong
    os.environ.pop("BLDFM_VERIF_TRACE", None)
    validate_runtime_trace(chk, tracefile)
    if t == "thorough":
        from . import repo_tests

        tf_, tail = repo_tests.record()
        chk.extra["repo_tests_pytest"] = tail
        chk.traces += repo_tests.runtime_events(chk, tf_)
    chk.rule = ("TLC computes the reachable (global state, request) pairs of Runtime.tla (8 requests, thread counts 1/2/4/8, manager resets, histories up to MaxOps) with a shortest history each; "
                "every history is executed in one real process; a case is one history; plus one random history of %d operations" % nlong)
    for e in hists[:: max(1, len(hists) // 3)][:3]:
        chk.sample({"history": e["hist"], "model_state_after": e["state"], "kernel_parallel": e["kernel"]})
    chk.assumptions += ["numba thread count is compared only once the package has set it", "fresh-process references run with the default state (one thread)"]
    return chk.finish()
