"""Generates /verif/MANIFEST.json from the table below (single source of truth for the interface)."""

import json
import os
import subprocess

HERE = os.path.dirname(os.path.dirname(os.path.abspath(__file__)))

CHECKS = {
    "C02": dict(
        technique="TLC model checking of the exact GF(5039^2) solver model (spec/Solver.tla, MCSolver.tla, family recip) + replay of every TLC-enumerated configuration on the real solver + TLC trace validation of the recorded stage events",
        text="TLC proves reciprocity footprint(m)[s] = forward(unit source at s)[m] (flux and concentration, hence sum(q*fp) = field at the tower for all q by bilinearity) on the exact field model for every configuration in the bounds (grid sizes incl. odd, dx != dy, halo None/0/commensurate/incommensurate, truncating/clamped modes, every on-grid tower cell, every unit source); every enumerated configuration is then replayed on the real solver with random/sparse/smooth sources, MOST/MOSTM/anisotropic profiles and both precisions, and the model's predicted error/shape is compared with the code. Bounded model checking + conformance, not a proof for all sizes.",
        note="Assumes: identities are polynomial (bilinear) so exactness over GF(p^2) transfers to the complex numbers (Schwartz-Zippel, field size 2.5e7); padded size <= 10 per axis in TLC; the upper-boundary square root is an uninterpreted conjugation-equivariant function; floating-point comparison at 1e-10 (double) / 2e-4 (single) relative to the sum scale.",
        design="4/C02",
    ),
}

NOT_APPLICABLE = {
    "C01": "asymptotic numerical accuracy against an ODE boundary-value solution: no discrete state/transition content for a TLA+ model; needs a numerical differential oracle (different technique)",
    "C09": "real-valued identities of transcendental similarity formulas and floating-point arange rounding; nothing for TLC (integers only) to enumerate",
    "C17": "accuracy/round-trip of an equirectangular projection against a great-circle oracle: floating-point trigonometry only; the two axis signs are observed in C08",
    "C19": "one pure real function compared with a published closed form (Gamma functions): no state, no finite case analysis with an exact oracle",
}


def build():
    props = [json.loads(l) for l in open(os.path.join(HERE, "properties.jsonl"))]
    hooks = subprocess.run(["git", "-C", "/repo", "log", "--format=%h %s"], stdout=subprocess.PIPE, text=True).stdout.splitlines()
    hook_commits = [l.split()[0] for l in hooks if l.split(" ", 1)[1].startswith("verif hooks")]
    m = {
        "version": 1,
        "setup_cmd": "bin/setup",
        "hooks": {
            "guard": "BLDFM_VERIF",
            "enable": "BLDFM_VERIF=1 BLDFM_VERIF_TRACE=<file> in the environment; the package is imported from /repo/src (editable install), there is no build step. bin/check sets both.",
            "baseline_off_cmd": "cd /repo && env -u BLDFM_VERIF -u BLDFM_VERIF_TRACE /venv/bin/python -m pytest -ra -q -p no:cacheprovider --timeout=900 --continue-on-collection-errors",
            "source_commits": hook_commits,
            "add_only": True,
        },
        "engines": [
            {"name": "tlc", "path": "/opt/veriftools/tla/tla2tools.jar", "serves_properties": sorted(CHECKS), "kind_free_text": "TLC explicit-state model checker on the TLA+ specification in spec/ (model checking, scenario generation, trace validation)"},
            {"name": "harness", "path": "/verif/harness", "serves_properties": sorted(CHECKS), "kind_free_text": "Python conformance harness: replays TLC-generated scenarios on the real package and feeds recorded hook traces back to TLC"},
        ],
        "checks": [],
        "not_applicable": [],
        "notes": "See DESIGN.md. Known findings and fixed defects: known_findings.json.",
    }
    for p in props:
        pid = p["id"]
        if pid in CHECKS:
            c = CHECKS[pid]
            m["checks"].append(
                {
                    "property_id": pid,
                    "quick_cmd": "bin/check %s --tier quick" % pid,
                    "thorough_cmd": "bin/check %s --tier thorough" % pid,
                    "evidence_file": "/verif/evidence/%s.json" % pid,
                    "replay_cmd_template": "bin/check %s --replay {path}" % pid,
                    "engine": "tlc",
                    "level_claimed": {"category": "model_checking", "text": c["text"], "design_ref": "DESIGN.md section " + c["design"]},
                    "level_note": c["note"],
                    "technique": c["technique"],
                }
            )
        elif pid in NOT_APPLICABLE:
            m["not_applicable"].append({"property_id": pid, "reason": NOT_APPLICABLE[pid]})
        else:
            m["not_applicable"].append({"property_id": pid, "reason": "check not built yet (work in progress; planned in DESIGN.md section 4)"})
    with open(os.path.join(HERE, "MANIFEST.json"), "w") as f:
        json.dump(m, f, indent=1)
    return m


if __name__ == "__main__":
    build()
    print("MANIFEST.json written")
