"""Generates /verif/MANIFEST.json from the table below (single source of truth for the interface)."""

import json
import os
import subprocess

HERE = os.path.dirname(os.path.dirname(os.path.abspath(__file__)))

CHECKS = {
    "C02": dict(
        technique="TLC model checking of the exact GF(5039^2) solver model (spec/Solver.tla, MCSolver.tla, family recip) + replay of every TLC-enumerated configuration on the real solver + TLC trace validation of the recorded stage events",
        text="TLC proves reciprocity footprint(m)[s] = forward(unit source at s)[m] (flux and concentration, hence sum(q*fp) = field at the tower for all q by bilinearity) on the exact field model for every configuration in the bounds (grid sizes incl. odd, dx != dy, halo None/0/commensurate/incommensurate, truncating/clamped modes, every on-grid tower cell, every unit source); every enumerated configuration is then replayed on the real solver with random/sparse/smooth sources, MOST/MOSTM/anisotropic profiles and both precisions, and the model's predicted error/shape is compared with the code. Bounded model checking + conformance, not a proof for all sizes.",
        note="Assumes: identities are polynomial (bilinear) so exactness over GF(p^2) transfers to the complex numbers (Schwartz-Zippel, field size 2.5e7); padded size <= 10 per axis in TLC; the upper-boundary square root is an uninterpreted conjugation-equivariant function; floating-point comparison at 1e-10 (double) / 2e-4 (single) relative to the sum scale.",
        design="4/C02",
    ),
}


_SOLVER_TECH = "TLC model checking of the exact GF(5039^2) solver model (spec/Solver.tla, MCSolver.tla, family %s) + replay of every TLC-enumerated configuration on the real solver + TLC trace validation (spec/TraceSolver.tla) of the stage events recorded during the replays"
_SOLVER_NOTE = "Assumes: the checked identities are polynomial in (source, per-mode transfer) so exactness over GF(p^2) transfers to the complex numbers (Schwartz-Zippel, field size 2.5e7); padded size <= 10 per axis and nz <= 5 in TLC (the code has no size-dependent branch other than parity and the clamp, both inside the bounds); the boundary square root / analytic exponential are uninterpreted conjugation-equivariant functions; the model was shown to reproduce the pinned commit's failure sets exactly (harness/faithful.py); floating-point comparison at 1e-10 (double) / 2e-4 (single) relative, bit-identical where the property says exactly."
CHECKS.update({
    "C03": dict(technique=_SOLVER_TECH % "conserve",
        text="TLC checks MeanFlux (mean flux at every level = mean source, footprint weights sum to one), MeanConc (mean concentration = background - mean flux x trapezoidal resistance to the labelled height) and HaloIsPadding (a halo equals explicit zero padding by floor(halo/dx), floor(halo/dy) cells, enlarging the domain, cropping) exactly on the field model for all configurations in the bounds, numerical and analytic; each configuration is replayed on the real solver (means to 1e-10, halo-vs-padding field comparison) and its stage events are validated against the specification. An advisory family (never an alarm) additionally checks the discrete boundary conditions: flux at node 0 = prescribed flux / unit impulse, radiation condition at the top node.",
        note=_SOLVER_NOTE, design="4/C03"),
    "C04": dict(technique=_SOLVER_TECH % "linear",
        text="TLC checks superposition for three coefficient pairs on pseudo-random sources, that the background only offsets the concentration uniformly and never the flux, and that footprint mode ignores the source values, exactly on the field model (numerical and analytic, all halo/mode classes); replays run three real calls per scenario with sign-changing sources and compare to 1e-10 (flux under a background change and footprint-mode independence bit-identically).",
        note=_SOLVER_NOTE, design="4/C04"),
    "C06": dict(technique=_SOLVER_TECH % "translate",
        text="TLC checks, for every whole-cell shift including wrap-around and every tower cell, TranslateSource, TranslateTower, PointReflect (footprint = point reflection about the tower of the unit-source response) and Recentre (dispersion mode with a non-zero measurement point moves that cell to the domain centre) exactly on the field model; with a halo (1, 3 units) the same relations are stated and replayed between all pairs of cells inside the cropped window (TranslateTowerIn, PointReflectIn; negative control: raw halo in the phase shift); replays compare np.roll-ed / window-sliced real outputs on dx != dy grids with oblique anisotropic profiles.",
        note=_SOLVER_NOTE, design="4/C06"),
    "C07": dict(technique=_SOLVER_TECH % "symmetry",
        text="TLC checks MirrorX, MirrorY (source mirrored, wind component negated) and Transpose (all per-axis quantities swapped) exactly on the field model, and the reflection about the domain centre for ANY halo on configurations whose retained mode count is odd (MirrorCentreX/Y, family mirror); the Nyquist exemption set of the mirror identities is derived by the model (difference spectrum supported only on the +-nl/2 rows/columns) and used to filter the replays. Similarity scalings (lengths and K times 2^k; winds and K times 2^k) are replayed bit-identically on the real solver with power-of-two factors.",
        note=_SOLVER_NOTE + " Scale factors other than powers of two are not claimed (int(halo/dx) may change under rounding); homogeneity of the principal square root is a property of numpy, not of the model.", design="4/C07"),
    "C10": dict(technique=_SOLVER_TECH % "levels",
        text="TLC enumerates every injective sequence of levels (all orders, with and without the top node) for nz <= 4 (5 thorough), footprint/dispersion, numerical/analytic, and checks SlotIsSingle, FullColumnSlice, LabelsAsGiven and NoSilentBroadcast on the exact model; each selection is replayed on the real solver: slot k bit-identical to the single-level solve and to the full-column slice, returned heights equal z[levels], scalar/array argument forms; mean_store and return events are validated against the specification's level bookkeeping.",
        note=_SOLVER_NOTE + " Duplicated or out-of-range levels are outside the property.", design="4/C10"),
    "C11": dict(technique=_SOLVER_TECH % "shape",
        text="TLC enumerates grid sizes 2..5 (7 thorough) of both parities, halo None/0/commensurate/incommensurate, even and odd mode requests below/at/above the padded size, both modes, and checks ShapeOrError, ErrorsAreDeclared, LowPass, ClampEq and - registration with a halo - HaloIsPadding on the exact model; the predicted outcome (error kind or exact shape) of every configuration is compared with the real solver, returned coordinates are compared with i*dx, j*dy bit-identically, low-pass behaviour through fft2 of real outputs, clamp equality bit-identically; recorded pad/clamp/spectrum/untruncate/crop/return shapes are validated against the specification.",
        note=_SOLVER_NOTE + " The joint clamp (either axis too large resets both) is modelled as the code does it; the mixed case is not asserted either way.", design="4/C11"),
})


CHECKS.update({
    "C16": dict(technique="TLC exhaustive model checking of spec/Config.tla (scenario met: 7500 forcing patterns) + replay of every pattern through MetConfig.validate / parse_config_dict / n_timesteps / get_step and of a covering subset through run_bldfm_timeseries",
        text="TLC enumerates all 7500 forcing patterns (ustar absent/scalar/list 1..4, the other three fields scalar/list 1..4, z0, timestamps absent/1..4) and checks on the specification that a forcing is rejected iff the property calls it invalid, that exactly one step exists per list entry, that scalars broadcast and that the timestamp or index is attached; every pattern is replayed on the real classes token by token (exact), and a seeded subset is run through the timeseries driver to check the number of results and the per-step parameters. A negative-control configuration with the pinned commit's counting rule must be violated (thorough).",
        note="Token instantiation is injective; list lengths up to 4 (the code has no length-dependent branch); the CLI loop is the same range(n_timesteps) as the driver and is not run separately.", design="4/C16"),
    "C13": dict(technique="TLC model checking of spec/Config.tla (scenario single: 107100 option-lattice x forcing points, call-record invariants) + replay of a seeded sample of lattice points: recorded arguments of the four low-level calls vs the specification's records, high-level result vs explicit pipeline bit-identically, YAML vs dict",
        text="The specification defines SingleCall(options, forcing, step): the argument records of compute_wind_fields, vertical_profiles, ideal_source and steady_state_transport_solver and the returned metadata. TLC checks on the whole lattice that each step uses its own step's and its own tower's tokens with z0 taking precedence. The harness wraps the four functions as seen from bldfm.interface, runs run_bldfm_single for every sampled point and step, compares every recorded argument with the specification's record (objects passed between steps by identity), then calls the low-level functions by hand with the specification's numbers and compares grid/conc/flx/metadata bit-identically; load_config(yaml) must equal parse_config_dict(dict).",
        note="Sampling of the lattice for replay is seeded (every 150th point quick, every 12th thorough); TLC itself covers all points. Exceptions raised identically by both sides (e.g. OAAHOC with z0-only forcing) count as agreement.", design="4/C13"),
})


CHECKS.update({
    "C15": dict(technique="TLC model checking of spec/Cache.tla (all scenarios x crash at every step) + execution of every TLC behaviour on the real solver with a real cache directory (bit-identical to the cache-free solve, hit/solved compared) + truncation of a stored entry at byte offsets + TLC trace validation of the cache hook events (spec/TraceCache.tla)",
        text="Requests are vectors over every parameter of the solver signature. TLC explores identical repeats, every single-parameter change r -> r' -> r (with and without process boundaries), the three halo forms, corrupted entries, and a crash at every step of every request (up to two crashes), and checks Transparent (returned value = Sol(request)), StoreSound, Effective (identical repeat is a hit and does not solve) and NeverFatal; negative-control configurations with the pinned commit's key, unresolved halo and unguarded load must each be violated (thorough). Every complete behaviour is executed on the real solver (all crash-free ones plus a seeded sample of the crashing ones in quick, all in thorough): result bit-identical to the cache-free solve, predicted hit observed, nothing raises; a stored .npz is truncated at every byte offset (thorough; every 16th plus structure boundaries quick) and bit-flipped at sampled offsets; the recorded cache events are validated against the store of the specification.",
        note="A process boundary is a fresh cache object on the same directory (the class keeps nothing in memory); a crash during the store is simulated by writing half of the archive and aborting; concurrent readers/writers are explored in the model only. The store is written in place (the model's AtomicPut = FALSE): safety relies on an unreadable archive being a miss.", design="4/C15"),
})


CHECKS.update({
    "C12": dict(technique="TLC model checking of spec/Runtime.tla (reachable global states x requests, shortest history each) + execution of every TLC history in one real process (bit-identical repeats, fresh-subprocess references, projected global state) + TLC trace validation of the runtime hook events (spec/TraceRuntime.tla)",
        text="Runtime.tla models config.NUM_THREADS, numba's thread count, the compiled-kernel table, the FFT-manager singleton and pyfftw's thread setting, with a solve split into the code's sub-steps (source FFT, thread set-up, kernel selection, final FFT). TLC checks Pure (what a solve computes depends only on the request and the thread setting; every FFT runs single-threaded), ManagerSingleAfterSolve, KernelMatchesSetting on all histories up to 4 (6 thorough) operations over 8 requests, thread counts 1/2/4/8 and manager resets, and emits a shortest history per reachable (state, request). Each history is executed from a process state reset to a fresh process's: every result bit-identical to the first in-process result of that request under the same kernel variant and within 1e-12 (double) / 1e-5 (single) of the same request in a fresh subprocess; a random history of 150 (1500) operations follows; single vs double within 1e-5 of the maximum; all recorded events validated against the specification's sub-steps including the logged thread counts.",
        note="In-process reset clears the kernel table and the manager (what a fresh process has); numba's thread count is compared only after the package has set it; the FFTW plan cache and wisdom file are not modelled (their effect would show as a result difference, which is compared).", design="4/C12"),
    "C14": dict(technique="TLC model checking of spec/Drivers.tla (all interleavings of take/init/solve/finish across workers) + real driver runs for every enumerated shape with delay-steered completion orders, every field compared with run_bldfm_single + TLC trace validation of the events of all processes (spec/TraceDrivers.tla)",
        text="Drivers.tla models pool.map over forked workers: an idle worker takes the next unstarted task, resets the inherited thread/FFT state, solves, the result lands at the task's position, and the positional list is re-assembled per strategy. TLC explores every interleaving for towers 1..2 x steps 1..2 x workers 1..3 (3x3x4 thorough, 3.5M states) x 3 strategies x parent threads 1/4 and checks KeysInConfigOrder, OnePerStep, EachIsSingle, EveryTaskOnce, InitBeforeSolve; three negative controls (completion-order collection, wrong slice stride, no worker reset) must be violated (thorough). Every shape is run on the real drivers (parallel with TLC completion orders and random delays, more workers than tasks, serial timeseries/multitower, parent with 4 threads, cache on with a directory pre-populated by runs with other levels/grid and repeated met conditions) and every entry is compared field by field, bit-identically, with run_bldfm_single; the per-process event sequences of every parallel run must interleave into a behaviour of the specification. The serial drivers and the CLI loop (bldfm run: towers outer, steps inner, parallel.num_threads applied) are strategies of the same specification and are driven and traced too; a direction sweep in which only wind_dir varies and a series with a repeated record are compared entry by entry. The composition System.tla (pool x per-process runtime state x shared in-place cache directory) is model-checked and eight whole cached parallel runs are validated against it (TraceSystem).",
        note="Schedules are steered by sleeps, not controlled; the oracle does not depend on the schedule. Grouping of worker events into runs uses the append order of the trace file (the parent writes parallel_begin before forking and parallel_end after joining). A user-supplied surface flux is documented not to reach workers.", design="4/C14"),
})


CHECKS.update({
    "C18": dict(technique="TLC exhaustive model checking of spec/NetcdfIO.tla (token placement through Save / Sel for every result-set shape) + save/load of every enumerated shape with injectively instantiated token arrays on the real functions, bit-for-bit comparison",
        text="NetcdfIO.tla models save_footprints_to_netcdf as the code's loops (data[t][ti] := results[name_ti][t], tower coordinate from the result keys, metadata from the configuration's tower list, time and met values from the first tower) and selection by label. TLC checks SelReturnsOwn, NothingLeftEmpty, MetaOwn, MetPerStep for towers 1..4 x steps 1..4 x 2-D / 1..3 levels x index/label timestamps x ustar/z0 forcing; two negative controls (transposed placement, reversed metadata) must be violated (thorough). Every shape is saved and loaded by the real functions with a distinct array per (tower, step, level, field) containing negatives, denormals, +-0, 1e300 and float32-exact values; fields selected by name and label and by position, coordinates, timestamps, per-tower metadata and per-step met values (absent ustar = NaN) are compared bit-for-bit / exactly; solver-produced result sets go through the same comparison.",
        note="Result sets are driver-shaped (keys in configuration order), the documented contract of the function.", design="4/C18"),
    "C20": dict(technique="TLC exhaustive model checking of the definitions in spec/SourceArea.tla (allowed result sets, contour definition, their stated consequences) + exact replay of every enumerated (f, g) on get_source_area / extract_percentile_contour + TLC judgement of observations recorded from the real functions with the five built-in base functions",
        text="SourceArea.tla defines the rescaled value of a cell as a SET (sum of f over cells with larger g plus any subset-sum of the tied cells) and the percentile contour as the fewest highest-valued cells reaching p of the total. TLC checks for every f in 0..2 (0..3) and g in 0..2 on 5 (6) cells that the definitions imply the range, antitonicity, invariance under increasing maps of g and under common permutations, monotonicity of area/level in p and the scaling law. Each enumerated pair is run through the real functions in several array shapes and coordinate forms: every cell's value must be a member of its allowed set, level and area must equal the definition's (exact arithmetic: small integers, dyadic p). In the other direction, 400 (4000) observations on random/sparse/tie-heavy integer fields up to 5x6 with contribution/circular/upwind/crosswind/sector/random base functions and 2-D/3-D inputs are judged by TLC against the definitions.",
        note="All data are small integers stored as floats and p is dyadic, so comparisons are exact; the open upper end of the range [0, total) holds for cells with f > 0 (a zero cell ranked last gets exactly total), which is what the definition implies and what is checked.", design="4/C20"),
    "C05": dict(technique="TLC evaluation of the cubic Taylor polynomial of the layer propagator by exact rational matrix arithmetic (spec/StepAlgebra.tla, 144 probe points, CodeIsTaylor3) + probe of the real ivp_solver for one layer at the same points against the specification's rational coefficients within the rational remainder bound",
        text="Claimed core of C05: the order to which the exponential-integrator step expands the exact layer propagator. The reference I + M + M^2/2 + M^3/6 is computed by matrix multiplication in exact complex rationals and compared with the code's four formulas as modelled (negative control: the pinned sign of the cubic term of b must be violated); the real ivp_solver is called for one layer from (1,0) and (0,1) with dyadic inputs and each of its coefficients a, b, c, d must lie within R4 = sum_{n>=4} |M|^n/n! (+8 ulp) of the rational value. A higher-order scheme passes; a sign or coefficient slip up to dz^3 exceeds the tolerance by a factor >= 10 at 56 of the 144 points. The mean-mode profile and the shared plumbing of the analytic branch are covered by the Solver model (C03, C10, C11 scenarios with analytic = TRUE).",
        note="NOT decided here: the transcendental closed form exp(-beta h), Kz^-1/beta of the analytic branch and the measured eightfold error reduction (the latter follows from the local order by the standard one-step convergence theorem, assumed). ivp_solver is a module-level function, not exported API; if it disappears the check reports a machinery failure, not a violation.", design="4/C05"),
    "C08": dict(technique="TLC model checking of the convention chain in spec/Orientation.tla (15-degree sector abstraction, 24 directions, two negative controls) + TLC judgement of five-stage observations recorded from parse_config_dict / compute_wind_fields / vertical_profiles / run_bldfm_single",
        text="Orientation.tla states the chain wind_dir -> (u, v) -> profiles -> solver orientation -> grid axes -> lat/lon placement on compass sectors and checks UpwindOfTower and the cardinal mapping (0/90/180/270 blow toward S/W/N/E) for all 24 directions; exchanging sin and cos or treating the direction as blown-to violates it. For every direction x closure MOST/MOSTM/CONSTANT x stable/unstable x square/oblong grid (tower quadrant and speed seeded) the real interface is run and the sector of the decomposed wind, of the profile wind at the measurement height and at the top node, of the tower-to-centroid bearing, the signs of the tower's local coordinates and the monotonicity of the returned X/Y are recorded; TLC judges each observation stage by stage. Speed preservation is compared by the harness at 1e-12.",
        note="A bearing within 7.5 degrees of the wind direction is accepted as 'a few degrees' (largest observed error 4.8 degrees); directions between the multiples of 15 degrees are not sampled; the roughness-height node is not observed (the unstable log-law speed there is of rounding size and the property says nothing about it).", design="4/C08"),
})

CHECKS.update({
    "C19": dict(technique="TLC model checking of three specifications of the reference model's finite case analysis - spec/KMTypes.tla (an abstract interpreter of NumPy number kinds over the statement-by-statement transcription of estimateFootprint / estimateZ0), spec/KMGrid.tla (which output cell holds which [upwind, |crosswind|] value for wind directions in multiples of 90 degrees), spec/KMZ0.tla (the smoothing window as a window on the circle) - + execution of every enumerated state on the real functions, the value tokens instantiated by the published equations written independently in the harness (scipy Gamma functions)",
        text="KMTypes: every combination of int/float kinds of the eleven inputs of estimateFootprint and of the five arrays of estimateZ0 x stable/unstable x wind direction given or not / smoothing on or off (8320 initial states); NoLossyStore (no masked store casts a float expression into an integer array), ResultIsFloat, WellFormed. Each combination is run on the real functions with integer-valued Python int / np.int32 / np.int64 / float / np.float64 inputs and must equal the all-float call (1e-12); the helpers' result kinds are observed directly. KMGrid: extents with partial cells, receptor on a cell centre, edge, corner or outside the grid, wind from 0/90/180/270 (thorough also 360, 450, -90) or none; CellByCell (the code's polar-coordinate route = the geometric definition), ZeroDownwind, SymmetricAboutAxis, Coordinates, RotationAboutReceptor, Periodic, StagesAgree. Each configuration is run on the real function for several parameter sets (stable, unstable, near neutral) and resolutions (float and int): shape, cell-centre coordinates, non-negativity, exact zeros downwind, every cell equal to crosswind-integrated footprint x Gaussian x cell area at relative 1e-9. KMZ0: every one-degree bin x half windows 1..89: EveryObservationOnce, WindowIsCircular, RotationInvariant; the real estimateZ0 is run with one observation per half degree against the circular median and under six common rotations, the raw values against the diabatic log law. In the same replay: arbitrary wind angles pointwise (60 / 1500 random grids) and the captured mass against the regularised incomplete gamma under refinement (60/240/960 cells). Seven negative controls; the pinned-switch model (HelperAlloc = like) predicts exactly the 4160 kind combinations on which the pinned code differs.",
        note="Integer-typed inputs carry integer values. float32 inputs are outside the property's list of types. m uses the measured wind speed (Eq. 36) and U the diabatic log law (Eq. 31), as the anchors name them. Wind directions of estimateZ0 lie in [0, 360); half windows of 90 degrees and more are not circular in the code (negative control MC_KMZ0_neg_wide; default 22). The limit statement (mass under refinement) is checked at three resolutions with an absolute error bound of 2e-3 at the finest, observed 1e-5.", design="4/C19"),
})

NOT_APPLICABLE = {
    "C01": "asymptotic numerical accuracy against an ODE boundary-value solution: no discrete state/transition content for a TLA+ model; needs a numerical differential oracle (different technique)",
    "C09": "real-valued identities of transcendental similarity formulas and floating-point arange rounding; nothing for TLC (integers only) to enumerate",
    "C17": "accuracy/round-trip of an equirectangular projection against a great-circle oracle: floating-point trigonometry only; the two axis signs are observed in C08",
}


def build():
    props = [json.loads(l) for l in open(os.path.join(HERE, "properties.jsonl"))]
    hooks = subprocess.run(["git", "-C", "/repo", "log", "--format=%h %s"], stdout=subprocess.PIPE, text=True).stdout.splitlines()
    hook_commits = [l.split()[0] for l in hooks if l.split(" ", 1)[1].startswith("verif hooks")]
    m = {
        "version": 1,
        "setup_cmd": "bin/setup",
        "hooks": {
            "guard": "BLDFM_VERIF",
            "enable": "BLDFM_VERIF=1 BLDFM_VERIF_TRACE=<file> in the environment; the package is imported from /repo/src (editable install), there is no build step. bin/check sets both.",
            "baseline_off_cmd": "cd /repo && env -u BLDFM_VERIF -u BLDFM_VERIF_TRACE /venv/bin/python -m pytest -ra -q -p no:cacheprovider --timeout=900 --continue-on-collection-errors",
            "source_commits": hook_commits,
            "add_only": True,
        },
        "engines": [
            {"name": "tlc", "path": "/opt/veriftools/tla/tla2tools.jar", "serves_properties": sorted(CHECKS), "kind_free_text": "TLC explicit-state model checker on the TLA+ specification in spec/ (model checking, scenario generation, trace validation)"},
            {"name": "harness", "path": "/verif/harness", "serves_properties": sorted(CHECKS), "kind_free_text": "Python conformance harness: replays TLC-generated scenarios on the real package and feeds recorded hook traces back to TLC"},
        ],
        "checks": [],
        "not_applicable": [],
        "notes": "See DESIGN.md. Known findings and fixed defects: known_findings.json.",
    }
    for p in props:
        pid = p["id"]
        if pid in CHECKS:
            c = CHECKS[pid]
            m["checks"].append(
                {
                    "property_id": pid,
                    "quick_cmd": "bin/check %s --tier quick" % pid,
                    "thorough_cmd": "bin/check %s --tier thorough" % pid,
                    "evidence_file": "/verif/evidence/%s.json" % pid,
                    "replay_cmd_template": "bin/check %s --replay {path}" % pid,
                    "engine": "tlc",
                    "level_claimed": {"category": "model_checking", "text": c["text"], "design_ref": "DESIGN.md section " + c["design"]},
                    "level_note": c["note"],
                    "technique": c["technique"],
                }
            )
        elif pid in NOT_APPLICABLE:
            m["not_applicable"].append({"property_id": pid, "reason": NOT_APPLICABLE[pid]})
        else:
            m["not_applicable"].append({"property_id": pid, "reason": "check not built yet (work in progress; planned in DESIGN.md section 4)"})
    with open(os.path.join(HERE, "MANIFEST.json"), "w") as f:
        json.dump(m, f, indent=1)
    return m


if __name__ == "__main__":
    build()
    print("MANIFEST.json written")
