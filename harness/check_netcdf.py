"""C18: NetCDF export / import is lossless and keeps every label attached to its data."""

import json
import os

import numpy as np

from . import common
from .common import Check, MachineryError, run_tlc, seed, tier

SPECIAL = np.array([0.0, -0.0, 5e-324, -5e-324, 2.2250738585072014e-308, 1e300, -1e300, 1.0 + 2**-52, -3.5, 1e-5, np.float32(0.1), 0.1, 123456789.123456789, -7e-200])


def token_field(rng, i, t, l, ny, nx, which):
    """injective instantiation of the token F(i, t, l): a distinct array per (tower, step, level, field)"""
    a = rng.standard_normal((ny, nx)) * 10.0 ** rng.integers(-8, 8)
    a.flat[rng.choice(a.size, size=min(a.size, 6), replace=False)] = rng.choice(SPECIAL, size=min(a.size, 6))
    a.flat[0] = (1000 * i + 10 * t + l) * (1.0 if which == "flx" else -1.0) + 0.5  # makes the token recognisable and distinct
    return a


def build(shape, rng, solver_results=False):
    from bldfm.config_parser import parse_config_dict

    nt, ns, nl = shape["nt"], shape["ns"], shape["nl"]
    ny, nx = 4, 5
    names = ["west_mast", "T10", "east_mast", "T2"] + ["m%02d" % (97 - 7 * k) for k in range(12)]   # deliberately not in sorted order
    towers = [{"name": names[i], "lat": 50.0 + 0.0011 * (i + 1), "lon": 11.0 - 0.0007 * (i + 1), "z_m": 5.0 + 1.5 * i} for i in range(nt)]
    if nt >= 2:
        towers[-1]["lat"] = 0.0          # a tower on the equator, one on the Greenwich meridian: 0.0 is a position
    if nt >= 3:
        towers[0]["lon"] = 0.0
    met = {"mol": [-50.0 - 3.0 * t for t in range(ns)], "wind_speed": [2.0 + 0.25 * t for t in range(ns)], "wind_dir": [10.0 + 33.0 * t for t in range(ns)]}
    if shape["forcing"] == "ustar":
        met["ustar"] = [0.2 + 0.01 * t for t in range(ns)]
    else:
        met["z0"] = 0.05
    if shape["ts"] == "label":
        met["timestamps"] = ["%d:30" % (8 + t) for t in range(ns)]   # '8:30' '9:30' '10:30' ...: the width of the labels grows
    if shape["ts"] == "number":
        met["timestamps"] = [1000 + 30 * ((7 * t + 2) % 11) for t in range(ns)]   # integers that are neither the position nor ascending
    raw = {"domain": {"nx": nx, "ny": ny, "xmax": 100.0, "ymax": 60.0, "nz": 3, "ref_lat": 50.0, "ref_lon": 11.0}, "towers": towers, "met": met}
    cfg = parse_config_dict(raw)
    x = np.linspace(0, 100.0, nx, endpoint=False)
    y = np.linspace(0, 60.0, ny, endpoint=False)
    zl = np.array([4.9, 0.3, 1.7])[: max(nl, 1)]   # levels are kept in the order they were requested: not ascending
    results = {}
    for i, tw in enumerate(cfg.towers, 1):
        lst = []
        for t in range(ns):
            if nl == 0:
                X, Y = np.meshgrid(x, y)
                grid = (X, Y, np.full((ny, nx), 4.9))
                flx = token_field(rng, i, t + 1, 0, ny, nx, "flx")
                conc = token_field(rng, i, t + 1, 0, ny, nx, "conc")
            else:
                Z, Y, X = np.meshgrid(zl, y, x, indexing="ij")
                grid = (X, Y, Z)
                flx = np.stack([token_field(rng, i, t + 1, l + 1, ny, nx, "flx") for l in range(nl)])
                conc = np.stack([token_field(rng, i, t + 1, l + 1, ny, nx, "conc") for l in range(nl)])
            lst.append({"grid": grid, "conc": conc, "flx": flx, "tower_name": tw.name, "tower_xy": (tw.x, tw.y), "timestamp": cfg.met.get_step(t)["timestamp"], "params": cfg.met.get_step(t)})
        if shape["ts"] == "number":   # NumPy integers as well as Python ones
            for r_ in lst[1::2]:
                r_["timestamp"] = np.int64(r_["timestamp"])
        results[tw.name] = lst
    return cfg, results, (x, y, zl)


def bits(a):
    return np.ascontiguousarray(np.asarray(a, dtype=np.float64)).view(np.uint64)


def check_shape(chk, shape, rng, workdir, results_override=None):
    from bldfm.io import save_footprints_to_netcdf, load_footprints_from_netcdf

    cfg, results, (x, y, zl) = build(shape, rng) if results_override is None else results_override
    path = os.path.join(workdir, "out_%d.nc" % rng.integers(1 << 30))
    sc = {"kind": "netcdf", "shape": shape}
    try:
        save_footprints_to_netcdf(results, cfg, path)
        ds = load_footprints_from_netcdf(path)
    except Exception as ex:
        chk.violation("save/load raised %r for %s" % (ex, shape), sc, klass={"check": "exception"})
        return
    try:
        compare_loaded(chk, ds, cfg, results, x, y, zl, shape, sc)
    finally:
        ds.close()
        os.remove(path)


def compare_loaded(chk, ds, cfg, results, x, y, zl, shape, sc):
    """a loaded dataset against the result set that was saved: labels, coordinates, every field bit for bit, metadata, met"""
    if True:
        names = [t.name for t in cfg.towers]
        ns = shape["ns"]
        if list(ds["tower"].values) != names:
            return chk.violation("tower coordinate %s, expected %s" % (list(ds["tower"].values), names), sc, klass={"check": "tower_coord"})
        labels = [str(results[names[0]][t]["timestamp"]) for t in range(ns)]
        if [str(v) for v in ds["time"].values] != labels:
            return chk.violation("time coordinate %s, expected %s" % (list(ds["time"].values), labels), sc, klass={"check": "time_coord"})
        if not (np.array_equal(bits(ds["x"].values), bits(x)) and np.array_equal(bits(ds["y"].values), bits(y))):
            return chk.violation("x/y coordinates changed", sc, klass={"check": "xy"})
        if shape["nl"] > 0 and not np.array_equal(bits(ds["z"].values), bits(zl)):
            return chk.violation("z coordinate changed", sc, klass={"check": "z"})
        for i, tw in enumerate(cfg.towers):
            for t in range(ns):
                sel = ds.sel(tower=tw.name, time=labels[t])
                for var, key in (("footprint", "flx"), ("concentration", "conc")):
                    got = sel[var].values
                    want = results[tw.name][t][key]
                    if got.shape != np.shape(want) or not np.array_equal(bits(got), bits(want)):
                        return chk.violation("selecting tower %s, time %s returns a %s field that is not bit-identical to that tower's and step's (shape %s vs %s)" % (tw.name, labels[t], var, got.shape, np.shape(want)),
                                             sc, klass={"check": "field", "var": var})
                # positional access agrees with the labels
                if not np.array_equal(bits(ds["footprint"].values[t, i]), bits(results[tw.name][t]["flx"])):
                    return chk.violation("footprint[time=%d, tower=%d] is not that entry's field" % (t, i), sc, klass={"check": "field_pos"})
            k = list(ds["tower"].values).index(tw.name)
            if (float(ds["tower_lat"].values[k]), float(ds["tower_lon"].values[k]), float(ds["tower_z"].values[k])) != (tw.lat, tw.lon, tw.z_m):
                return chk.violation("metadata next to tower %s are not its own" % tw.name, sc, klass={"check": "meta"})
        for t in range(ns):
            p = results[names[0]][t]["params"]
            for var in ("ustar", "mol", "wind_speed", "wind_dir"):
                got = float(ds[var].values[t])
                want = p[var]
                if want is None:
                    if not np.isnan(got):
                        return chk.violation("absent %s stored as %r, expected NaN" % (var, got), sc, klass={"check": "met"})
                elif got != want:
                    return chk.violation("%s at step %d is %r, expected %r" % (var, t, got, want), sc, klass={"check": "met"})
    return False


GEN_SHAPES = [  # result sets of different shapes and labels, one per generation of a save/load history
    {"nt": 2, "ns": 3, "nl": 0, "ts": "label", "forcing": "ustar"}, {"nt": 1, "ns": 2, "nl": 2, "ts": "index", "forcing": "z0"},
    {"nt": 3, "ns": 1, "nl": 1, "ts": "label", "forcing": "ustar"}, {"nt": 2, "ns": 3, "nl": 0, "ts": "label", "forcing": "ustar"},
    {"nt": 2, "ns": 2, "nl": 3, "ts": "index", "forcing": "ustar"},
]


def replay_history(chk, hist, rng, workdir, idx):
    """one behaviour of spec/NetcdfFiles.tla on the real functions: a load returns what was last saved under that path"""
    from bldfm.io import save_footprints_to_netcdf, load_footprints_from_netcdf

    paths = {}
    saved = {}
    n = 0
    brief = [(o["op"], o["path"]) for o in hist]
    try:
        for k, o in enumerate(hist):
            path = paths.setdefault(o["path"], os.path.join(workdir, "hist_%d_%d.nc" % (idx, o["path"])))
            sc = {"kind": "netcdf_history", "history": brief, "failed_at": k}
            if o["op"] == "save":
                shape = GEN_SHAPES[(o["gen"] - 1) % len(GEN_SHAPES)]
                cfg, results, (x, y, zl) = build(shape, rng)
                try:
                    save_footprints_to_netcdf(results, cfg, path)
                except Exception as ex:
                    chk.violation("save number %d of the history %s raised %r" % (o["gen"], brief, ex), sc, klass={"check": "history_exception"})
                    return n
                saved[o["path"]] = (cfg, results, x, y, zl, shape)
                continue
            if o["gen"] < 0:
                try:
                    load_footprints_from_netcdf(path).close()
                    chk.drift_note("loading a path nothing was saved to did not raise (history %s)" % brief)
                except Exception:
                    pass
                continue
            try:
                ds = load_footprints_from_netcdf(path)
            except Exception as ex:
                chk.violation("load at step %d of the history %s raised %r" % (k, brief, ex), sc, klass={"check": "history_exception"})
                return n
            n += 1
            before = len(chk.violations)
            try:
                cfg, results, x, y, zl, shape = saved[o["path"]]
                compare_loaded(chk, ds, cfg, results, x, y, zl, shape, sc)
            except Exception as ex:
                chk.violation("the dataset loaded at step %d of the history %s is not the set last saved under that path (%r)" % (k, brief, ex), sc, klass={"check": "history_stale"})
            finally:
                ds.close()
            if len(chk.violations) > before:
                chk.violations[-1]["what"] = "history %s, load at step %d: " % (brief, k) + chk.violations[-1]["what"]
                return n
    finally:
        for pth in paths.values():
            if os.path.exists(pth):
                os.remove(pth)
    return n


def main():
    chk = Check("C18")
    t = tier()
    r = run_tlc("NetcdfIO", "MC_Netcdf")
    chk.add_tlc("MC_Netcdf", r)
    if not r.ok:
        raise MachineryError("MC_Netcdf: %s violated" % r.violated)
    if t == "thorough":
        for neg in ("MC_Netcdf_neg_place", "MC_Netcdf_neg_meta"):
            rn = run_tlc("NetcdfIO", neg)
            chk.add_tlc(neg, rn, expect_violation=True)
            if rn.ok:
                raise MachineryError("negative control %s not violated" % neg)
    work = common.scratch("c18_work")
    rng = np.random.default_rng(seed())
    shapes = sorted(r.emitted, key=lambda s: json.dumps(s, sort_keys=True))
    for s in shapes:
        chk.case(json.dumps(s, sort_keys=True), nontrivial=s["nt"] * s["ns"] > 1)
        check_shape(chk, s, rng, work)
    chk.traces = len(shapes)
    # LARGE result sets (TLC enumerates up to 4 towers x 4 steps x 3 levels; the placement does not depend on the size -
    # an implementation might): many towers, many steps, both timestamp forms
    for big in ({"nt": 9, "ns": 14, "nl": 3, "ts": "label", "forcing": "ustar"}, {"nt": 16, "ns": 3, "nl": 0, "ts": "index", "forcing": "z0"},
                {"nt": 2, "ns": 40, "nl": 1, "ts": "label", "forcing": "ustar"}, {"nt": 3, "ns": 11, "nl": 0, "ts": "number", "forcing": "ustar"}):
        chk.case(json.dumps(big, sort_keys=True))
        check_shape(chk, big, rng, work)
        chk.traces += 1
    # the two fields are independent: a footprint of small integers / zeros next to a full-precision concentration and
    # the other way round (a storage decision taken on one field must not reach the other)
    for which in ("flx", "conc"):
        shp = {"nt": 2, "ns": 2, "nl": 2, "ts": "label", "forcing": "ustar"}
        cfgm, resm, coords = build(shp, rng)
        for lst in resm.values():
            for r_ in lst:
                r_[which] = np.round(np.asarray(r_[which]) * 0 + rng.integers(0, 7, size=np.shape(r_[which]))).astype(float)
        chk.case(json.dumps(["integer_" + which, shp], sort_keys=True))
        check_shape(chk, dict(shp, integer_field=which), rng, work, results_override=(cfgm, resm, coords))
        chk.traces += 1
    # a PART of a series is saved (the spin-up step dropped; every second step): the file describes the results it was
    # given - their labels, their met values - not the configuration's full series
    for shp, pick in (({"nt": 2, "ns": 4, "nl": 0, "ts": "label", "forcing": "ustar"}, [1, 2, 3]), ({"nt": 1, "ns": 4, "nl": 2, "ts": "number", "forcing": "ustar"}, [0, 2]),
                      ({"nt": 2, "ns": 3, "nl": 1, "ts": "index", "forcing": "z0"}, [2, 1])):
        cfgm, resm, coords = build(shp, rng)
        resm = {name: [lst[i_] for i_ in pick] for name, lst in resm.items()}
        chk.case(json.dumps(["part of a series", shp, pick], sort_keys=True))
        check_shape(chk, dict(shp, ns=len(pick), part_of_series=pick), rng, work, results_override=(cfgm, resm, coords))
        chk.traces += 1
    # histories of saves and loads over paths in one process (spec/NetcdfFiles.tla)
    rf = run_tlc("NetcdfFiles", "MC_NetcdfFiles", workers=4)
    chk.add_tlc("MC_NetcdfFiles", rf)
    if not rf.ok:
        raise MachineryError("MC_NetcdfFiles: %s violated" % rf.violated)
    if t == "thorough":
        rn = run_tlc("NetcdfFiles", "MC_NetcdfFiles_neg_memo", workers=4)
        chk.add_tlc("MC_NetcdfFiles_neg_memo", rn, expect_violation=True)
        if rn.ok:
            raise MachineryError("negative control MC_NetcdfFiles_neg_memo not violated")
    hists = sorted((e["hist"] for e in rf.emitted), key=lambda h: json.dumps(h, sort_keys=True))
    hists = [h for h in hists if any(o["op"] == "load" and o["gen"] > 0 for o in h)]
    if t == "quick":
        hists = [hists[i] for i in sorted(int(x) for x in rng.choice(len(hists), size=min(len(hists), 120), replace=False))]
    nl_ = 0
    for i, h in enumerate(hists):
        chk.case(json.dumps(h, sort_keys=True))
        nl_ += replay_history(chk, h, rng, work, i)
        if len(chk.violations) > 30:
            break
    chk.extra["save_load_histories"] = len(hists)
    chk.extra["history_loads_compared"] = nl_
    chk.traces += len(hists)
    # solver-produced results (covering subset): drivers' output goes through the same path
    from bldfm import run_bldfm_multitower
    from . import check_drivers as cd

    n_solver = 0
    for (nt, ns, levels) in ([(2, 3, None), (3, 2, [1, 3])] if t == "quick" else [(1, 1, None), (2, 3, None), (3, 2, [1, 3]), (3, 3, [0, 2, 4]), (1, 3, [2])]):
        cfg = cd.make_config(nt, ns, levels=levels)
        res = run_bldfm_multitower(cfg)
        first = res[cfg.towers[0].name][0]
        X, Y, Z = first["grid"]
        if np.ndim(X) == 3:
            x, y, zl = X[0, 0, :], Y[0, :, 0], Z[:, 0, 0]
        else:
            x, y, zl = X[0, :], Y[:, 0], np.array([0.0])
        shape = {"nt": nt, "ns": ns, "nl": len(levels) if (levels and np.ndim(X) == 3) else 0, "ts": "label", "forcing": "ustar", "solver": True}
        chk.case(json.dumps(shape, sort_keys=True))
        check_shape(chk, shape, rng, work, results_override=(cfg, res, (x, y, zl)))
        n_solver += 1
    chk.extra["solver_result_sets"] = n_solver
    chk.extra["exhaustive"] = True
    chk.rule = "TLC enumerates every result-set shape (towers 1..4 x steps 1..4 x 2-D / 1..3 levels x index/label/number timestamps x ustar/z0); each is saved and loaded with token arrays (distinct per tower/step/level, incl. denormals, +-0, 1e300) and compared bit-for-bit; non-trivial = more than one (tower, step)"
    for s in shapes[:: max(1, len(shapes) // 3)][:3]:
        chk.sample(s)
    return chk.finish()
