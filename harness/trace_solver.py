"""Code -> specification: validate recorded solver-call traces against spec/TraceSolver.tla."""

import json
import os
from fractions import Fraction
from math import gcd

from . import common
from .common import MachineryError, run_tlc

SOLVER_EVENTS = {"raise", "pad", "clamp", "spectrum", "modes", "thread_setup", "kernel_call", "mean_store", "untruncate", "crop", "return"}
MAXINT = 10**6


def read_events(path):
    out = []
    if not os.path.exists(path):
        return out
    with open(path) as f:
        for line in f:
            line = line.strip()
            if not line:
                continue
            try:
                out.append(json.loads(line))
            except ValueError:
                continue
    return out


def split_calls(events):
    """group events into solver calls: per pid, from an `enter` to the next `enter` (exclusive)."""
    calls = []
    cur = {}
    for e in sorted(events, key=lambda r: (r["pid"], r["seq"])):
        pid = e["pid"]
        if e["ev"] == "enter":
            if pid in cur:
                calls.append(cur[pid])
            cur[pid] = {"enter": e, "ev": []}
        elif e["ev"] == "return_cached":
            if pid in cur:
                cur[pid]["cached"] = True
        elif e["ev"] in SOLVER_EVENTS and pid in cur:
            if cur[pid]["ev"] and cur[pid]["ev"][-1]["ev"] in ("return", "raise"):
                continue  # events after the end of the call (e.g. a kernel call from another entry point)
            cur[pid]["ev"].append(e)
    calls.extend(cur.values())
    return calls


def _fgcd(vals):
    """gcd of non-zero fractions = gcd(numerators scaled to the common denominator) / lcm(denominators)"""
    vals = [abs(v) for v in vals if v != 0]
    if not vals:
        return Fraction(1)
    l = 1
    for v in vals:
        l = l * v.denominator // gcd(l, v.denominator)
    g = 0
    for v in vals:
        g = gcd(g, v.numerator * (l // v.denominator))
    return Fraction(g, l)


def to_model_call(call):
    """Convert a recorded call to the integer form used by TraceSolver.tla; None if not representable."""
    en = call["enter"]
    try:
        ny, nx = en["shape"]
        xmx, ymx = (Fraction(v) for v in en["domain"])
        dx, dy = xmx / nx, ymx / ny
        xm, ym = (Fraction(v) for v in en["meas_pt"])
        halo = None if en["halo"] is None else Fraction(en["halo"])
        u = _fgcd([dx, dy, xm, ym] + ([halo] if halo is not None else []))
        ints = {"ax": dx / u, "ay": dy / u, "xm": xm / u, "ym": ym / u, "halo": (halo / u if halo is not None else Fraction(99999))}
        if any(v.denominator != 1 or abs(v.numerator) > MAXINT for v in ints.values()):
            # the measurement point (e.g. a tower position converted from lat/lon) is usually what has no small common
            # unit with the grid; it does not enter any integer fact of the stages, so it is left out of the unit
            u = _fgcd([dx, dy] + ([halo] if halo is not None else []))
            ints = {"ax": dx / u, "ay": dy / u, "xm": Fraction(0), "ym": Fraction(0), "halo": (halo / u if halo is not None else Fraction(99999))}
        for k, v in ints.items():
            if v.denominator != 1 or abs(v.numerator) > MAXINT:
                return None
        if ints["ax"] * (nx + 2 * (ints["halo"] if halo is not None else max(nx * ints["ax"], ny * ints["ay"]))) > 10**8:
            return None
        lv = en["levels"]
        if en["levels_ndim"] == 0:
            lv = [lv]
        lv = [int(x) for x in lv]
        if any(x < 0 or x >= en["nz"] for x in lv) or len(set(lv)) != len(lv) or halo is not None and halo < 0:
            return None
        cfg = {
            "nx": nx, "ny": ny, "nz": en["nz"], "mx": int(en["modes"][0]), "my": int(en["modes"][1]),
            "fp": bool(en["footprint"]), "an": bool(en["analytic"]), "prec": str(en["precision"]), "lv": lv,
        }
        cfg.update({k: int(v) for k, v in ints.items()})
    except Exception:
        return None
    evs = []
    for e in call["ev"]:
        r = {"e": e["ev"]}
        k = e["ev"]
        if k == "raise":
            r["kind"] = e["kind"]
        elif k == "pad":
            r.update(px=e["px"], py=e["py"], nxe=e["nxe"], nye=e["nye"], padded=e["padded"])
        elif k == "clamp":
            r.update(nlx=e["nlx"], nly=e["nly"], dlx=e["dlx"], dly=e["dly"])
        elif k == "spectrum":
            r.update(shape=e["shape"])
        elif k == "modes":
            r.update(ilx=[int(v) for v in e["ilx"]], ily=[int(v) for v in e["ily"]])
        elif k == "mean_store":
            r.update(node=e["node"], slot=e["slot"])
        elif k == "untruncate":
            r.update(shape=e["shape"])
        elif k == "crop":
            r.update(full=e["full"], shape=e["shape"])
        elif k == "return":
            zall = list(e["zall"])
            zidx = []
            zl = e["zlabels"]
            if not isinstance(zl, list):
                zl = [zl]
            for v in zl:
                zidx.append(zall.index(v) if v in zall else -1)
            def s3(s):
                s = list(s)
                return [1] + s if len(s) == 2 else s
            r.update(zidx=zidx, conc=s3(e["conc"]), flx=s3(e["flx"]))
        evs.append(r)
    return {"cfg": cfg, "ev": evs}


def validate(trace_path, name, limit=20000, switches=None):
    """Validate the solver calls recorded in trace_path.

    Returns dict(calls, distinct, validated, accepted, rejected=[...], unrepresentable).
    """
    events = read_events(trace_path)
    calls = [c for c in split_calls(events) if not c.get("cached")]
    conv = []
    unrep = 0
    for c in calls:
        m = to_model_call(c)
        if m is None:
            unrep += 1
        else:
            conv.append(m)
    seen = {}
    for m in conv:
        k = json.dumps(m, sort_keys=True)
        seen.setdefault(k, m)
    distinct = list(seen.values())[:limit]
    res = {"calls": len(calls), "representable": len(conv), "unrepresentable": unrep, "distinct": len(seen), "validated": len(distinct), "accepted": 0, "rejected": []}
    if not distinct:
        return res
    d = common.scratch("trace_" + name)
    tf = os.path.join(d, "calls.json")
    with open(tf, "w") as f:
        json.dump(distinct, f)
    r = run_tlc("TraceSolver", "TraceSolver", env={"TRACE_FILE": tf, "JAVA_TOOL_OPTIONS": "-XX:+UseParallelGC -Xmx12g"}, name="trace_" + name, timeout=3000)
    if not r.ok and r.violated in ("TraceShapeOrError", "TraceLabels"):
        res["invariant_violated"] = r.violated
    elif not r.ok:
        raise MachineryError("trace validation run failed: %s\n%s" % (r.violated, "\n".join(r.output.splitlines()[-30:])))
    best = {}
    done = set()
    for rec in r.emitted:
        t = rec["t"]
        best[t] = max(best.get(t, 0), rec["l"])
        if rec["pc"] == "done" and rec["l"] == len(distinct[t - 1]["ev"]):
            done.add(t)
    for t, m in enumerate(distinct, 1):
        if t in done:
            res["accepted"] += 1
        else:
            l = best.get(t, 0)
            nxt = m["ev"][l] if l < len(m["ev"]) else None
            res["rejected"].append({"call": m["cfg"], "matched_events": l, "of": len(m["ev"]), "next_event": nxt})
    res["tlc"] = r.summary()
    return res
