"""C19: the Kormann-Meixner reference model equals its published closed form for all inputs.

Three specifications decide the finite case analysis of the property, the harness instantiates their tokens:

  spec/KMTypes.tla  number kinds (int/float, Python/NumPy) through estimateFootprint / estimateZ0, statement by statement:
                    no store may cut a fraction off.  Every combination of input kinds TLC enumerates is run on the
                    real functions with integer-valued inputs of exactly those types and compared with the all-float call.
  spec/KMGrid.tla   which cell of the output grid holds which value ([upwind, |crosswind|] tokens), for wind directions
                    that are multiples of 90 degrees and no wind direction: cell by cell, zero downwind, mirror symmetry,
                    rotation about the receptor.  Every configuration is run on the real function; the token of each cell
                    is instantiated with the published equations (written here from the paper, scipy Gamma functions).
  spec/KMZ0.tla     the smoothing window of estimateZ0 is a window on the circle; the real function is run with one
                    observation per half degree and compared with the circular median, and under common rotations.

Numerical parts that have no finite structure (mass captured -> regularised incomplete gamma as the grid is refined,
arbitrary angles pointwise, log-law inversion) are evaluated by the same oracle inside the replay.
"""

import json
import math
import warnings

import numpy as np

from .common import Check, MachineryError, run_tlc, seed, tier

K = 0.4


# ----------------------------------------------------------------- the published closed form (Kormann & Meixner 2001)
def km_params(zm, z0, ws, ustar, L):
    zm, z0, ws, ustar, L = float(zm), float(z0), float(ws), float(ustar), float(L)
    zeta = zm / L
    if L < 0:
        q = (1.0 - 16.0 * zeta) ** 0.25
        phi_m = 1.0 / q                       # Eq. (33)
        phi_c = 1.0 / q ** 2                  # Eq. (34)
        psi_m = -2.0 * math.log(0.5 * (1 + q)) - math.log(0.5 * (1 + q * q)) + 2.0 * math.atan(q) - 0.5 * math.pi   # Eq. (35)
        n = (1.0 - 24.0 * zeta) / (1.0 - 16.0 * zeta)
    else:
        phi_m = phi_c = 1.0 + 5.0 * zeta
        psi_m = 5.0 * zeta
        n = 1.0 / (1.0 + 5.0 * zeta)
    m = ustar * phi_m / (K * ws)                                  # Eq. (36), with the measured wind speed
    u_zm = ustar / K * (math.log(zm / z0) + psi_m)                # Eq. (31)
    U = u_zm / zm ** m                                            # Eq. (11)
    kappa = K * ustar * zm / phi_c / zm ** n                      # Eq. (11), (32)
    r = 2.0 + m - n
    mu = (1.0 + m) / r
    xi = U * zm ** r / (r * r * kappa)                            # Eq. (19)
    return dict(m=m, n=n, U=U, kappa=kappa, r=r, mu=mu, xi=xi, psi_m=psi_m, phi_m=phi_m, phi_c=phi_c)


def km_point(p, sigma_v, x, y):
    """phi(x, y, zm) per unit area: crosswind-integrated footprint (Eq. 21) times Gaussian crosswind distribution (Eq. 9)"""
    from scipy.special import gammaln

    x = np.asarray(x, dtype=float)
    y = np.asarray(y, dtype=float)
    out = np.zeros_like(x)
    up = x > 0
    xs = x[up]
    mu, xi, r, m, U, kappa = p["mu"], p["xi"], p["r"], p["m"], p["U"], p["kappa"]
    f = np.exp(mu * math.log(xi) - gammaln(mu) - (1.0 + mu) * np.log(xs) - xi / xs)
    ubar = math.exp(gammaln(mu) - gammaln(1.0 / r)) * (r * r * kappa / U) ** (m / r) * U * xs ** (m / r)      # Eq. (18)
    sig = sigma_v * xs / ubar
    out[up] = f * np.exp(-0.5 * (y[up] / sig) ** 2) / (math.sqrt(2.0 * math.pi) * sig)
    return out


PHYS = [
    dict(zm=10.0, z0=0.1, ws=3.0, ustar=0.3, L=-50.0, sigma_v=0.5),
    dict(zm=3.0, z0=0.02, ws=4.0, ustar=0.35, L=80.0, sigma_v=0.7),
    dict(zm=12.0, z0=0.05, ws=2.2, ustar=0.12, L=8.0, sigma_v=0.35),        # strongly stable: zm / L = 1.5 (the closed form has no upper limit)
    dict(zm=20.0, z0=0.5, ws=5.0, ustar=0.6, L=-400.0, sigma_v=1.1),
    dict(zm=2.0, z0=0.01, ws=2.5, ustar=0.2, L=1.0e6, sigma_v=0.3),
    dict(zm=6.0, z0=0.05, ws=2.0, ustar=0.15, L=25.0, sigma_v=0.4),
    dict(zm=40.0, z0=1.0, ws=8.0, ustar=0.9, L=-15.0, sigma_v=1.5),
    dict(zm=10.0, z0=0.1, ws=3.0, ustar=0.2, L=10.0, sigma_v=0.4),           # zm / L = 1 exactly
    dict(zm=30.0, z0=0.3, ws=2.0, ustar=0.25, L=-4.0, sigma_v=0.9),          # strongly unstable: zm / L = -7.5
]


def consistent_ws(p):
    """a physically consistent set: the wind speed is the one the diabatic log law gives (u(zm) of Eq. 31)"""
    q = dict(p)
    q["ws"] = p["ustar"] / K * (math.log(p["zm"] / p["z0"]) + km_params(p["zm"], p["z0"], 1.0, p["ustar"], p["L"])["psi_m"])
    return q


def call_fp(ph, dom, res, mxy, wd):
    from bldfm.ffm_kormann_meixner import estimateFootprint

    with warnings.catch_warnings():
        warnings.simplefilter("ignore")
        return estimateFootprint(ph["zm"], ph["z0"], ph["ws"], ph["ustar"], ph["L"], ph["sigma_v"], dom, res, mxy, wd=wd)


def close(a, b, rel=1e-9):
    a, b = np.asarray(a, dtype=float), np.asarray(b, dtype=float)
    if a.shape != b.shape:
        return False
    if not (np.isfinite(a).all() and np.isfinite(b).all()):
        return bool(np.array_equal(np.isfinite(a), np.isfinite(b)) and np.allclose(a[np.isfinite(a)], b[np.isfinite(b)], rtol=rel, atol=0))
    scale = max(float(np.abs(b).max()) if b.size else 0.0, 1e-300)
    return bool((np.abs(a - b) <= rel * np.abs(b) + 1e-14 * scale + 1e-290).all())      # 1e-290: subnormal values carry few digits


# ----------------------------------------------------------------------------- kinds
def typed(v, kind, rng, unsigned_ok=False):
    """an integer-valued number of the given kind; Python or NumPy scalar (unsigned NumPy integers for the physical scalars
    and the wind direction - not for quantities the caller negates, like the resolution)"""
    if kind == "i":
        if unsigned_ok and v >= 0:
            return [int(v), np.int64(v), np.int32(v), np.uint32(v), np.uint64(v)][int(rng.integers(5))]       # 32 bits and more: NumPy turns 16-bit integers into float32 in deg2rad
        return [int(v), np.int64(v), np.int32(v)][int(rng.integers(3))]
    return [float(v), np.float64(v)][int(rng.integers(2))]


INT_SETS = [  # integer-valued physical inputs (so that an int and a float carry the same number)
    dict(zm=10, z0=1, ws=3, ustar=1, sigma_v=1, grid_res=4, xmin=-40, mx=0, my=0, wd=90, L=50),
    dict(zm=12, z0=2, ws=5, ustar=1, sigma_v=2, grid_res=8, xmin=-64, mx=8, my=-8, wd=180, L=30),
    dict(zm=9, z0=1, ws=4, ustar=1, sigma_v=1, grid_res=4, xmin=-40, mx=4, my=0, wd=45, L=40),
]


def replay_kinds(chk, emitted, pick, rng):
    from bldfm.ffm_kormann_meixner import estimateFootprint, estimateZ0, _phiM, _phiC, _psiM, _nParam, _mParam

    n = 0
    for idx in pick:
        e = emitted[idx]
        kinds, stab, opt = e["kinds"], e["stab"], e["opt"]
        base = INT_SETS[idx % len(INT_SETS)]
        sgn = -1 if stab == "unstable" else 1
        sc = {"kind": "number_kinds", "program": e["prog"], "kinds": kinds, "stability": stab, "option": opt, "values": base}
        chk.case(json.dumps([e["prog"], kinds, stab, opt], sort_keys=True))
        if e["prog"] == "footprint":
            v = {k: typed(base[k], kinds[k], rng, unsigned_ok=k in ("zm", "z0", "ws", "ustar", "sigma_v", "wd")) for k in ("zm", "z0", "ws", "ustar", "sigma_v", "grid_res", "xmin", "mx", "my", "wd")}
            v["L"] = typed(sgn * base["L"], kinds["mo_len"], rng)
            f = {k: float(base[k]) for k in base}
            f["L"] = float(sgn * base["L"])

            def run(a):
                dom = [a["xmin"], a["xmin"] + 20 * a["grid_res"], -5 * a["grid_res"], 5 * a["grid_res"]]
                with warnings.catch_warnings():
                    warnings.simplefilter("ignore")
                    return estimateFootprint(a["zm"], a["z0"], a["ws"], a["ustar"], a["L"], a["sigma_v"], dom, a["grid_res"], [a["mx"], a["my"]],
                                             wd=a["wd"] if opt else None)

            try:
                got = run(v)
            except Exception as ex:
                chk.violation("estimateFootprint raised %s: %s for integer-typed inputs %s" % (type(ex).__name__, str(ex)[:80], [k for k in kinds if kinds[k] == "i"]), sc,
                              klass={"check": "kinds_raise", "program": "footprint"})
                continue
            ref = run(f)
            n += 1
            same = all(close(g, r, 1e-12) for g, r in zip(got, ref))
            hk = {"phi_m_a": _phiM, "phi_c_a": _phiC, "psi_m_a": _psiM, "n_a": _nParam}
            za, la = np.asarray([v["zm"]]), np.asarray([v["L"]])
            seen = {name: ("f" if fn(za, la).dtype.kind == "f" else "i") for name, fn in hk.items()}
            seen["m_a"] = "f" if _mParam(za, np.asarray([v["ws"]]), np.asarray([v["ustar"]]), la).dtype.kind == "f" else "i"
            if not same:
                ints = sorted(k for k in kinds if kinds[k] == "i")
                chk.violation("estimateFootprint gives a different footprint when %s arrive as integers instead of floats of the same value (sum %.6g vs %.6g); helper result kinds %s"
                              % (ints, float(np.sum(got[2])), float(np.sum(ref[2])), seen), sc, klass={"check": "kinds", "program": "footprint", "int_zm": kinds["zm"] == "i"})
            elif e["lossy"]:
                chk.drift_note("the specification predicts a fraction cut off for kinds %s but the results agree" % kinds)
            if seen != e["helpers"] and same:
                chk.drift_note("helper result kinds %s, the specification says %s (inputs %s)" % (seen, e["helpers"], kinds))
        else:
            nobs = 24
            wdv = (np.arange(nobs) * 15 + 7) % 360
            zmv = np.full(nobs, 10)
            wsv = 3 + (np.arange(nobs) % 4)
            usv = np.full(nobs, 1)
            lv = sgn * (40 + 10 * (np.arange(nobs) % 3))
            arr = {"zm": zmv, "ws": wsv, "wd": wdv, "ustar": usv, "mo_len": lv}
            v = {k: np.asarray(a, dtype=(np.int64 if kinds[k] == "i" else np.float64)) for k, a in arr.items()}
            f = {k: np.asarray(a, dtype=np.float64) for k, a in arr.items()}
            hw = 22 if opt else 0
            try:
                got = estimateZ0(v["zm"], v["ws"], v["wd"], v["ustar"], v["mo_len"], half_wd_win=hw)
            except Exception as ex:
                chk.violation("estimateZ0 raised %s: %s for integer-typed arrays %s" % (type(ex).__name__, str(ex)[:80], [k for k in kinds if kinds[k] == "i"]), sc,
                              klass={"check": "kinds_raise", "program": "z0"})
                continue
            ref = estimateZ0(f["zm"], f["ws"], f["wd"], f["ustar"], f["mo_len"], half_wd_win=hw)
            n += 1
            if not close(got, ref, 1e-12):
                chk.violation("estimateZ0 gives different roughness lengths when %s are integer arrays instead of float arrays of the same values" % sorted(k for k in kinds if kinds[k] == "i"),
                              sc, klass={"check": "kinds", "program": "z0", "int_zm": kinds["zm"] == "i"})
            elif e["lossy"]:
                chk.drift_note("the specification predicts a fraction cut off for kinds %s (z0) but the results agree" % kinds)
    return n


# ------------------------------------------------------------------------------ grid
def replay_grid(chk, emitted, pick, rng, t):
    n = 0
    worst = 0.0
    for idx in pick:
        e = emitted[idx]
        c = e["cfg"]
        res = [5.0, 2.5, 10.0, 4.0, 1.0][idx % 5]
        if idx % 7 == 3:
            res = [5, 10, 4][idx % 3]          # an integer resolution
        h = 0.5 * res
        dom = [c["xmin"] * h, c["xmax"] * h, c["ymin"] * h, c["ymax"] * h]
        mxy = [c["mx"] * h, c["my"] * h]
        wd = None if c["wd"] == 999 else float(c["wd"])
        for ph in ([PHYS[idx % len(PHYS)], PHYS[(idx + 3) % len(PHYS)]] if t == "quick" else PHYS):
            sc = {"kind": "grid", "cfg": c, "grid_res": res, "phys": ph}
            chk.case(json.dumps([c, res, ph["zm"], ph["L"]], sort_keys=True))
            try:
                gx, gy, ffm = call_fp(ph, dom, res, mxy, wd)
            except Exception as ex:
                chk.violation("estimateFootprint raised %s: %s" % (type(ex).__name__, str(ex)[:100]), sc, klass={"check": "grid_raise"})
                continue
            n += 1
            if ffm.shape != (e["rows"], e["cols"]) or gx.shape != ffm.shape or gy.shape != ffm.shape:
                chk.violation("grid of shape %s, the specification says %s" % (ffm.shape, (e["rows"], e["cols"])), sc, klass={"check": "grid_shape"})
                continue
            if ffm.size == 0:
                continue
            ex_x = np.asarray([[c["xmin"] * h + h + 2 * h * j for j in range(e["cols"])] for _ in range(e["rows"])])
            ex_y = np.asarray([[c["ymax"] * h - h - 2 * h * i for _ in range(e["cols"])] for i in range(e["rows"])])
            if not (close(gx, ex_x, 1e-12) and close(gy, ex_y, 1e-12)):
                chk.violation("returned cell-centre coordinates are not xmin + res/2 + j*res, ymax - res/2 - i*res", sc, klass={"check": "grid_coords"})
                continue
            val = np.asarray(e["val"], dtype=float)          # rows x cols x [up, cr] in half cells
            up, cr = val[..., 0] * h, val[..., 1] * h
            p = km_params(ph["zm"], ph["z0"], ph["ws"], ph["ustar"], ph["L"])
            want = km_point(p, ph["sigma_v"], up, cr) * float(res) ** 2
            if (ffm < 0).any():
                chk.violation("negative footprint value", sc, klass={"check": "negative"})
                continue
            zero_model = val[..., 0] <= 0
            if (ffm[zero_model] != 0).any():
                chk.violation("cells downwind of (or abeam) the receptor are not zero for wind direction %s" % c["wd"], sc, klass={"check": "downwind", "wd": c["wd"]})
                continue
            if not close(ffm, want, 1e-9):
                bad = np.argwhere(~(np.abs(ffm - want) <= 1e-9 * np.abs(want) + 1e-14 * max(np.abs(want).max(), 1e-300) + 1e-290))
                i, j = (int(x) for x in bad[0])
                rot = "same cell as another wind direction" if wd is not None else ""
                chk.violation("cell (%d,%d) holds %.12g, the published closed form at upwind %.4g m / crosswind %.4g m gives %.12g (wd=%s, L=%s) %s"
                              % (i, j, ffm[i, j], up[i, j], cr[i, j], want[i, j], c["wd"], ph["L"], rot), sc,
                              klass={"check": "cell_value", "wd": c["wd"], "stable": ph["L"] > 0})
                continue
            big = (want > 1e-12 * want.max()) & (want > 1e-250)
            if big.any():
                worst = max(worst, float((np.abs(ffm - want)[big] / want[big]).max()))
    chk.extra["grid_worst_rel_error"] = worst
    return n


def arbitrary_angles(chk, rng, count):
    """pointwise for arbitrary angles: the value at receptor + p is the closed form at (p.e_up, p.e_cross)"""
    n = 0
    big = [(700, 30, 180.0), (30, 700, 270.0), (613, 41, 0.0), (1100, 12, None), (12, 1100, 90.0)]      # (rows, columns, wind direction)
    for i in range(count + len(big)):
        ph = PHYS[i % len(PHYS)]
        wd = float(rng.uniform(-720, 720)) if i % 4 else float(rng.integers(-8, 9) * 45)
        res = float(rng.choice([2.0, 5.0, 7.5]))
        nx, ny = int(rng.integers(3, 30)), int(rng.integers(3, 30))
        if i >= count:
            # LARGE grids: many more rows / columns than any block size an implementation might use, footprint mass at the far end
            ny, nx, wd = big[i - count]
            res = 1.0
        x0, y0 = float(rng.uniform(-60, 10)), float(rng.uniform(-60, 10))
        dom = [x0, x0 + nx * res, y0, y0 + ny * res]
        mxy = [float(rng.uniform(x0, x0 + nx * res)), float(rng.uniform(y0, y0 + ny * res))]
        if i >= count:
            # receptor near the downwind edge so that the whole grid is upwind
            x0, y0 = -float(nx) * res / 2, -float(ny) * res / 2
            dom = [x0, x0 + nx * res, y0, y0 + ny * res]
            far = {180.0: (0.0, y0 + ny * res - 3.0), 270.0: (x0 + nx * res - 3.0, 0.0), 0.0: (0.0, y0 + 3.0), 90.0: (x0 + 3.0, 0.0)}
            mxy = list(far.get(wd, (x0 + 3.0, 0.0)))
        sc = {"kind": "angle", "wd": wd, "phys": ph, "domain": dom, "grid_res": res, "mxy": mxy}
        chk.case(json.dumps(sc, sort_keys=True))
        gx, gy, ffm = call_fp(ph, dom, res, mxy, wd)
        a = math.radians(90.0 if wd is None else wd)
        ex, ey = math.sin(a), math.cos(a)           # where the wind comes from, clockwise from north
        if wd is None or wd % 90.0 == 0.0:
            ex, ey = float(round(ex)), float(round(ey))
        px, py = gx - mxy[0], gy - mxy[1]
        up = px * ex + py * ey
        cr = -px * ey + py * ex
        p = km_params(ph["zm"], ph["z0"], ph["ws"], ph["ustar"], ph["L"])
        want = km_point(p, ph["sigma_v"], up, cr) * res ** 2
        n += 1
        if i % 2 == 0 and i < count:
            # call history: the same grid, resolution and wind direction again with ANOTHER receptor, then the first one
            # again - nothing of an earlier call may survive in the process
            mxy2 = [mxy[0] + 1.5 * res, mxy[1] - 2.25 * res]
            _, _, ffm2 = call_fp(ph, dom, res, mxy2, wd)
            up2 = (gx - mxy2[0]) * ex + (gy - mxy2[1]) * ey
            cr2 = -(gx - mxy2[0]) * ey + (gy - mxy2[1]) * ex
            want2 = km_point(p, ph["sigma_v"], up2, cr2) * res ** 2
            _, _, ffm3 = call_fp(ph, dom, res, mxy, wd)
            n += 2
            if not close(ffm2, want2, 1e-7) or not np.array_equal(ffm3, ffm):
                chk.violation("wind direction %s: after a call with the receptor at %s, the call with the receptor at %s on the same grid does not return that receptor's footprint (or the repeated first call differs)"
                              % (wd, [round(x, 3) for x in mxy], [round(x, 3) for x in mxy2]), dict(sc, second_receptor=mxy2), klass={"check": "call_history"})
                continue
        # cells within rounding of the abeam line may fall on either side of x > 0: both give (numerically) zero
        if not close(ffm, want, 1e-7):
            bad = np.argwhere(~(np.abs(ffm - want) <= 1e-7 * np.abs(want) + 1e-14 * max(np.abs(want).max(), 1e-300) + 1e-290))
            i0, j0 = (int(x) for x in bad[0])
            chk.violation("wind direction %s, grid %dx%d: cell (%d,%d) holds %.10g, the closed form at the rotated point gives %.10g" % (wd, ffm.shape[0], ffm.shape[1], i0, j0, ffm[i0, j0], want[i0, j0]), sc,
                          klass={"check": "angle"})
    return n


def coarse_grids(chk):
    """COARSE grids that under-resolve the peak (cells of 5 ... 25 m under a 2 ... 10 m tower, the receptor on a cell centre): the
    midpoint values legitimately add up to more than one - every cell is still the closed form at its centre times its area"""
    n = 0
    for ph in PHYS:
        if ph["zm"] > 12.0:
            continue
        for res in (5.0, 10.0, 25.0):
            for wd in (None, 180.0, 33.0, 45.0, 135.0, 225.0, 315.0):      # the diagonals: cell centres exactly on the wind axis (receptor on a cell corner)
                ext = 60 * res
                dom = [-res / 2, ext - res / 2, -10.5 * res, 10.5 * res] if wd is None else [-10.5 * res, 10.5 * res, -res / 2, ext - res / 2] if wd == 180.0 else [-20.5 * res, 20.5 * res, -20.5 * res, 20.5 * res] if wd == 33.0 else [-20.0 * res, 20.0 * res, -20.0 * res, 20.0 * res]
                if wd == 180.0:
                    dom = [-10.5 * res, 10.5 * res, -(ext - res / 2), res / 2]
                gx, gy, ffm = call_fp(ph, dom, res, [0.0, 0.0], wd)
                a = math.radians(90.0 if wd is None else wd)
                ex, ey = math.sin(a), math.cos(a)
                if wd is None or wd % 90.0 == 0.0:
                    ex, ey = float(round(ex)), float(round(ey))
                up = gx * ex + gy * ey
                cr = -gx * ey + gy * ex
                p = km_params(ph["zm"], ph["z0"], ph["ws"], ph["ustar"], ph["L"])
                want = km_point(p, ph["sigma_v"], up, cr) * res ** 2
                n += 1
                sc = {"kind": "coarse_grid", "phys": ph, "grid_res": res, "wd": wd, "sum": float(np.sum(ffm)), "closed_form_sum": float(np.sum(want))}
                chk.case(json.dumps(["coarse", ph["zm"], ph["L"], res, wd]))
                if not close(ffm, want, 1e-7):
                    chk.violation("coarse grid (cells of %g m under a %g m tower, wd=%s): the cells add up to %.4f, the closed form at the cell centres times the cell area adds up to %.4f; cell by cell they differ by up to %.3e relative"
                                  % (res, ph["zm"], wd, float(np.sum(ffm)), float(np.sum(want)), float(np.max(np.abs(np.asarray(ffm) - want) / np.maximum(np.abs(want), 1e-300)))), sc, klass={"check": "coarse_grid"})
    return n


def captured_mass(chk, t):
    """the sum tends to the regularised incomplete gamma Q(mu, xi / X) captured within the upwind extent X, as the grid is refined"""
    from scipy.special import gammaincc

    n = 0
    worst = 0.0
    for ph in PHYS if t == "thorough" else PHYS[:4]:
        p = km_params(ph["zm"], ph["z0"], ph["ws"], ph["ustar"], ph["L"])
        X = 40.0 * p["xi"]
        # crosswind extent: six standard deviations of the plume at the far end
        from scipy.special import gammaln
        ubar = math.exp(gammaln(p["mu"]) - gammaln(1.0 / p["r"])) * (p["r"] ** 2 * p["kappa"] / p["U"]) ** (p["m"] / p["r"]) * p["U"] * X ** (p["m"] / p["r"])
        Y = 7.0 * ph["sigma_v"] * X / ubar
        want = float(gammaincc(p["mu"], p["xi"] / X))
        errs = []
        for cells in (60, 240, 960):
            res = X / cells
            ny = int(math.ceil(Y / res))
            gx, gy, ffm = call_fp(ph, [0.0, X, -ny * res, ny * res], res, [0.0, 0.0], None)
            errs.append(abs(float(ffm.sum()) - want))
            n += 1
        chk.case(json.dumps(["mass", ph["zm"], ph["L"]]))
        sc = {"kind": "mass", "phys": ph, "extent": X, "errors": errs, "expected": want}
        worst = max(worst, errs[-1])
        if not (errs[-1] <= 2e-3 and errs[-1] <= errs[0] + 1e-12):
            chk.violation("sum over the grid does not tend to the captured mass Q(mu, xi/X) = %.6f: errors %s at 60/240/960 cells" % (want, ["%.2e" % x for x in errs]), sc,
                          klass={"check": "mass"})
    chk.extra["mass_worst_error_finest"] = worst
    return n


# ------------------------------------------------------------------------------- z0
def circ_in(kk, w, hw):
    return ((w - kk + hw) % 360.0) < (2 * hw + 1)


def replay_z0(chk, emitted, hws, rng):
    from bldfm.ffm_kormann_meixner import estimateZ0

    n = 0
    # the emitted windows of the specification agree with the circular predicate used below
    for e in emitted:
        lo = e["lo"] / 2.0
        hwd = e["hw"] / 2.0          # the specification counts half windows in half degrees
        if e["n"] != round(2 * (2 * hwd + 1)) or abs(((lo - (e["kk"] - hwd)) % 360.0)) > 1e-9:
            raise MachineryError("KMZ0 emitted a window the harness does not understand: %s" % e)
    wd = np.arange(720) / 2.0
    order = rng.permutation(720)
    wd = wd[order]
    zm = np.full(720, 10.0)
    ustar = np.full(720, 0.4)
    L = np.where(np.arange(720) % 3 == 0, -60.0, np.where(np.arange(720) % 3 == 1, 6.0, 90.0))      # unstable, strongly stable (zm / L = 1.67), stable
    ws = 3.0 + 2.0 * rng.random(720) + np.where(np.arange(720) % 3 == 1, 7.0, 0.0)             # distinct raw z0 values
    raw = estimateZ0(zm, ws, wd, ustar, L, half_wd_win=0)
    # raw values invert the diabatic log law: ws = ustar/k (ln(zm/z0) + psi_m)
    back = np.asarray([ustar[i] / K * (math.log(zm[i] / raw[i]) + km_params(zm[i], 1.0, 1.0, ustar[i], L[i])["psi_m"]) for i in range(720)])
    chk.case("loglaw")
    if not close(back, ws, 1e-10):
        chk.violation("the raw roughness length does not invert the diabatic log law: wind speed recovered with error %.3g" % float(np.abs(back - ws).max()),
                      {"kind": "z0_loglaw"}, klass={"check": "z0_loglaw"})
    for hw in hws:
        got = estimateZ0(zm, ws, wd, ustar, L, half_wd_win=hw)
        want = np.asarray([np.median(raw[circ_in(math.floor(w), wd, hw)]) for w in wd])
        n += 1
        chk.case("z0 window %s" % hw)
        sc = {"kind": "z0_window", "half_wd_win": hw}
        if not close(got, want, 1e-12):
            bad = int(np.argmax(~np.isclose(got, want, rtol=1e-12, atol=0)))
            chk.violation("smoothed roughness length of the observation at %.1f deg is not the median over the circular window of +-%s deg (got %.6g, want %.6g)" % (wd[bad], hw, got[bad], want[bad]),
                          sc, klass={"check": "z0_window", "north": bool(wd[bad] < hw + 1 or wd[bad] > 359 - hw)})
            continue
        for r in (1, 37, 90, 180, 271, 359):
            rot = estimateZ0(zm, ws, (wd + r) % 360.0, ustar, L, half_wd_win=hw)
            n += 1
            if not close(rot, got, 1e-12):
                chk.violation("rotating every wind direction by %d deg changes the smoothed roughness lengths (half window %s)" % (r, hw), dict(sc, rotation=r), klass={"check": "z0_rotation"})
                break
    return n


def main():
    chk = Check("C19")
    t = tier()
    rng = np.random.default_rng(seed())
    runs = {}
    for module, cfg in (("KMTypes", "MC_KMTypes_footprint"), ("KMTypes", "MC_KMTypes_z0"), ("KMGrid", "MC_KMGrid_" + t), ("KMZ0", "MC_KMZ0_" + t)):
        r = run_tlc(module, cfg, timeout=3000)
        chk.add_tlc(cfg, r)
        if not r.ok:
            raise MachineryError("%s: %s violated on the specification of the repaired design" % (cfg, r.violated))
        runs[cfg] = r
    if t == "thorough":
        for module, neg in (("KMTypes", "MC_KMTypes_neg_like"), ("KMGrid", "MC_KMGrid_neg_cw"), ("KMGrid", "MC_KMGrid_neg_rows"), ("KMGrid", "MC_KMGrid_neg_ge"),
                            ("KMZ0", "MC_KMZ0_neg_nowrap"), ("KMZ0", "MC_KMZ0_neg_onesided"), ("KMZ0", "MC_KMZ0_neg_wide")):
            rn = run_tlc(module, neg, timeout=1200)
            chk.add_tlc(neg, rn, expect_violation=True)
            if rn.ok:
                raise MachineryError("negative control %s was not violated" % neg)
    chk.rule = ("TLC enumerates (a) every combination of int/float kinds of the inputs of estimateFootprint and estimateZ0 x both stability branches x option, "
                "(b) output grids (extent, partial cells, receptor on centre/edge/corner/outside) x wind direction in multiples of 90 degrees or none, "
                "(c) every one-degree bin x half window of the roughness-length smoothing; each emitted state is executed on the real functions and compared with "
                "the published closed form instantiated by the harness; distinct = distinct (state, parameter set) pairs")
    # (a) kinds
    em = sorted(runs["MC_KMTypes_footprint"].emitted, key=lambda e: json.dumps(e, sort_keys=True))
    if t == "quick":
        # every single-integer and all-integer combination, plus a seeded sample
        single = [i for i, e in enumerate(em) if sum(1 for k in e["kinds"].values() if k == "i") in (0, 1, len(e["kinds"]))]
        pick = sorted(set(single) | set(int(x) for x in rng.choice(len(em), size=400, replace=False)))
    else:
        pick = list(range(len(em)))
    nk = replay_kinds(chk, em, pick, rng)
    emz = sorted(runs["MC_KMTypes_z0"].emitted, key=lambda e: json.dumps(e, sort_keys=True))
    nk += replay_kinds(chk, emz, list(range(len(emz))), rng)
    chk.extra["kind_combinations_from_tlc"] = len(em) + len(emz)
    chk.extra["kind_combinations_replayed"] = nk
    # (b) grid
    eg = sorted(runs["MC_KMGrid_" + t].emitted, key=lambda e: json.dumps(e["cfg"], sort_keys=True))
    if t == "quick":
        pickg = list(range(len(eg)))
    else:
        pickg = sorted(int(x) for x in rng.choice(len(eg), size=min(len(eg), 6000), replace=False))
    ng = replay_grid(chk, eg, pickg, rng, t)
    chk.extra["grid_configurations_from_tlc"] = len(eg)
    chk.extra["grid_calls"] = ng
    na = arbitrary_angles(chk, rng, 60 if t == "quick" else 1500)
    nm = captured_mass(chk, t)
    chk.extra["coarse_grid_cases"] = coarse_grids(chk)
    # (c) z0
    hws = [1, 22, 22.5, 45, 88.5, 89] if t == "quick" else [1, 1.5, 2, 2.5, 3, 5, 8, 10, 15, 20, 21, 21.5, 22, 22.5, 23, 30, 44, 44.5, 45, 46, 60, 75, 88, 88.5, 89]
    nz = replay_z0(chk, runs["MC_KMZ0_" + t].emitted, hws, rng)
    chk.extra["z0_calls"] = nz
    chk.traces = nk + ng + na + nm + nz
    for e in (em[:1] + eg[:1]):
        chk.sample(e)
    chk.assumptions += [
        "integer-typed inputs carry integer values (zm=10 vs zm=10.0): the comparison is with the float call of the same value, relative 1e-12",
        "cell values are compared with the closed form written from the paper's equations (scipy gammaln) at relative 1e-9; m uses the measured wind speed (Eq. 36), U the diabatic log law (Eq. 31), as the anchors of the property name them",
        "estimateZ0 is run with wind directions in [0, 360); half windows up to 89 degrees (above that the code's wrapping is not circular - bin 270 with a half window of 89.5 misses north; the default is 22)",
        "float32 inputs are not in the property (Python int/float and NumPy integer/float scalars: int32, int64, float64 are used)",
    ]
    return chk.finish()
