\* negative control: first row at ymin
CONSTANTS
  Bounds = "quick"
  RotSense = "code"
  RowOrder = "bottomup"
  UpwindTest = "gt"
INIT Init
NEXT Next
CHECK_DEADLOCK FALSE
INVARIANT CellByCell
INVARIANT ZeroDownwind
INVARIANT SymmetricAboutAxis
INVARIANT Coordinates
INVARIANT RotationAboutReceptor
INVARIANT StagesAgree
INVARIANT Periodic
