\* C08 on the model: every direction sector, conventions as documented
CONSTANTS SinCos = "ok" WindSign = "from" Mode = "enumerate"
INIT Init
NEXT Next
CHECK_DEADLOCK FALSE
INVARIANT UpwindOfTower
INVARIANT Cardinals
