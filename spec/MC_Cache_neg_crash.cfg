\* negative control: in-place write and unguarded load - NeverFatal must be violated
CONSTANTS
  KeyFields = {"shape", "z", "profiles", "domain", "levels", "modes", "meas_pt", "bg", "analytic", "halo", "precision"}
  HaloAtGet = "resolved"
  AtomicPut = FALSE
  CatchLoad = FALSE
  MaxCrashes = 2
  FreeRequests = 0
INIT Init
NEXT Next
CHECK_DEADLOCK FALSE
INVARIANT Transparent
INVARIANT NeverFatal
INVARIANT Effective
INVARIANT StoreSound
