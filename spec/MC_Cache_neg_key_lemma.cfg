\* negative control: the lemma alone (key determines result over the whole request space) fails for the pinned key
CONSTANTS
  KeyFields = {"z", "profiles", "domain", "modes", "meas_pt", "halo", "precision"}
  HaloAtGet = "resolved"
  AtomicPut = TRUE
  CatchLoad = TRUE
  MaxCrashes = 2
  FreeRequests = 0
INIT Init
NEXT Next
CHECK_DEADLOCK FALSE
INVARIANT KeyDeterminesResult
