\* C12: histories of up to 6 operations
CONSTANTS
  ThreadCounts = {1, 2, 4, 8}
  MaxOps = 6
  StickyManager = FALSE
INIT Init
NEXT Next
VIEW View
CHECK_DEADLOCK FALSE
INVARIANT Pure
INVARIANT ManagerSingleAfterSolve
INVARIANT KernelMatchesSetting
INVARIANT NumbaFollowsSetting
PROPERTY WisdomTolerant
INVARIANT Emit
