------------------------------- MODULE Field -------------------------------
(***************************************************************************)
(* Exact arithmetic for the solver model.                                  *)
(*                                                                         *)
(* The solver plumbing (pad, FFT, shift, truncate, sweep, phase shift,     *)
(* untruncate, inverse FFT, real part, crop) is bilinear in (source,       *)
(* per-mode transfer).  Every identity the properties state about it is a  *)
(* polynomial identity over the complex numbers in which complex           *)
(* conjugation / "real part" appear.  We therefore evaluate the model in   *)
(* GF(P^2) = Z_P[i] with P = 5039 (prime, P = 3 mod 4, so x^2+1 is         *)
(* irreducible and a+bi -> a-bi is the Frobenius automorphism).            *)
(* P + 1 = 5040 = 2^4 3^2 5 7, and the elements of norm 1 form a cyclic    *)
(* group of order 5040 on which conjugation is inversion - exactly the     *)
(* structure of the complex roots of unity exp(2 pi i k / N), N | 5040.    *)
(* P*P < 2^31, so TLC's 32-bit integers never overflow.                    *)
(*                                                                         *)
(* An element re + i*im is encoded as the integer re + P*im.               *)
(***************************************************************************)
EXTENDS Integers, Sequences, TLC

P == 5039

Re(x) == x % P
Im(x) == x \div P
Cx(a, b) == a + (P * b)
RMod(a) == ((a % P) + P) % P          \* any integer -> 0..P-1

RAdd(a, b) == (a + b) % P
RSub(a, b) == ((a + P) - b) % P
RMul(a, b) == (a * b) % P
RNeg(a) == (P - a) % P

RECURSIVE RPow(_, _)
RPow(b, e) == IF e = 0 THEN 1
              ELSE LET h == RPow(b, e \div 2) IN
                   IF (e % 2) = 0 THEN (h * h) % P ELSE (((h * h) % P) * b) % P
RInv(a) == RPow(a, P - 2)

CAdd(x, y) == Cx((Re(x) + Re(y)) % P, (Im(x) + Im(y)) % P)
CNeg(x) == Cx((P - Re(x)) % P, (P - Im(x)) % P)
CSub(x, y) == Cx(((Re(x) + P) - Re(y)) % P, ((Im(x) + P) - Im(y)) % P)
CMul(x, y) == LET a == Re(x)
                  b == Im(x)
                  c == Re(y)
                  d == Im(y)
              IN  Cx(((((a * c) % P) + P) - ((b * d) % P)) % P, (((a * d) % P) + ((b * c) % P)) % P)
CScale(r, x) == Cx((r * Re(x)) % P, (r * Im(x)) % P)      \* r real
CConj(x) == Cx(Re(x), (P - Im(x)) % P)
CNorm(x) == (((Re(x) * Re(x)) % P) + ((Im(x) * Im(x)) % P)) % P
CInv(x) == LET n == RInv(CNorm(x)) IN Cx((Re(x) * n) % P, (((P - Im(x)) % P) * n) % P)
CI == P                                 \* the imaginary unit
CMulI(x) == Cx((P - Im(x)) % P, Re(x))  \* i * x

RECURSIVE CPow(_, _)
CPow(b, e) == IF e = 0 THEN 1
              ELSE LET h == CPow(b, e \div 2) IN
                   IF (e % 2) = 0 THEN CMul(h, h) ELSE CMul(CMul(h, h), b)

\* an element of order exactly 5040 and norm 1 (found offline; checked by the ASSUME below)
Omega == Cx(2074, 1778)
UnitOrder == 5040
Orders == {n \in 1..60 : (UnitOrder % n) = 0}

ZT == TLCEval([n \in Orders |-> TLCEval([e \in 0..(n - 1) |-> CPow(Omega, (UnitOrder \div n) * e)])])
HasRoot(n) == n \in Orders
\* exp(2 pi i e / n) for any integer e
Zeta(n, e) == ZT[n][((e % n) + n) % n]

ASSUME FieldOK ==
    /\ CPow(Omega, UnitOrder) = 1
    /\ \A q \in {2, 3, 5, 7} : CPow(Omega, UnitOrder \div q) # 1
    /\ CNorm(Omega) = 1
    /\ CMul(CI, CI) = Cx(P - 1, 0)
    /\ \A n \in Orders : CConj(Zeta(n, 1)) = Zeta(n, -1)
    /\ CMul(CInv(Cx(17, 4000)), Cx(17, 4000)) = 1

(***************************************************************************)
(* "Uninterpreted" functions.  The complex square root of the upper        *)
(* boundary condition and the exponential of the analytic branch are the   *)
(* only non-polynomial ingredients of the solver.  Every identity checked  *)
(* on the model holds for ANY functions in their place that commute with   *)
(* conjugation, so they are replaced by fixed polynomials with real        *)
(* coefficients (a polynomial of degree 5 does not satisfy any of the      *)
(* checked identities by accident: Schwartz-Zippel, field size 2.5e7).     *)
(***************************************************************************)
Beta(x) == LET x2 == CMul(x, x)
               x3 == CMul(x2, x)
           IN  CAdd(CAdd(CScale(3, CMul(x3, x2)), CScale(11, x3)), CAdd(CScale(7, x), 29))
Ex(x) == LET x2 == CMul(x, x)
         IN  CAdd(CAdd(CScale(5, CMul(x2, x2)), CScale(13, x2)), CAdd(CScale(2, x), 1))

=============================================================================
