\* advisory (C14): every history of two calls of initialize() / setup_logging(), replayed into the real functions
CONSTANTS
  Force = TRUE
  Idempotent = TRUE
  FlagFirst = FALSE
  MaxCalls = 2
SPECIFICATION Spec
CHECK_DEADLOCK FALSE
INVARIANT HandlersBounded
INVARIANT HandlerFileExists
INVARIANT InitMeansConfigured
PROPERTY LastSetupWins
PROPERTY InitOnce
PROPERTY RaisedNotRemembered
PROPERTY Monotone
INVARIANT Emit
