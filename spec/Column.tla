------------------------------- MODULE Column -------------------------------
(***************************************************************************)
(* The vertical sweep of the transport solver for height-DEPENDENT         *)
(* profiles (bldfm/solver.py: ivp_solver, the shooting combination, the    *)
(* trapezoidal mean mode): which node's coefficients and which layer       *)
(* thickness every step uses.  For height-independent profiles every       *)
(* choice gives the same numbers (which is why the repository's tests      *)
(* cannot see them); for the profiles every real run uses, a sample taken  *)
(* outside its layer, a thickness of another layer, a boundary condition   *)
(* built from the wrong node or quadrature weights that do not add up are  *)
(* exactly the "sampling-point, index and weighting errors" C01 names:     *)
(* they make the scheme inconsistent (no convergence) or converge to the   *)
(* solution of another problem.                                            *)
(*                                                                         *)
(* One action per layer (Step), then the boundary condition (Boundary),    *)
(* then the mean mode layer by layer (MeanStep).  Nodes are 0..nz-1,       *)
(* layer i spans nodes i, i+1.  Python's negative indices wrap.            *)
(*                                                                         *)
(* Deviation switches (negative controls):                                 *)
(*   SampleStyle  "lower" (code) | "upper" | "previous" (node i-1)         *)
(*   DzStyle      "own" | "next"                                           *)
(*   TopStyle     "top" | "bottom" | "below_top"                           *)
(*   WeightStyle  "trapezoid" | "left_only" | "double"                     *)
(***************************************************************************)
EXTENDS Integers, Sequences, FiniteSets, TLC, Json

CONSTANTS MaxNz, SampleStyle, DzStyle, TopStyle, WeightStyle

VARIABLES vnz,      \* number of nodes
          vi,       \* next layer
          vsteps,   \* per layer: [layer, coef (node whose u, v, Kx, Ky, Kz are used), dz (layer whose thickness is used)]
          vtop,     \* node whose coefficients build the upper boundary condition (-1: not yet)
          vmean,    \* per layer of the mean mode: [layer, dz, nodes -> weight in halves]
          vstage
cvars == <<vnz, vi, vsteps, vtop, vmean, vstage>>

Wrap(k, n) == ((k % n) + n) % n
Init == vnz \in 2..MaxNz /\ vi = 0 /\ vsteps = << >> /\ vtop = -1 /\ vmean = << >> /\ vstage = "sweep"

Sample(i) == CASE SampleStyle = "lower" -> i [] SampleStyle = "upper" -> i + 1 [] OTHER -> Wrap(i - 1, vnz)
DzOf(i) == IF DzStyle = "own" THEN i ELSE Wrap(i + 1, vnz - 1)
Step == /\ vstage = "sweep" /\ vi < vnz - 1
        /\ vsteps' = Append(vsteps, [layer |-> vi, coef |-> Sample(vi), dz |-> DzOf(vi)])
        /\ vi' = vi + 1
        /\ UNCHANGED <<vnz, vtop, vmean, vstage>>
Boundary == /\ vstage = "sweep" /\ vi = vnz - 1
            /\ vtop' = CASE TopStyle = "top" -> vnz - 1 [] TopStyle = "bottom" -> 0 [] OTHER -> Wrap(vnz - 2, vnz)
            /\ vstage' = "mean" /\ vi' = 0
            /\ UNCHANGED <<vnz, vsteps, vmean>>
Weights(i) == CASE WeightStyle = "trapezoid" -> [n \in {i, i + 1} |-> 1]          \* 0.5 / Kz[i] + 0.5 / Kz[i+1]
                [] WeightStyle = "left_only" -> [n \in {i, i + 1} |-> IF n = i THEN 1 ELSE 0]
                [] OTHER -> [n \in {i, i + 1} |-> 2]
MeanStep == /\ vstage = "mean" /\ vi < vnz - 1
            /\ vmean' = Append(vmean, [layer |-> vi, dz |-> vi, w |-> Weights(vi)])
            /\ vi' = vi + 1
            /\ UNCHANGED <<vnz, vsteps, vtop, vstage>>
Finish == /\ vstage = "mean" /\ vi = vnz - 1 /\ vstage' = "done" /\ UNCHANGED <<vnz, vi, vsteps, vtop, vmean>>
Next == Step \/ Boundary \/ MeanStep \/ Finish
Spec == Init /\ [][Next]_cvars

(******************************** properties ********************************)
Done == vstage = "done"
\* consistency: every layer's coefficients are sampled inside that layer, with that layer's own thickness
InLayer == \A k \in 1..Len(vsteps) : vsteps[k].coef \in {vsteps[k].layer, vsteps[k].layer + 1} /\ vsteps[k].dz = vsteps[k].layer
\* every layer exactly once, from the surface upwards
EveryLayerOnce == Done => (Len(vsteps) = vnz - 1 /\ \A k \in 1..Len(vsteps) : vsteps[k].layer = k - 1)
\* the decaying continuation starts from the coefficients of the top node
TopFromTopNode == Done => vtop = vnz - 1
\* the mean mode is a quadrature of 1/Kz: per layer, non-negative weights on the layer's own nodes that add up to one thickness
MeanQuadrature == \A k \in 1..Len(vmean) :
                     LET m == vmean[k] IN
                     /\ m.dz = m.layer /\ DOMAIN m.w = {m.layer, m.layer + 1}
                     /\ \A n \in DOMAIN m.w : m.w[n] >= 0
                     /\ m.w[m.layer] + m.w[m.layer + 1] = 2
MeanEveryLayerOnce == Done => (Len(vmean) = vnz - 1 /\ \A k \in 1..Len(vmean) : vmean[k].layer = k - 1)

Emit == Done => PrintT("@@" \o ToJson([nz |-> vnz, steps |-> vsteps, top |-> vtop,
                                         mean |-> [k \in 1..Len(vmean) |-> [layer |-> vmean[k].layer, dz |-> vmean[k].dz,
                                                                             lo |-> vmean[k].w[vmean[k].layer], hi |-> vmean[k].w[vmean[k].layer + 1]]]]))
=============================================================================
