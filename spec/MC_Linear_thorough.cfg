\* C04 linearity in (source, background) -- thorough
CONSTANTS
  ShiftStyle = "pad" LevelStyle = "match" TruncStyle = "exact" AnalyticStyle = "outer" BCubic = "plus"
  Sizes = {202, 302, 403, 304}
  Cells = {11, 23}
  Halos = {99, 0, 1, 3, 4}
  ModeSet = {202, 402, 204, 1212}
  NZs = {4}
  LevelLists = "asc"
  Tabs = {1, 2}
  Analytic = {FALSE, TRUE}
  Family = "linear"
INIT Init
NEXT Next
CHECK_DEADLOCK FALSE
INVARIANT StagesAgree
INVARIANT ShapeOrError
INVARIANT Superposition
INVARIANT BackgroundOnlyOffsetsConc
INVARIANT FootprintIgnoresValues
INVARIANT Emit
