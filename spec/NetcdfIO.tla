------------------------------ MODULE NetcdfIO ------------------------------
(***************************************************************************)
(* bldfm.io.save_footprints_to_netcdf / load_footprints_from_netcdf as a   *)
(* placement of tokens.  A result set is what the drivers return: for      *)
(* every tower (keys in configuration order) a list of per-step entries;   *)
(* entry (i, t) carries the field tokens F(i, t, l) for every level l, the *)
(* step's timestamp and the step's met tokens.  Save fills the arrays      *)
(* data[t][ti][l] by the code's loops, takes the tower coordinate from the *)
(* result keys, the tower metadata from the configuration's tower list,    *)
(* the time coordinate and the met values from the FIRST tower's entries;  *)
(* Sel(name, label) is xarray's selection by coordinate label.             *)
(*                                                                         *)
(* Deviation switches: Place = "t_ti" | "ti_t" (transposed placement, only *)
(* visible when towers # steps); MetaOrder = "config" | "reversed".        *)
(***************************************************************************)
EXTENDS Integers, Sequences, FiniteSets, TLC, Json

CONSTANTS MaxT, MaxS, MaxL, Place, MetaOrder

VARIABLES vshape, vpcn, vti, vt, vdata, vfile
nvars == <<vshape, vpcn, vti, vt, vdata, vfile>>

\* vshape = [nt, ns, nl (0 = two-dimensional output), ts ("index" | "label" | "number": integers that are not the position), forcing ("ustar" | "z0")]
NTw == vshape.nt
NSt == vshape.ns
Levels == IF vshape.nl = 0 THEN {0} ELSE 1..vshape.nl

F(i, t, l) == <<"F", i, t, l>>                   \* footprint field of tower i, step t, level l ("C" likewise)
TsOf(t) == IF vshape.ts = "index" THEN <<"idx", t - 1>> ELSE IF vshape.ts = "number" THEN <<"num", t>> ELSE <<"lab", t>>
UstarOf(t) == IF vshape.forcing = "z0" THEN <<"nan">> ELSE <<"ustar", t>>

NoTok == <<"empty">>
Init == /\ vshape \in [nt : 1..MaxT, ns : 1..MaxS, nl : 0..MaxL, ts : {"index", "label", "number"}, forcing : {"ustar", "z0"}]
        /\ vpcn = "alloc" /\ vti = 1 /\ vt = 1 /\ vdata = << >> /\ vfile = [saved |-> FALSE]

Alloc == /\ vpcn = "alloc"                           \* np.zeros((n_time, n_towers, ...))
         /\ vdata' = [t \in 1..NSt |-> [i \in 1..NTw |-> [l \in Levels |-> NoTok]]]
         /\ vpcn' = "fill" /\ vti' = 1 /\ vt' = 1
         /\ UNCHANGED <<vshape, vfile>>

\* for ti, tower_name in enumerate(tower_names): for t, r in enumerate(results[tower_name]): data[t, ti] = r[...]
Fill ==  /\ vpcn = "fill"
         /\ vdata' = IF Place = "t_ti"
                     THEN [vdata EXCEPT ![vt][vti] = [l \in Levels |-> F(vti, vt, l)]]
                     ELSE [vdata EXCEPT ![((vti - 1) % NSt) + 1][((vt - 1) % NTw) + 1] = [l \in Levels |-> F(vti, vt, l)]]
         /\ IF vt < NSt THEN vt' = vt + 1 /\ vti' = vti /\ vpcn' = vpcn
            ELSE IF vti < NTw THEN vt' = 1 /\ vti' = vti + 1 /\ vpcn' = vpcn
            ELSE vt' = vt /\ vti' = vti /\ vpcn' = "write"
         /\ UNCHANGED <<vshape, vfile>>

MetaIdx(i) == IF MetaOrder = "config" THEN i ELSE (NTw + 1) - i
Write == /\ vpcn = "write"
         /\ vfile' = [saved |-> TRUE,
                      tower |-> [i \in 1..NTw |-> <<"name", i>>],
                      lat   |-> [i \in 1..NTw |-> <<"lat", MetaIdx(i)>>],
                      lon   |-> [i \in 1..NTw |-> <<"lon", MetaIdx(i)>>],
                      height |-> [i \in 1..NTw |-> <<"z_m", MetaIdx(i)>>],
                      time  |-> [t \in 1..NSt |-> TsOf(t)],
                      ustar |-> [t \in 1..NSt |-> UstarOf(t)],
                      mol   |-> [t \in 1..NSt |-> <<"mol", t>>],
                      data  |-> vdata]
         /\ vpcn' = "done"
         /\ UNCHANGED <<vshape, vti, vt, vdata>>

Next == Alloc \/ Fill \/ Write
Spec == Init /\ [][Next]_nvars

\* selection by coordinate label
TowerPos(i) == CHOOSE k \in 1..NTw : vfile.tower[k] = <<"name", i>>
TimePos(t) == CHOOSE k \in 1..NSt : vfile.time[k] = TsOf(t)
Sel(i, t) == vfile.data[TimePos(t)][TowerPos(i)]

DoneN == vpcn = "done"
SelReturnsOwn == DoneN => \A i \in 1..NTw, t \in 1..NSt : Sel(i, t) = [l \in Levels |-> F(i, t, l)]
NothingLeftEmpty == DoneN => \A t \in 1..NSt, i \in 1..NTw, l \in Levels : vfile.data[t][i][l] # NoTok
MetaOwn == DoneN => \A i \in 1..NTw : LET k == TowerPos(i) IN
                        vfile.lat[k] = <<"lat", i>> /\ vfile.lon[k] = <<"lon", i>> /\ vfile.height[k] = <<"z_m", i>>
MetPerStep == DoneN => \A t \in 1..NSt : vfile.ustar[TimePos(t)] = UstarOf(t) /\ vfile.mol[TimePos(t)] = <<"mol", t>>
Emit == DoneN => PrintT("@@" \o ToJson(vshape))
=============================================================================
