\* C19: the Kormann-Meixner footprint on its grid, cell by cell (wind from multiples of 90 degrees, receptor anywhere)
CONSTANTS
  Bounds = "quick"
  RotSense = "code"
  RowOrder = "topdown"
  UpwindTest = "gt"
INIT Init
NEXT Next
CHECK_DEADLOCK FALSE
INVARIANT CellByCell
INVARIANT ZeroDownwind
INVARIANT SymmetricAboutAxis
INVARIANT Coordinates
INVARIANT RotationAboutReceptor
INVARIANT StagesAgree
INVARIANT Periodic
INVARIANT Emit
