\* C10 slots, labels and level bookkeeping -- thorough
CONSTANTS
  ShiftStyle = "pad" LevelStyle = "match" TruncStyle = "exact" AnalyticStyle = "outer" BCubic = "plus"
  Sizes = {302, 202}
  Cells = {23}
  Halos = {99, 0}
  ModeSet = {202, 402, 1212}
  NZs = {4, 5}
  LevelLists = "perms3"
  Tabs = {1, 2}
  Analytic = {FALSE, TRUE}
  Family = "levels"
INIT Init
NEXT Next
CHECK_DEADLOCK FALSE
INVARIANT StagesAgree
INVARIANT ShapeOrError
INVARIANT ErrorsAreDeclared
INVARIANT LabelsAsGiven
INVARIANT NoSilentBroadcast
INVARIANT SlotIsSingle
INVARIANT FullColumnSlice
INVARIANT Emit
