\* negative control: thickness of the next layer
CONSTANTS
  MaxNz = 8
  SampleStyle = "lower"
  DzStyle = "next"
  TopStyle = "top"
  WeightStyle = "trapezoid"
INIT Init
NEXT Next
CHECK_DEADLOCK FALSE
INVARIANT InLayer
INVARIANT EveryLayerOnce
INVARIANT TopFromTopNode
INVARIANT MeanQuadrature
INVARIANT MeanEveryLayerOnce
