CONSTANTS ThreadCounts = {1, 2, 4, 8} MaxOps = 4 StickyManager = FALSE
INIT TInit
NEXT TNext
INVARIANT Pure
INVARIANT ManagerSingleAfterSolve
INVARIANT KernelMatchesSetting
INVARIANT Report
CHECK_DEADLOCK FALSE
