\* C11 shape/registration, low-pass, clamp -- quick
CONSTANTS
  ShiftStyle = "pad" LevelStyle = "match" TruncStyle = "exact" AnalyticStyle = "outer" BCubic = "plus"
  Sizes = {202, 302, 203, 303, 402, 403, 502, 503, 404}
  Cells = {11, 23}
  Halos = {99, 0, 1, 2}
  ModeSet = {202, 402, 204, 404, 602, 302, 203, 303, 503, 1212, 1202}
  NZs = {3}
  LevelLists = "mid"
  Tabs = {1}
  Analytic = {FALSE}
  Family = "shape"
INIT Init
NEXT Next
CHECK_DEADLOCK FALSE
INVARIANT StagesAgree
INVARIANT ShapeOrError
INVARIANT ErrorsAreDeclared
INVARIANT LowPass
INVARIANT ClampEq
INVARIANT HaloIsPadding
INVARIANT Emit
