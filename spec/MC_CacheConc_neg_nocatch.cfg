\* negative control: unguarded load with concurrent in-place writers - NeverFatalC must be violated
CONSTANTS NProc = 2 NKeys = 1 CatchLoad = FALSE
INIT Init
NEXT Next
CHECK_DEADLOCK FALSE
INVARIANT NeverFatalC
