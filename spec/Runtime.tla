------------------------------- MODULE Runtime -------------------------------
(***************************************************************************)
(* Process-global state touched by a solve (bldfm/config.py, utils.py,     *)
(* fft_manager.py, the thread set-up inside solver.py):                    *)
(*   vthreads   config.NUM_THREADS, set by the user / CLI / workers        *)
(*   vnumba     numba's thread count (0 = never set by the package)        *)
(*   vcompiled  which kernel variants exist in the parallelize closure     *)
(*   vmgr       thread count of the FFT manager singleton, 0 = None        *)
(*   vfftw      pyfftw.config.NUM_THREADS                                  *)
(*   vcreated   how many managers were created (each loads the wisdom file *)
(*              and registers an exit handler)                             *)
(* A solve is split into the code's sub-steps.  Requests differ in shape,  *)
(* modes, precision, mode flags ...; only the flags that steer the global  *)
(* state matter here: fp (no source FFT) and an (no sweeps).               *)
(*                                                                         *)
(* Deviation switch StickyManager = TRUE models a manager that keeps the   *)
(* thread count of its first creation (a plausible refactoring); then the  *)
(* result of a solve could depend on history.                              *)
(***************************************************************************)
EXTENDS Integers, Sequences, FiniteSets, TLC, Json

CONSTANTS ThreadCounts, MaxOps, StickyManager

Requests == {[id |-> 1, fp |-> TRUE,  an |-> FALSE], [id |-> 2, fp |-> FALSE, an |-> FALSE],
             [id |-> 3, fp |-> TRUE,  an |-> TRUE],  [id |-> 4, fp |-> FALSE, an |-> TRUE],
             [id |-> 5, fp |-> TRUE,  an |-> FALSE], [id |-> 6, fp |-> FALSE, an |-> FALSE],
             [id |-> 7, fp |-> TRUE,  an |-> FALSE], [id |-> 8, fp |-> FALSE, an |-> FALSE]}
NoReq == [id |-> 0, fp |-> FALSE, an |-> FALSE]

VARIABLES vthreads, vnumba, vcompiled, vmgr, vfftw, vcreated, vpc, vreq, vkernel, vfftthreads, vhist, vres,
          vwis,       \* the wisdom file in the working directory: "missing" | "ok" | "corrupt"
          vwisload    \* outcome of the last wisdom load ("none" | "loaded" | "skipped" | "ignored"): every manager creation reloads it

rvars == <<vthreads, vnumba, vcompiled, vmgr, vfftw, vcreated, vpc, vreq, vkernel, vfftthreads, vhist, vres, vwis, vwisload>>
\* behaviour-relevant part of the state (history and creation counter are observations)
View == <<vthreads, vnumba, vcompiled, vmgr, vfftw, vpc, vreq, vkernel, vfftthreads, vres, vwis>>

Init == /\ vthreads = 1 /\ vnumba = 0 /\ vcompiled = {} /\ vmgr = 0 /\ vfftw = 1 /\ vcreated = 0
        /\ vpc = "idle" /\ vreq = NoReq /\ vkernel = FALSE /\ vfftthreads = << >> /\ vhist = << >> /\ vres = <<0, FALSE, << >>>>
        /\ vwis = "missing" /\ vwisload = "none"

\* get_fft_manager(num_threads = n)
\* a creation loads the wisdom file; a missing file is skipped and an unreadable one ignored - never an error
Ensure(n) == IF vmgr = 0 \/ (vmgr # n /\ ~StickyManager)
             THEN /\ vmgr' = n /\ vfftw' = n /\ vcreated' = vcreated + 1
                  /\ vwisload' = CASE vwis = "ok" -> "loaded" [] vwis = "missing" -> "skipped" [] OTHER -> "ignored"
             ELSE UNCHANGED <<vmgr, vfftw, vcreated, vwisload>>

Idle == vpc = "idle" /\ Len(vhist) < MaxOps

SetThreads(n) == /\ Idle /\ n # vthreads                                     \* bldfm.config.NUM_THREADS = n
                 /\ vthreads' = n /\ vhist' = Append(vhist, <<"threads", n>>) /\ vres' = <<0, FALSE, << >>>>
                 /\ UNCHANGED <<vnumba, vcompiled, vmgr, vfftw, vcreated, vpc, vreq, vkernel, vfftthreads, vwis, vwisload>>

\* the environment replaces, corrupts or deletes fftw_wisdom.pkl between calls
Wisdom(w) ==     /\ Idle /\ w # vwis
                 /\ vwis' = w /\ vhist' = Append(vhist, <<"wisdom", w>>) /\ vres' = <<0, FALSE, << >>>>
                 /\ UNCHANGED <<vthreads, vnumba, vcompiled, vmgr, vfftw, vcreated, vpc, vreq, vkernel, vfftthreads, vwisload>>

ResetFFT ==      /\ Idle /\ vmgr # 0                                         \* reset_fft_manager()
                 /\ vmgr' = 0 /\ vhist' = Append(vhist, <<"reset", 0>>) /\ vres' = <<0, FALSE, << >>>>
                 /\ UNCHANGED <<vthreads, vnumba, vcompiled, vfftw, vcreated, vpc, vreq, vkernel, vfftthreads, vwis, vwisload>>

Begin(r) ==      /\ Idle                                                     \* enter the solver
                 /\ vreq' = r /\ vpc' = "source" /\ vfftthreads' = << >> /\ vkernel' = FALSE /\ vres' = <<0, FALSE, << >>>>
                 /\ vhist' = Append(vhist, <<"solve", r.id>>)
                 /\ UNCHANGED <<vthreads, vnumba, vcompiled, vmgr, vfftw, vcreated, vwis, vwisload>>

SourceFFT ==     /\ vpc = "source"                                           \* fft2(q0): module-level fft2 asks for 1 thread
                 /\ IF vreq.fp THEN UNCHANGED <<vmgr, vfftw, vcreated, vfftthreads, vwisload>>
                    ELSE Ensure(1) /\ vfftthreads' = Append(vfftthreads, vfftw')
                 /\ vpc' = "threads"
                 /\ UNCHANGED <<vthreads, vnumba, vcompiled, vreq, vkernel, vhist, vres, vwis>>

ThreadSetup ==   /\ vpc = "threads"                                          \* numerical branch only
                 /\ IF vreq.an THEN UNCHANGED <<vnumba, vmgr, vfftw, vcreated, vwisload>>
                    ELSE IF vthreads > 1 THEN vnumba' = vthreads /\ Ensure(vthreads)
                    ELSE Ensure(1) /\ UNCHANGED vnumba
                 /\ vpc' = "kernel"
                 /\ UNCHANGED <<vthreads, vcompiled, vreq, vkernel, vfftthreads, vhist, vres, vwis>>

Kernel ==        /\ vpc = "kernel"                                           \* two ivp_solver calls through parallelize
                 /\ IF vreq.an THEN UNCHANGED <<vcompiled, vkernel>>
                    ELSE vcompiled' = vcompiled \cup {vthreads > 1} /\ vkernel' = (vthreads > 1)
                 /\ vpc' = "transform"
                 /\ UNCHANGED <<vthreads, vnumba, vmgr, vfftw, vcreated, vreq, vfftthreads, vhist, vres, vwis, vwisload>>

FinalFFT ==      /\ vpc = "transform"                                        \* fft2 / ifft2 of the result: 1 thread again
                 /\ Ensure(1) /\ vfftthreads' = Append(vfftthreads, vfftw')
                 /\ vpc' = "return"
                 /\ UNCHANGED <<vthreads, vnumba, vcompiled, vreq, vkernel, vhist, vres, vwis>>

\* the value computed: the request, which kernel variant ran, and with how many threads each FFT ran
Return ==        /\ vpc = "return"
                 /\ vres' = <<vreq.id, vkernel, vfftthreads>>
                 /\ vpc' = "idle"
                 /\ UNCHANGED <<vthreads, vnumba, vcompiled, vmgr, vfftw, vcreated, vreq, vkernel, vfftthreads, vhist, vwis, vwisload>>

Next == \/ \E n \in ThreadCounts : SetThreads(n)
        \/ ResetFFT
        \/ \E w \in {"missing", "ok", "corrupt"} : Wisdom(w)
        \/ \E r \in Requests : Begin(r)
        \/ SourceFFT \/ ThreadSetup \/ Kernel \/ FinalFFT \/ Return
Spec == Init /\ [][Next]_rvars

(******************************** properties ********************************)
\* C12: what a solve computes depends on its request and the thread setting only - every FFT runs single-threaded
Pure == vres[1] # 0 =>
            /\ vres[2] = ((~vreq.an) /\ vthreads > 1)
            /\ \A i \in 1..Len(vres[3]) : vres[3][i] = 1
ManagerSingleAfterSolve == (vpc = "idle" /\ vres[1] # 0) => (vmgr = 1 /\ vfftw = 1)
KernelMatchesSetting == vpc = "transform" /\ ~vreq.an => (vkernel = (vthreads > 1) /\ (vthreads > 1) \in vcompiled)
\* a wisdom file is only ever taken over when it is readable
WisdomTolerant == [][vcreated' # vcreated => ((vwisload' = "loaded") <=> (vwis = "ok"))]_rvars
NumbaFollowsSetting == (vpc = "kernel" /\ ~vreq.an /\ vthreads > 1) => vnumba = vthreads

Emit == (vpc = "idle" /\ vres[1] # 0) =>
            PrintT("@@" \o ToJson([hist |-> vhist, state |-> [threads |-> vthreads, numba |-> vnumba, compiled |-> vcompiled,
                                                              mgr |-> vmgr, fftw |-> vfftw],
                                   kernel |-> vres[2], req |-> vres[1]]))
=============================================================================
