------------------------------ MODULE Profiles ------------------------------
(***************************************************************************)
(* vertical_profiles (bldfm/pbl_model.py) and its consumer in              *)
(* bldfm/interface.py: the case analysis of C09.                           *)
(*                                                                         *)
(*  Dispatch   which of (ustar, z0) is given x closure -> which quantity   *)
(*             is derived from which, or which error                       *)
(*  Grid       np.arange(0, zeta_max + dzeta, dzeta) in the mapped         *)
(*             coordinate: number of nodes, the node of the measurement    *)
(*             height, the top node                                        *)
(*  Winds      the similarity wind at every node, scaled to the supplied   *)
(*             wind vector                                                 *)
(*  Diffusivities  which of Kx, Ky, Kz is which expression                 *)
(*                                                                         *)
(* Exact rationals (Rat.tla).  The transcendental pieces enter only        *)
(* through three numbers per configuration, which is all the algebra of    *)
(* the code depends on:                                                    *)
(*    L0   = ln(zm/z0)              (when z0 is given)                     *)
(*    PsiM = psi(zm/L)              (stability correction at zm)           *)
(*    D(i) = [ln(z_i/z0) + psi(z_i/L)] - [ln(zm/z0) + psi(zm/L)]           *)
(*           (offset of node i from the measurement node, D(zm node) = 0)  *)
(* The harness instantiates them with real numbers and its own quadrature. *)
(*                                                                         *)
(* Deviation switches (negative controls):                                 *)
(*   InvStyle  "code" | "no_psi"     ustar from z0 without the correction  *)
(*   GridStep  "zm_over_n" | "zm_over_n1"   dzeta = zm/(n+1)               *)
(*   WindNorm  "absum" | "um"        profile scaled by um instead of |um|  *)
(***************************************************************************)
EXTENDS Rat, Sequences, FiniteSets, TLC, Json

CONSTANTS Bounds, InvStyle, GridStep, WindNorm

Kap == <<2, 5>>
Closures == {"MOST", "MOSTM", "CONSTANT", "OAAHOC", "FOO"}
Givens == {"ustar", "z0", "both", "neither"}
Winds3 == {<<3, 4, 5>>, <<-5, 12, 13>>, <<0, 2, 2>>, <<-3, 0, 3>>, <<8, -6, 10>>}       \* um, vm, |(um, vm)|
Ns == IF Bounds = "quick" THEN {1, 2, 3} ELSE 1..6
\* zeta_max / dzeta in quarters (default top 2 zm: about 1.6 n; a top below the measurement height: below n)
Tops(n) == {4 * n - 2, 4 * n, 4 * n + 1, 6 * n + 1, 8 * n, 8 * n + 3}
Configs == {[closure |-> c, given |-> g, n |-> n, wind |-> w, l0 |-> l0, psim |-> ps, us |-> us, zq |-> zq] :
               c \in Closures, g \in Givens, n \in Ns, w \in Winds3, l0 \in {<<2, 1>>, <<9, 2>>},
               ps \in {<<-1, 2>>, <<0, 1>>, <<3, 4>>}, us \in {<<1, 4>>, <<2, 5>>}, zq \in UNION {Tops(k) : k \in Ns}}

CeilDiv(a, b) == (a + b - 1) \div b
D(c, i) == Q(i - c.n, 2 * c.n)                  \* node offsets: any strictly increasing numbers with D(n) = 0

VARIABLES vc, vstage, vus, vlm, vcount, vu, vv, vk, verr
pvars == <<vc, vstage, vus, vlm, vcount, vu, vv, vk, verr>>

Init == /\ vc \in {c \in Configs : c.zq \in Tops(c.n)}
        /\ vstage = "enter" /\ vus = <<0, 1>> /\ vlm = <<0, 1>> /\ vcount = 0 /\ vu = << >> /\ vv = << >> /\ vk = << >> /\ verr = "none"

Absum(c) == QInt(c.wind[3])
\* ustar and the log-law factor Lm = ln(zm/z0) + psi(zm/L) after the dispatch
DerivedUstar(c) == QDiv(QMul(Absum(c), Kap), IF InvStyle = "code" THEN QAdd(c.l0, c.psim) ELSE c.l0)
Dispatch ==
    /\ vstage = "enter"
    /\ UNCHANGED <<vc, vcount, vu, vv, vk>>
    /\ CASE vc.closure \in {"MOST", "MOSTM", "CONSTANT"} ->
              CASE vc.given = "ustar" ->           \* z0 = zm exp(-kap |u| / ustar + psi): the factor is kap |u| / ustar
                       /\ vus' = vc.us /\ vlm' = QDiv(QMul(Kap, Absum(vc)), vc.us) /\ verr' = "none" /\ vstage' = "grid"
                [] vc.given = "z0" ->              \* ustar = |u| kap / (ln(zm/z0) + psi)
                       /\ vus' = DerivedUstar(vc) /\ vlm' = QAdd(vc.l0, vc.psim) /\ verr' = "none" /\ vstage' = "grid"
                [] vc.given = "both" -> verr' = "ValueError" /\ vstage' = "done" /\ UNCHANGED <<vus, vlm>>
                [] OTHER -> verr' = "TypeError" /\ vstage' = "done" /\ UNCHANGED <<vus, vlm>>    \* arithmetic on None
         [] vc.closure = "OAAHOC" ->               \* needs ustar; a z0 argument is ignored; z0 from the tke closure
              IF vc.given \in {"ustar", "both"}
              THEN /\ vus' = vc.us /\ vlm' = QDiv(QMul(Kap, Absum(vc)), vc.us) /\ verr' = "none" /\ vstage' = "grid"
              ELSE verr' = "TypeError" /\ vstage' = "done" /\ UNCHANGED <<vus, vlm>>
         [] OTHER -> verr' = "ValueError" /\ vstage' = "done" /\ UNCHANGED <<vus, vlm>>

\* np.arange(0, zeta_max + dzeta, dzeta): i * dzeta < zeta_max + dzeta
Grid == /\ vstage = "grid" /\ vstage' = "winds"
        /\ vcount' = IF GridStep = "zm_over_n" THEN CeilDiv(vc.zq, 4) + 1 ELSE CeilDiv(vc.zq * (vc.n + 1), 4 * vc.n) + 1
        /\ UNCHANGED <<vc, vus, vlm, vu, vv, vk, verr>>
\* the mapped coordinate of node i in units of zm / n
ZetaN(i) == IF GridStep = "zm_over_n" THEN QInt(i) ELSE Q(i * vc.n, vc.n + 1)
\* node offset for a node at mapped coordinate x (in units of zm/n): D is linear in the model
Off(x) == QDiv(QSub(x, QInt(vc.n)), QInt(2 * vc.n))

WindsStage ==
    /\ vstage = "winds" /\ vstage' = "diff"
    /\ LET speed(i) == IF vc.closure = "CONSTANT" THEN Absum(vc)
                       ELSE QMul(QDiv(vus, Kap), QAdd(vlm, Off(ZetaN(i))))      \* ustar/kap (ln(z/z0) + psi(z/L))
           norm == IF WindNorm = "absum" \/ vc.wind[1] = 0 THEN Absum(vc) ELSE QInt(vc.wind[1])
       IN /\ vu' = [i \in 0..(vcount - 1) |-> IF vc.closure = "CONSTANT" THEN QInt(vc.wind[1]) ELSE QMul(QDiv(QInt(vc.wind[1]), norm), speed(i))]
          /\ vv' = [i \in 0..(vcount - 1) |-> IF vc.closure = "CONSTANT" THEN QInt(vc.wind[2]) ELSE QMul(QDiv(QInt(vc.wind[2]), norm), speed(i))]
    /\ UNCHANGED <<vc, vus, vlm, vcount, vk, verr>>

\* K = kap ustar z / phi / Pr as a positive rational per node (z/phi/Pr -> i + 1); Kx, Ky, Kz per closure
DiffStage ==
    /\ vstage = "diff" /\ vstage' = "done"
    /\ vk' = [i \in 0..(vcount - 1) |->
                LET K == IF vc.closure = "CONSTANT" THEN QMul(Kap, vus) ELSE QMul(QMul(Kap, vus), QInt(i + 1))
                    u2 == QMul(vu[i], vu[i])  v2 == QMul(vv[i], vv[i])  s == QAdd(u2, v2) IN
                IF vc.closure = "MOSTM" /\ s # <<0, 1>>
                THEN [x |-> QMul(K, QDiv(v2, s)), y |-> QMul(K, QDiv(u2, s)), z |-> K]
                ELSE [x |-> K, y |-> K, z |-> K]]
    /\ UNCHANGED <<vc, vus, vlm, vcount, vu, vv, verr>>

Next == Dispatch \/ Grid \/ WindsStage \/ DiffStage
Spec == Init /\ [][Next]_pvars

(******************************** properties ********************************)
Done == vstage = "done"
Ok == Done /\ verr = "none"
ErrorsAsDeclared ==
    Done => (verr # "none" <=> \/ vc.closure = "FOO"
                               \/ (vc.closure \in {"MOST", "MOSTM", "CONSTANT"} /\ vc.given \in {"both", "neither"})
                               \/ (vc.closure = "OAAHOC" /\ vc.given \in {"z0", "neither"}))
\* the measurement height is the node with the index n - when the top is not below it
GridIndex == vstage = "winds" =>
               /\ (vc.zq > 4 * (vc.n - 1) => vcount > vc.n)
               /\ ZetaN(vc.n) = QInt(vc.n)                             \* mapped coordinate of node n is zm
               /\ ~QLt(ZetaN(vcount - 1), Q(vc.zq, 4))                    \* the last node reaches the top
               /\ QLt(ZetaN(vcount - 2), Q(vc.zq, 4))                     \* and no node before it does
\* the supplied wind vector at the node the interface reads as the measurement height (index n)
WindAtZm == (Ok /\ vcount > vc.n) => (vu[vc.n] = QInt(vc.wind[1]) /\ vv[vc.n] = QInt(vc.wind[2]))
DirectionConstant == Ok => \A i \in DOMAIN vu : QMul(vu[i], QInt(vc.wind[2])) = QMul(vv[i], QInt(vc.wind[1]))
Proj(i) == QAdd(QMul(vu[i], QInt(vc.wind[1])), QMul(vv[i], QInt(vc.wind[2])))       \* wind at node i along the supplied vector
SpeedIncreases == (Ok /\ vc.closure # "CONSTANT") => \A i \in DOMAIN vu : i > 0 => QLt(Proj(i - 1), Proj(i))
KPositive == Ok => \A i \in DOMAIN vk : /\ QLt(<<0, 1>>, vk[i].z)
                                        /\ ~QLt(vk[i].x, <<0, 1>>) /\ ~QLt(vk[i].y, <<0, 1>>)
                                        /\ (vc.closure # "MOSTM" => vk[i].x = vk[i].z /\ vk[i].y = vk[i].z)
                                        /\ (vc.closure = "MOSTM" => QAdd(vk[i].x, vk[i].y) = vk[i].z)
\* z0 -> ustar -> z0: feeding the derived friction velocity back gives the same log-law factor, hence the same profiles
RoundTrip == (Ok /\ vc.given = "z0" /\ vc.closure # "OAAHOC") => QDiv(QMul(Kap, Absum(vc)), vus) = QAdd(vc.l0, vc.psim)

Emit == Done => PrintT("@@" \o ToJson([cfg |-> vc, err |-> verr, count |-> vcount, ustar |-> vus, lm |-> vlm]))
=============================================================================
