\* negative control: a dry run applies the runtime settings - expects DryRunIsPure violated
CONSTANTS
  Force = TRUE
  Idempotent = TRUE
  FlagFirst = FALSE
  MaxCalls = 2
  DryStyle = "settings"
INIT CInit
NEXT CNext
CHECK_DEADLOCK FALSE
INVARIANT HandlersBounded
INVARIANT HandlerFileExists
INVARIANT InitMeansConfigured
PROPERTY DryRunIsPure
PROPERTY SettingsFromConfig
PROPERTY EveryPairOnce
PROPERTY CliInitialises
PROPERTY PlotsOnlyOnRequest
PROPERTY PlotsMonotone
PROPERTY PlotPerResult

