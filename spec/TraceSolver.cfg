\* trace validation of recorded solver calls (TRACE_FILE in the environment)
CONSTANTS
  ShiftStyle = "pad" LevelStyle = "match" TruncStyle = "exact" AnalyticStyle = "outer" BCubic = "plus"
  Sizes = {202} Cells = {11} Halos = {0} ModeSet = {202} NZs = {3} LevelLists = "mid" Tabs = {1} Analytic = {FALSE} Family = "shape"
INIT TraceInit
NEXT TraceNext
INVARIANT TraceShapeOrError
INVARIANT TraceLabels
INVARIANT Report
CHECK_DEADLOCK FALSE
