\* boundary conditions of the discrete problem (specification growth, not a listed property): surface flux and radiation condition
CONSTANTS
  ShiftStyle = "pad" LevelStyle = "match" TruncStyle = "exact" AnalyticStyle = "outer" BCubic = "plus"
  Sizes = {302, 303, 403, 404}
  Cells = {11, 23}
  Halos = {0}
  ModeSet = {1212}
  NZs = {3}
  LevelLists = "ends"
  Tabs = {1}
  Analytic = {FALSE, TRUE}
  Family = "boundary"
INIT Init
NEXT Next
CHECK_DEADLOCK FALSE
INVARIANT StagesAgree
INVARIANT ShapeOrError
INVARIANT SurfaceBC
INVARIANT TopBC
INVARIANT Emit
