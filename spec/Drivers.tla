------------------------------- MODULE Drivers -------------------------------
(***************************************************************************)
(* bldfm.interface.run_bldfm_parallel (and, with one worker that is the    *)
(* caller itself, run_bldfm_timeseries / run_bldfm_multitower).            *)
(*                                                                         *)
(* Tasks are submitted in list order to a pool of NW worker processes      *)
(* (pool.map): an idle worker takes the next unstarted task, resets the    *)
(* state it inherited from the parent by fork (thread count, FFT manager), *)
(* solves, and the result is stored at the task's POSITION; the pool is    *)
(* drained and the positional list is re-assembled per strategy:           *)
(*   "towers": one task per tower = its whole series -> dict by name       *)
(*   "time":   one pool per tower, one task per step -> list per tower     *)
(*   "both":   one pool, tasks = (tower, step) tower-major -> sliced by NS  *)
(* All interleavings of take / solve / finish across workers are explored. *)
(*                                                                         *)
(* Deviation switches:                                                     *)
(*   Collect    "position" | "completion" (results in order of completion) *)
(*   SliceStep  "NS" | "NT" (flat list sliced with the wrong stride)       *)
(*   WorkerInit TRUE | FALSE (workers keep the parent's thread setting)    *)
(***************************************************************************)
EXTENDS Integers, Sequences, FiniteSets, TLC, Json

CONSTANTS MaxNT, MaxNS, MaxNW, Strategies, ParentThreadSet, Collect, SliceStep, WorkerInit

VARIABLE vcfg      \* [nt, ns, nw, strat, pt]: the shape of the run, chosen initially and never changed
NT == vcfg.nt
NS == vcfg.ns
NW == vcfg.nw
Strategy == vcfg.strat
ParentThreads == vcfg.pt

Towers == 1..NT
Steps == 1..NS
Workers == 1..NW

\* the value a single run of (tower, step) returns when solved with `thr` numerical threads
Sol(tw, st, thr) == <<tw, st, thr>>
Single(tw, st) == Sol(tw, st, 1)

\* task lists
TaskList(phase) ==
    CASE Strategy = "towers" -> [i \in 1..NT |-> <<i, 0>>]                       \* step 0 = the whole series
      [] Strategy = "time"   -> [i \in 1..NS |-> <<phase, i>>]                   \* pool number `phase` serves tower `phase`
      [] Strategy \in {"both", "serial", "cli"}                                   \* tower-major list of (tower, step)
                             -> [i \in 1..(NT * NS) |-> <<((i - 1) \div NS) + 1, ((i - 1) % NS) + 1>>]
NPhases == IF Strategy = "time" THEN NT ELSE 1

VARIABLES
    vphase,     \* current pool (1..NPhases), NPhases + 1 when all pools are done
    vnext,      \* index of the next unstarted task of the current pool
    vbusy,      \* worker -> task index it holds (0 = idle)
    vinit,      \* worker -> has reset the inherited state for the task it holds
    vwthr,      \* worker -> numerical thread setting of that process
    vprog,      \* worker -> number of steps of a series task already solved
    vacc,       \* worker -> results of the series task so far
    vout,       \* position -> result (<< >> = not there yet)
    vorder,     \* positions in order of completion (observation)
    vresults,   \* assembled result: sequence of <<tower, list of step results>>
    vpcd        \* "submit" | "run" | "assemble" | "done"

dvars == <<vcfg, vphase, vnext, vbusy, vinit, vwthr, vprog, vacc, vout, vorder, vresults, vpcd>>

Tasks == TaskList(vphase)
NTasks == Len(Tasks)

Init == /\ vcfg \in [nt : 1..MaxNT, ns : 1..MaxNS, nw : 1..MaxNW, strat : Strategies, pt : ParentThreadSet]
        /\ vphase = 1 /\ vnext = 1
        /\ vbusy = [w \in Workers |-> 0] /\ vinit = [w \in Workers |-> FALSE]
        /\ vwthr = [w \in Workers |-> ParentThreads]                 \* forked: inherits the parent's setting
        /\ vprog = [w \in Workers |-> 0] /\ vacc = [w \in Workers |-> << >>]
        /\ vout = << >> /\ vorder = << >> /\ vresults = << >> /\ vpcd = "submit"

\* The serial drivers (run_bldfm_multitower / run_bldfm_timeseries: "serial") and the CLI loop (bldfm run: "cli")
\* have no pool: the caller itself solves the tasks in list order - towers outer, steps inner - with ITS thread setting.
Serial == Strategy \in {"serial", "cli"}
SerialStart == /\ vpcd = "submit" /\ Serial
               /\ vout' = [i \in 1..NTasks |-> << >>] /\ vorder' = << >> /\ vnext' = 1 /\ vpcd' = "serialrun"
               /\ UNCHANGED <<vcfg, vphase, vbusy, vinit, vwthr, vprog, vacc, vresults>>
SerialStep ==  /\ vpcd = "serialrun" /\ vnext <= NTasks
               /\ LET tk == Tasks[vnext] IN
                  vout' = [vout EXCEPT ![vnext] = <<tk[1], <<Sol(tk[1], tk[2], ParentThreads)>>>>]
               /\ vorder' = Append(vorder, vnext) /\ vnext' = vnext + 1
               /\ UNCHANGED <<vcfg, vphase, vbusy, vinit, vwthr, vprog, vacc, vresults, vpcd>>
SerialDone ==  /\ vpcd = "serialrun" /\ vnext > NTasks /\ vpcd' = "assemble"
               /\ UNCHANGED <<vcfg, vphase, vnext, vbusy, vinit, vwthr, vprog, vacc, vout, vorder, vresults>>

Submit ==   /\ vpcd = "submit" /\ ~Serial                            \* a pool is created and all tasks are queued
            /\ vout' = [i \in 1..NTasks |-> << >>] /\ vorder' = << >> /\ vnext' = 1
            /\ vbusy' = [w \in Workers |-> 0] /\ vinit' = [w \in Workers |-> FALSE]
            /\ vwthr' = [w \in Workers |-> ParentThreads]
            /\ vprog' = [w \in Workers |-> 0] /\ vacc' = [w \in Workers |-> << >>]
            /\ vpcd' = "run"
            /\ UNCHANGED <<vcfg, vphase, vresults>>

Take(w) ==  /\ vpcd = "run" /\ vbusy[w] = 0 /\ vnext <= NTasks         \* an idle worker takes the next unstarted task
            /\ vbusy' = [vbusy EXCEPT ![w] = vnext] /\ vnext' = vnext + 1
            /\ vinit' = [vinit EXCEPT ![w] = FALSE] /\ vprog' = [vprog EXCEPT ![w] = 0] /\ vacc' = [vacc EXCEPT ![w] = << >>]
            /\ UNCHANGED <<vcfg, vphase, vwthr, vout, vorder, vresults, vpcd>>

WInit(w) == /\ vpcd = "run" /\ vbusy[w] # 0 /\ ~vinit[w]              \* _worker_*: NUM_THREADS := 1, reset_fft_manager()
            /\ vinit' = [vinit EXCEPT ![w] = TRUE]
            /\ vwthr' = [vwthr EXCEPT ![w] = IF WorkerInit THEN 1 ELSE @]
            /\ UNCHANGED <<vcfg, vphase, vnext, vbusy, vprog, vacc, vout, vorder, vresults, vpcd>>

\* one single run inside the worker
WSolve(w) == /\ vpcd = "run" /\ vbusy[w] # 0 /\ vinit[w]
             /\ LET tk == Tasks[vbusy[w]] IN
                IF tk[2] = 0
                THEN /\ vprog[w] < NS                                  \* series task: steps in time order
                     /\ vacc' = [vacc EXCEPT ![w] = Append(@, Sol(tk[1], vprog[w] + 1, vwthr[w]))]
                     /\ vprog' = [vprog EXCEPT ![w] = @ + 1]
                ELSE /\ vprog[w] = 0
                     /\ vacc' = [vacc EXCEPT ![w] = <<Sol(tk[1], tk[2], vwthr[w])>>]
                     /\ vprog' = [vprog EXCEPT ![w] = 1]
             /\ UNCHANGED <<vcfg, vphase, vnext, vbusy, vinit, vwthr, vout, vorder, vresults, vpcd>>

Finish(w) == /\ vpcd = "run" /\ vbusy[w] # 0 /\ vinit[w]               \* the result travels back to the parent
             /\ LET tk == Tasks[vbusy[w]] IN vprog[w] = (IF tk[2] = 0 THEN NS ELSE 1)
             /\ vout' = [vout EXCEPT ![IF Collect = "position" THEN vbusy[w] ELSE Len(vorder) + 1] =
                            <<Tasks[vbusy[w]][1], vacc[w]>>]
             /\ vorder' = Append(vorder, vbusy[w])
             /\ vbusy' = [vbusy EXCEPT ![w] = 0]
             /\ UNCHANGED <<vcfg, vphase, vnext, vinit, vwthr, vprog, vacc, vresults, vpcd>>

PoolDone == /\ vpcd = "run" /\ vnext > NTasks /\ \A w \in Workers : vbusy[w] = 0
            /\ vpcd' = "assemble"
            /\ UNCHANGED <<vcfg, vphase, vnext, vbusy, vinit, vwthr, vprog, vacc, vout, vorder, vresults>>

Stride == IF SliceStep = "NS" THEN NS ELSE NT
Assemble == /\ vpcd = "assemble"
            /\ vresults' =
                 CASE Strategy = "towers" -> [i \in 1..NT |-> <<vout[i][1], vout[i][2]>>]           \* {name: res for name, res in futures}
                   [] Strategy = "time"   -> Append(vresults, <<vphase, [s \in 1..NS |-> vout[s][2][1]]>>)   \* results[tower.name] = step_results
                   [] Strategy = "cli"    -> [k \in 1..(NT * NS) |-> vout[k]]                          \* results.append(result)
                   [] Strategy \in {"both", "serial"} -> [i \in 1..NT |->
                                               <<i, [s \in 1..NS |->
                                                       LET k == ((i - 1) * Stride) + s IN
                                                       IF k <= NT * NS THEN vout[k][2][1] ELSE <<0, 0, 0>>]>>]
            /\ IF vphase < NPhases THEN vphase' = vphase + 1 /\ vpcd' = "submit"
               ELSE vphase' = vphase /\ vpcd' = "done"
            /\ UNCHANGED <<vcfg, vnext, vbusy, vinit, vwthr, vprog, vacc, vout, vorder>>

Next == SerialStart \/ SerialStep \/ SerialDone \/ Submit \/ (\E w \in Workers : Take(w) \/ WInit(w) \/ WSolve(w) \/ Finish(w)) \/ PoolDone \/ Assemble
Spec == Init /\ [][Next]_dvars

(******************************** properties ********************************)
DoneD == vpcd = "done"
\* what entry (tower i, step s) must be: the single run - solved with one thread in a worker, with the caller's setting serially
Expect(i, s) == Sol(i, s, IF Serial THEN ParentThreads ELSE 1)
KeysInConfigOrder == DoneD =>
    IF Strategy = "cli" THEN Len(vresults) = NT * NS /\ \A k \in 1..(NT * NS) : vresults[k][1] = ((k - 1) \div NS) + 1
    ELSE Len(vresults) = NT /\ \A i \in 1..NT : vresults[i][1] = i
OnePerStep == DoneD => \A i \in 1..Len(vresults) : Len(vresults[i][2]) = (IF Strategy = "cli" THEN 1 ELSE NS)
EachIsSingle == DoneD =>
    IF Strategy = "cli" THEN \A k \in 1..(NT * NS) : vresults[k][2][1] = Expect(((k - 1) \div NS) + 1, ((k - 1) % NS) + 1)
    ELSE \A i \in 1..NT : \A s \in 1..NS : vresults[i][2][s] = Expect(i, s)
\* every task is taken exactly once (no task lost or run twice) - on the positional list
EveryTaskOnce == vpcd = "assemble" => (Len(vorder) = NTasks /\ \A i \in 1..NTasks : Cardinality({k \in 1..Len(vorder) : vorder[k] = i}) = 1)
\* a worker never solves with an inherited thread setting
InitBeforeSolve == \A w \in Workers : (vprog[w] > 0 /\ vbusy[w] # 0) => (vinit[w] /\ (WorkerInit => vwthr[w] = 1))

Emit == DoneD => PrintT("@@" \o ToJson([cfg |-> vcfg, order |-> vorder]))
View == <<vcfg, vphase, vnext, vbusy, vinit, vwthr, vprog, vacc, vout, vresults, vpcd>>
=============================================================================
