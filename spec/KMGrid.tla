------------------------------- MODULE KMGrid -------------------------------
(***************************************************************************)
(* The Kormann-Meixner reference footprint on its output grid              *)
(* (bldfm/ffm_kormann_meixner.py, estimateFootprint): which cell gets      *)
(* which value.  All lengths are integers in units of HALF a cell, so that *)
(* cell centres, domain bounds that do not end on a cell edge and a        *)
(* receptor on a cell centre, edge or corner are all exact.                *)
(*                                                                         *)
(* The value of the published closed form at a point depends only on the   *)
(* upwind distance and on the square of the crosswind distance; in the     *)
(* model it is the token [up, cr] (cr = |crosswind|); the harness          *)
(* instantiates the token with the paper's equations.  The wind direction  *)
(* is a multiple of 90 degrees (or absent): exactly the angles the         *)
(* property demands exactly.                                               *)
(*                                                                         *)
(* One action per stage of the code: SetupGrid (np.meshgrid of the two     *)
(* aranges), Shift (receptor to the origin), Rotate (polar coordinates,    *)
(* theta + wd - 90 degrees), Evaluate (x > 0 cells get the expression).    *)
(*                                                                         *)
(* Deviation switches (negative controls):                                 *)
(*   RotSense    "code" | "cw"  : theta - wd + 90 instead                  *)
(*   RowOrder    "topdown" | "bottomup": first row at ymax or at ymin      *)
(*   UpwindTest  "gt" | "ge"    : x > 0 or x >= 0                          *)
(***************************************************************************)
EXTENDS Integers, Sequences, FiniteSets, TLC, Json

CONSTANTS Bounds, RotSense, RowOrder, UpwindTest

NoWd == 999

(******************************* configurations ****************************)
\* xmin, xmax, ymin, ymax, mx, my in half cells; wd in degrees or NoWd
Range(a, b) == a..b
Configs ==
    IF Bounds = "quick" THEN
        {[xmin |-> x0, xmax |-> x0 + w, ymin |-> y0, ymax |-> y0 + h, mx |-> m[1], my |-> m[2], wd |-> d] :
            x0 \in {-6, -3, 0}, w \in {3, 6, 8}, y0 \in {-4, -3}, h \in {2, 7, 8},
            m \in {<<0, 0>>, <<1, 0>>, <<-1, 1>>, <<2, -1>>}, d \in {NoWd, 0, 90, 180, 270}}
    ELSE
        {[xmin |-> x0, xmax |-> x0 + w, ymin |-> y0, ymax |-> y0 + h, mx |-> m[1], my |-> m[2], wd |-> d] :
            x0 \in -7..1, w \in 1..10, y0 \in -6..0, h \in 1..10,
            m \in {<<0, 0>>, <<1, 0>>, <<-1, 1>>, <<2, -1>>, <<0, 3>>, <<-5, -2>>}, d \in {NoWd, 0, 90, 180, 270, 360, 450, -90}}

(********************************* the grid ********************************)
\* np.arange(start, stop, step) has ceil((stop - start) / step) elements (none if that is not positive)
CeilDiv(a, b) == IF a <= 0 THEN 0 ELSE (a + b - 1) \div b
NCols(c) == CeilDiv(c.xmax - (c.xmin + 1), 2)          \* np.arange(xmin + res/2, xmax, res)
NRows(c) == CeilDiv((c.ymax - 1) - c.ymin, 2)          \* np.arange(ymax - res/2, ymin, -res)
Cells(c) == (0..(NRows(c) - 1)) \X (0..(NCols(c) - 1))  \* <<row, column>>
GX(c, cell) == c.xmin + 1 + 2 * cell[2]
GY(c, cell) == IF RowOrder = "topdown" THEN c.ymax - 1 - 2 * cell[1] ELSE c.ymin + 1 + 2 * cell[1]

(************************* the geometric definition ************************)
\* the direction the wind comes from, as a unit vector; no wind direction: the grid's x axis is the upwind axis
Quarter(wd) == IF wd = NoWd THEN 1 ELSE (((wd \div 90) % 4) + 4) % 4     \* 0 north, 1 east, 2 south, 3 west
FromVec(wd) == CASE Quarter(wd) = 0 -> <<0, 1>> [] Quarter(wd) = 1 -> <<1, 0>> [] Quarter(wd) = 2 -> <<0, -1>> [] OTHER -> <<-1, 0>>
\* crosswind axis: right-handed with the upwind axis (its sign never matters: the value depends on the square)
CrossVec(wd) == LET f == FromVec(wd) IN <<-f[2], f[1]>>
Up(c, cell) == LET f == FromVec(c.wd) IN (GX(c, cell) - c.mx) * f[1] + (GY(c, cell) - c.my) * f[2]
Cross(c, cell) == LET g == CrossVec(c.wd) IN (GX(c, cell) - c.mx) * g[1] + (GY(c, cell) - c.my) * g[2]
Abs(n) == IF n < 0 THEN -n ELSE n
Zero == [up |-> 0, cr |-> 0]
Tok(u, w) == [up |-> u, cr |-> Abs(w)]
\* the published footprint on the grid: crosswind-integrated footprint(up) x Gaussian(cross; up) x cell area, nothing downwind
Published(c) == [cell \in Cells(c) |-> IF Up(c, cell) > 0 THEN Tok(Up(c, cell), Cross(c, cell)) ELSE Zero]

(****************************** the code's route ***************************)
\* quarter turns counter-clockwise applied to the shifted coordinates: new_theta = theta + wd - 90 degrees
Turns(wd) == IF wd = NoWd THEN 0
             ELSE IF RotSense = "code" THEN ((((wd \div 90) - 1) % 4) + 4) % 4 ELSE (((1 - (wd \div 90)) % 4) + 4) % 4
Rot(q, p) == CASE q = 0 -> p [] q = 1 -> <<-p[2], p[1]>> [] q = 2 -> <<-p[1], -p[2]>> [] OTHER -> <<p[2], -p[1]>>

VARIABLES vcfg, vstage, vxy, vval
gvars == <<vcfg, vstage, vxy, vval>>

Init == /\ vcfg \in Configs /\ vstage = "enter" /\ vxy = << >> /\ vval = << >>

SetupGrid == /\ vstage = "enter" /\ vstage' = "grid"
             /\ vxy' = [cell \in Cells(vcfg) |-> <<GX(vcfg, cell), GY(vcfg, cell)>>]
             /\ vval' = [cell \in Cells(vcfg) |-> Zero]                     \* grid_ffm = zeros_like(grid_x)
             /\ UNCHANGED vcfg
Shift ==     /\ vstage = "grid" /\ vstage' = IF vcfg.wd = NoWd THEN "frame" ELSE "shifted"
             /\ vxy' = [cell \in DOMAIN vxy |-> <<vxy[cell][1] - vcfg.mx, vxy[cell][2] - vcfg.my>>]
             /\ UNCHANGED <<vcfg, vval>>
Rotate ==    /\ vstage = "shifted" /\ vstage' = "frame"
             /\ vxy' = [cell \in DOMAIN vxy |-> Rot(Turns(vcfg.wd), vxy[cell])]
             /\ UNCHANGED <<vcfg, vval>>
Evaluate ==  /\ vstage = "frame" /\ vstage' = "done"
             /\ vval' = [cell \in DOMAIN vxy |->
                           LET x == vxy[cell][1] y == vxy[cell][2] IN
                           IF x > 0 THEN Tok(x, y)
                           ELSE IF x = 0 /\ UpwindTest = "ge" THEN [up |-> -1, cr |-> -1]     \* 0 ** negative * exp(-inf): not a number
                           ELSE Zero]
             /\ UNCHANGED <<vcfg, vxy>>
Next == SetupGrid \/ Shift \/ Rotate \/ Evaluate
Spec == Init /\ [][Next]_gvars

(******************************** properties ********************************)
Done == vstage = "done"
\* cell by cell the returned grid is the published footprint
CellByCell == Done => vval = Published(vcfg)
\* nothing downwind of the receptor (and nothing abeam)
ZeroDownwind == Done => \A cell \in DOMAIN vval : Up(vcfg, cell) <= 0 => vval[cell] = Zero
\* mirror images about the wind axis through the receptor carry the same value
SymmetricAboutAxis == Done => \A a, b \in DOMAIN vval :
                         (Up(vcfg, a) = Up(vcfg, b) /\ Cross(vcfg, a) = -Cross(vcfg, b)) => vval[a] = vval[b]
\* the returned coordinates are the cell centres, first row at the top
Coordinates == vstage = "grid" =>
                 /\ \A cell \in DOMAIN vxy : vxy[cell] = <<vcfg.xmin + 1 + 2 * cell[2], vcfg.ymax - 1 - 2 * cell[1]>>
                 /\ \A cell \in DOMAIN vxy : vxy[cell][1] < vcfg.xmax /\ vxy[cell][2] > vcfg.ymin
\* turning the wind by a quarter (clockwise, as wind directions count) turns the footprint about the receptor:
\* the value at receptor + p under wd is found at receptor + cw(p) under wd + 90
CW(p) == <<p[2], -p[1]>>
CellAt(c, p) == {cell \in Cells(c) : GX(c, cell) = p[1] /\ GY(c, cell) = p[2]}
OneShot(c) == [cell \in Cells(c) |->
                 LET q == Rot(Turns(c.wd), <<GX(c, cell) - c.mx, GY(c, cell) - c.my>>) IN IF q[1] > 0 THEN Tok(q[1], q[2]) ELSE Zero]
Turned(c) == [c EXCEPT !.wd = IF c.wd = NoWd THEN 180 ELSE c.wd + 90]
RotationAboutReceptor ==
    Done => LET c == vcfg  t == Turned(vcfg) IN
            \A a \in Cells(c) :
               LET p == <<GX(c, a) - c.mx, GY(c, a) - c.my>>
                   q == CW(p) IN
               \A b \in CellAt(t, <<t.mx + q[1], t.my + q[2]>>) : OneShot(t)[b] = vval[a]
StagesAgree == Done => vval = OneShot(vcfg)
\* wind directions are angles: 360 is north, 450 east, -90 west
Periodic == Done => \A k \in {-360, 360} : vcfg.wd # NoWd => OneShot([vcfg EXCEPT !.wd = vcfg.wd + k]) = vval

Row(c, r) == [j \in 1..NCols(c) |-> <<vval[<<r, j - 1>>].up, vval[<<r, j - 1>>].cr>>]
Emit == Done => PrintT("@@" \o ToJson([cfg |-> vcfg, rows |-> NRows(vcfg), cols |-> NCols(vcfg),
                                         val |-> [i \in 1..NRows(vcfg) |-> Row(vcfg, i - 1)]]))
=============================================================================
