------------------------------ MODULE Lifecycle ------------------------------
(***************************************************************************)
(* bldfm/__init__.py: initialize() and bldfm/utils.py: setup_logging() -   *)
(* the process-wide runtime state the CLI sets up before the first run:    *)
(* the "initialised" flag, the output directories and the handlers of the  *)
(* root logger.  No listed property speaks about it; it is specified       *)
(* because it is the one piece of process state next to Runtime.tla that   *)
(* every driver history passes through, and because its failure modes      *)
(* (handlers that pile up over repeated calls, a second initialize() that   *)
(* re-configures, a half-done initialisation that is remembered as done)   *)
(* are history properties.  Advisory family of C14: a disagreement of the   *)
(* real functions with this module is drift, never a violation.            *)
(*                                                                         *)
(* One action per public call.  Directories are model values with a parent *)
(* relation: initialize() creates its two directories WITHOUT parents      *)
(* (Path.mkdir(exist_ok=True)) and raises when the parent is missing -     *)
(* before the flag is set, so the call can be repeated; setup_logging()    *)
(* creates the log directory WITH parents.  Log files: "none" (auto_file   *)
(* off), "auto" (time-stamped name), or an explicit name.                  *)
(***************************************************************************)
EXTENDS Integers, Sequences, FiniteSets, TLC, Json

CONSTANTS Force,        \* TRUE: the code (basicConfig(force=True) replaces the handlers) | FALSE: handlers of the first call stay
          Idempotent,   \* TRUE: the code (second initialize() is a no-op) | FALSE: every call configures again
          FlagFirst,    \* FALSE: the code (flag set after the work) | TRUE: flag set before the directories are made
          MaxCalls

Dirs   == {"logs", "plots", "deep/logs", "deep", "other"}
Parent == [d \in Dirs |-> IF d = "deep/logs" THEN "deep" ELSE "."]
Files  == {"none", "auto", "a.log", "b.log"}
Levels == {"DEFAULT", "DEBUG", "WARNING"}        \* DEFAULT: level=None -> INFO
EffLevel(l) == IF l = "DEFAULT" THEN "INFO" ELSE l

VARIABLES vinit,      \* bldfm._initialized
          vdirs,      \* directories that exist
          vhandlers,  \* handlers of the root logger, in order: <<"-", "console">> | <<dir, file>>
          vlevel,     \* level of the "bldfm" logger ("UNSET" before the first configuration)
          vfiles,     \* log files that exist: <<dir, file>>
          vlast,      \* outcome of the last call: "ok" | "noop" | "raised"
          vcalls, vhist
lvars == <<vinit, vdirs, vhandlers, vlevel, vfiles, vlast, vcalls, vhist>>

Init == /\ vinit = FALSE /\ vdirs = {} /\ vhandlers = << >> /\ vlevel = "UNSET" /\ vfiles = {}
        /\ vlast = "ok" /\ vcalls = 0 /\ vhist = << >>

Post == [init |-> vinit, dirs |-> vdirs, handlers |-> vhandlers, level |-> vlevel, files |-> vfiles, last |-> vlast]
WithParents(d) == IF Parent[d] = "." THEN {d} ELSE {d, Parent[d]}
Console == <<"-", "console">>
Wanted(d, f) == IF f = "none" THEN <<Console>> ELSE <<Console, <<d, f>>>>

\* the effect of setup_logging(log_dir=d, file option f, level l) on the logging state
SetupEffect(d, f, l) ==
    /\ vdirs' = IF f = "none" THEN vdirs ELSE vdirs \cup WithParents(d)       \* mkdir(parents=True) only when a file is written
    /\ vfiles' = IF f = "none" THEN vfiles ELSE vfiles \cup {<<d, f>>}
    /\ vhandlers' = IF Force \/ vhandlers = << >> THEN Wanted(d, f) ELSE vhandlers
    /\ vlevel' = EffLevel(l)

Setup(d, f, l) ==
    /\ vcalls < MaxCalls
    /\ SetupEffect(d, f, l)
    /\ vlast' = "ok" /\ vcalls' = vcalls + 1
    /\ UNCHANGED vinit
    /\ vhist' = Append(vhist, [call |-> "setup", dir |-> d, file |-> f, level |-> l, plot |-> "-", post |-> Post'])

\* initialize(log_dir=d, plot_dir=p, file option f, level l)
Initialize(d, p, f, l) ==
    /\ vcalls < MaxCalls
    /\ vcalls' = vcalls + 1
    /\ IF vinit /\ Idempotent
       THEN vlast' = "noop" /\ UNCHANGED <<vinit, vdirs, vhandlers, vlevel, vfiles>>
       ELSE IF Parent[d] # "." /\ Parent[d] \notin vdirs                 \* first mkdir fails: nothing else happens
            THEN /\ vlast' = "raised" /\ vinit' = (FlagFirst \/ vinit)
                 /\ UNCHANGED <<vdirs, vhandlers, vlevel, vfiles>>
            ELSE IF Parent[p] # "." /\ Parent[p] \notin vdirs \cup {d}   \* second mkdir fails: the log directory stays
                 THEN /\ vlast' = "raised" /\ vinit' = (FlagFirst \/ vinit)
                      /\ vdirs' = vdirs \cup {d}
                      /\ UNCHANGED <<vhandlers, vlevel, vfiles>>
                 ELSE /\ vlast' = "ok" /\ vinit' = TRUE
                      /\ LET made == vdirs \cup {d, p} IN
                         /\ vdirs' = IF f = "none" THEN made ELSE made \cup WithParents(d)
                         /\ vfiles' = IF f = "none" THEN vfiles ELSE vfiles \cup {<<d, f>>}
                         /\ vhandlers' = IF Force \/ vhandlers = << >> THEN Wanted(d, f) ELSE vhandlers
                         /\ vlevel' = EffLevel(l)
    /\ vhist' = Append(vhist, [call |-> "initialize", dir |-> d, file |-> f, level |-> l, plot |-> p, post |-> Post'])

Next == \/ \E d \in {"logs", "deep/logs", "other"}, f \in Files, l \in Levels : Setup(d, f, l)
        \/ \E d \in {"logs", "deep/logs"}, p \in {"plots", "deep"}, f \in {"none", "auto", "a.log"}, l \in {"DEFAULT", "DEBUG"} :
              Initialize(d, p, f, l)
Spec == Init /\ [][Next]_lvars
LView == <<vinit, vdirs, vhandlers, vlevel, vfiles, vlast, vcalls>>      \* the history variable hidden

----------------------------------------------------------------------------
IsFile(h) == h # Console
\* handlers never pile up: at most the console and one file, whatever the history
HandlersBounded == /\ Len(vhandlers) <= 2
                   /\ Cardinality({i \in 1..Len(vhandlers) : vhandlers[i] = Console}) <= 1
                   /\ Cardinality({i \in 1..Len(vhandlers) : IsFile(vhandlers[i])}) <= 1
\* a handler writes into a file that exists in a directory that exists
HandlerFileExists == \A i \in 1..Len(vhandlers) : IsFile(vhandlers[i]) =>
                        vhandlers[i] \in vfiles /\ vhandlers[i][1] \in vdirs
\* the last effective configuration decides the handlers
LastSetupWins == [][\A d \in Dirs, f \in Files, l \in Levels :
                      Setup(d, f, l) => vhandlers' = Wanted(d, f) /\ vlevel' = EffLevel(l)]_lvars
\* once initialised, initialize() changes nothing
InitOnce == [][(vinit /\ vhist' # vhist /\ vhist'[Len(vhist')].call = "initialize")
                  => UNCHANGED <<vinit, vdirs, vhandlers, vlevel, vfiles>>]_lvars
\* an initialisation that raised is not remembered as done (it can be repeated after the parent was made)
RaisedNotRemembered == [][(~vinit /\ vlast' = "raised") => ~vinit']_lvars
\* the flag means: both directories of the successful call exist and logging is configured
InitMeansConfigured == vinit => vhandlers # << >> /\ vlevel # "UNSET"
\* nothing is ever deleted
Monotone == [][vdirs \subseteq vdirs' /\ vfiles \subseteq vfiles']_lvars

Emit == (vcalls = MaxCalls) =>
          PrintT("@@" \o ToJson([hist |-> vhist]))
=============================================================================
