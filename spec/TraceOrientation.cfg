\* observations of the real interface are judged against the conventions
CONSTANTS SinCos = "ok" WindSign = "from" Mode = "trace"
INIT Init
NEXT Next
CHECK_DEADLOCK FALSE
INVARIANT EmitT
