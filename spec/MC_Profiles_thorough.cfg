\* C09 thorough bounds
CONSTANTS
  Bounds = "thorough"
  InvStyle = "code"
  GridStep = "zm_over_n"
  WindNorm = "absum"
INIT Init
NEXT Next
CHECK_DEADLOCK FALSE
INVARIANT ErrorsAsDeclared
INVARIANT GridIndex
INVARIANT WindAtZm
INVARIANT DirectionConstant
INVARIANT SpeedIncreases
INVARIANT KPositive
INVARIANT RoundTrip
INVARIANT Emit
