\* C06 translation equivariance -- quick
CONSTANTS
  ShiftStyle = "pad" LevelStyle = "match" TruncStyle = "exact" AnalyticStyle = "outer" BCubic = "plus"
  Sizes = {302, 402, 303}
  Cells = {23}
  Halos = {0, 1, 2, 3}
  ModeSet = {202, 402, 1212}
  NZs = {3}
  LevelLists = "single"
  Tabs = {1}
  Analytic = {FALSE}
  Family = "translate"
INIT Init
NEXT Next
CHECK_DEADLOCK FALSE
INVARIANT StagesAgree
INVARIANT ShapeOrError
INVARIANT TranslateSource
INVARIANT TranslateTower
INVARIANT PointReflect
INVARIANT Recentre
INVARIANT TranslateTowerIn
INVARIANT PointReflectIn
INVARIANT Emit
