-------------------------------- MODULE KMZ0 --------------------------------
(***************************************************************************)
(* estimateZ0 (bldfm/ffm_kormann_meixner.py): the median of the raw        *)
(* roughness lengths over a window of wind directions.  The code walks     *)
(* kk = 0..359; the observations whose direction lies in [kk, kk+1) get    *)
(* the median over the observations whose direction lies in                *)
(* [kk - hw, kk + 1 + hw), where directions are first "wrapped" across     *)
(* north by a case analysis on kk and wd (kk < 90, kk > 270, wd > 270,     *)
(* wd < 90).  C19 demands invariance under a common rotation of all        *)
(* directions: the window must be a window ON THE CIRCLE.                  *)
(*                                                                         *)
(* Directions are integers in HALF degrees (0..719) so that observations   *)
(* on and between the one-degree bins are both present; the half window is *)
(* given in half degrees too (22.5 degrees = 45).                          *)
(*                                                                         *)
(* Deviation switch  WrapStyle: "code" | "none" (negative control: no      *)
(* wrapping across north) | "one_sided" (only directions above 270 are     *)
(* wrapped)                                                                *)
(***************************************************************************)
EXTENDS Integers, Sequences, FiniteSets, TLC, Json

CONSTANTS HalfWindows, WrapStyle, Rotations     \* half windows in HALF degrees; rotations in whole degrees

Dirs == 0..719

\* the code, line by line (kk in degrees, w in half degrees)
Wrapped(kk, w) ==
    IF kk < 90 /\ WrapStyle # "none" THEN (IF w > 540 THEN w - 720 ELSE w)                   \* wd_wrapped[wd > 270] = wd[wd > 270] - 360
    ELSE IF kk > 270 /\ WrapStyle = "code" THEN (IF w < 180 THEN w + 720 ELSE w)             \* wd_wrapped[wd < 90] = wd[wd < 90] + 360
    ELSE w
Idx1(kk, w) == w >= 2 * kk /\ w < 2 * (kk + 1)
Idx2(kk, w, hw) == Wrapped(kk, w) >= 2 * kk - hw /\ Wrapped(kk, w) < 2 * (kk + 1) + hw
\* the window on the circle
CircIn(kk, w, hw) == ((w - 2 * kk + hw) % 720) < 2 * hw + 2

VARIABLES vkk, vhw, vwin      \* loop variable, half window, the window of this bin (set by the loop body)
zvars == <<vkk, vhw, vwin>>

Init == vkk \in 0..359 /\ vhw \in HalfWindows /\ vwin = {}
Body == /\ vwin = {} /\ vwin' = {w \in Dirs : Idx2(vkk, w, vhw)} /\ UNCHANGED <<vkk, vhw>>
Spec == Init /\ [][Body]_zvars

Done == vwin # {}
\* every direction belongs to exactly one bin: every observation gets a value
EveryObservationOnce == \A w \in Dirs : Cardinality({kk \in 0..359 : Idx1(kk, w)}) = 1
\* the window is the circular one
WindowIsCircular == Done => vwin = {w \in Dirs : CircIn(vkk, w, vhw)}
\* hence a common rotation by whole degrees changes nothing
RotationInvariant == Done => \A r \in Rotations :
                        {(w + 2 * r) % 720 : w \in vwin} = {w \in Dirs : Idx2((vkk + r) % 360, w, vhw)}
\* the bin itself lies inside its window
BinInside == Done => \A w \in Dirs : Idx1(vkk, w) => w \in vwin

Emit == (Done /\ vkk % 7 = 0) => PrintT("@@" \o ToJson([kk |-> vkk, hw |-> vhw, n |-> Cardinality(vwin),
                                                         lo |-> CHOOSE w \in vwin : ((w - 1) % 720) \notin vwin]))
=============================================================================
