\* three processes, two keys, in-place writes, unreadable archive = miss (what the code does)
CONSTANTS NProc = 3 NKeys = 2 CatchLoad = TRUE
INIT Init
NEXT Next
CHECK_DEADLOCK FALSE
INVARIANT NeverFatalC
INVARIANT TransparentC
INVARIANT NoTornRead
