\* C03 conservation, unit footprint sum, halo = zero padding -- quick
CONSTANTS
  ShiftStyle = "pad" LevelStyle = "match" TruncStyle = "exact" AnalyticStyle = "outer" BCubic = "plus"
  Sizes = {302, 403, 502}
  Cells = {11, 23}
  Halos = {0, 1, 2, 3}
  ModeSet = {202, 402, 1212}
  NZs = {4}
  LevelLists = "mixed"
  Tabs = {1}
  Analytic = {FALSE, TRUE}
  Family = "conserve"
INIT Init
NEXT Next
CHECK_DEADLOCK FALSE
INVARIANT StagesAgree
INVARIANT ShapeOrError
INVARIANT MeanFlux
INVARIANT MeanConc
INVARIANT HaloIsPadding
INVARIANT RegularRun
INVARIANT Emit
