\* negative control for the free (simulation) mode: the key omits the output levels - found by -simulate
CONSTANTS
  KeyFields = {"shape", "z", "profiles", "domain", "modes", "meas_pt", "bg", "analytic", "halo", "precision"}
  HaloAtGet = "resolved"
  AtomicPut = FALSE
  CatchLoad = TRUE
  MaxCrashes = 3
  FreeRequests = 7
INIT Init
NEXT Next
CHECK_DEADLOCK FALSE
INVARIANT Transparent
INVARIANT NeverFatal
INVARIANT Effective
INVARIANT StoreSound
INVARIANT Emit
