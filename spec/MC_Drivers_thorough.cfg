\* C14: shapes up to 3 towers x 3 steps, up to 4 workers
CONSTANTS
  MaxNT = 3 MaxNS = 3 MaxNW = 4
  Strategies = {"towers", "time", "both", "serial", "cli"}
  ParentThreadSet = {1, 4}
  Collect = "position" SliceStep = "NS" WorkerInit = TRUE
INIT Init
NEXT Next
CHECK_DEADLOCK FALSE
VIEW View
INVARIANT KeysInConfigOrder
INVARIANT OnePerStep
INVARIANT EachIsSingle
INVARIANT EveryTaskOnce
INVARIANT InitBeforeSolve
INVARIANT Emit
