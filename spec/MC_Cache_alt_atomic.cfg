\* alternative design with an atomic store (temp file + rename): also satisfies every invariant; not what the code does
CONSTANTS
  KeyFields = {"shape", "z", "profiles", "domain", "levels", "modes", "meas_pt", "bg", "analytic", "halo", "precision"}
  HaloAtGet = "resolved"
  AtomicPut = TRUE
  CatchLoad = TRUE
  MaxCrashes = 2
  FreeRequests = 0
INIT Init
NEXT Next
CHECK_DEADLOCK FALSE
INVARIANT Transparent
INVARIANT NeverFatal
INVARIANT Effective
INVARIANT StoreSound
