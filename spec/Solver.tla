------------------------------- MODULE Solver -------------------------------
(***************************************************************************)
(* Executable model of bldfm.solver.steady_state_transport_solver and      *)
(* ivp_solver, one operator per stage of the code, exact over GF(P^2).     *)
(*                                                                         *)
(* Lengths are integers in a common unit u: dx = ax*u, dy = ay*u, the halo *)
(* and the measurement point are integer multiples of u.  Halo widths that *)
(* are not a whole number of cells and grids with dx # dy are therefore    *)
(* first class.  "2 pi / u" is a fixed generic field element W, so the     *)
(* wavenumber of mode k is W*k/(nxe*ax); phases exp(i*Lx*s) for a shift of *)
(* s units are powers of a primitive (ax*nxe)-th root of unity.            *)
(*                                                                         *)
(* Deviation switches (CONSTANTS) name the places where the pinned commit  *)
(* differs from the repaired design; MC_* configurations set them to what  *)
(* /repo implements now, MC_*_neg_* to the historical behaviour.           *)
(***************************************************************************)
EXTENDS Field, FiniteSets

CONSTANTS
    ShiftStyle,      \* "pad": footprint phase uses px*dx, py*dy   | "halo": uses the halo width (pinned commit)
    LevelStyle,      \* "match": slot k holds node levels[k]       | "cursor": running counter (pinned commit)
    TruncStyle,      \* "exact": slice [dl, dl+nl), pad to ne      | "sym": slice [dl, ne-dl), pad (dl, dl) (pinned commit)
    AnalyticStyle,   \* "outer": level vector on its own axis      | "flat": h broadcast against the mode vector (pinned commit)
    BCubic           \* "plus": cubic term of b as in exp(M)      | "minus": sign of the pinned commit

Max(a, b) == IF a > b THEN a ELSE b
Min(a, b) == IF a < b THEN a ELSE b

(***************************** numpy index semantics ************************)
Freq(s, n) == IF s < ((n + 1) \div 2) THEN s ELSE s - n        \* fftfreq(n, 1/n)[s]
SliceLen(n, a, b) == Max(0, Min(b, n) - Min(a, n))             \* len(x[a:b]) for 0 <= a, len(x) = n
ShiftIdx(i, n) == ((i + n) - (n \div 2)) % n                   \* fftshift(x)[i]  = x[ShiftIdx(i, n)]
UnshiftIdx(i, n) == (i + (n \div 2)) % n                       \* ifftshift(x)[i] = x[UnshiftIdx(i, n)]

Arr2(ny, nx, F(_, _)) == TLCEval([j \in 0..(ny - 1) |-> TLCEval([i \in 0..(nx - 1) |-> F(j, i)])])
Arr1(n, F(_)) == TLCEval([i \in 0..(n - 1) |-> F(i)])

RECURSIVE CSum(_, _)
CSum(F(_), n) == IF n < 0 THEN 0 ELSE CAdd(F(n), CSum(F, n - 1))       \* sum_{i=0..n} F(i)
RECURSIVE RSum(_, _)
RSum(F(_), n) == IF n < 0 THEN 0 ELSE (F(n) + RSum(F, n - 1)) % P

\* unnormalised 2-D DFT with kernel exp(sgn * 2 pi i (jl/ny + ik/nx)), row-column
DFTRows(G, ny, nx, sgn) == Arr2(ny, nx, LAMBDA j, k : CSum(LAMBDA i : CMul(G[j][i], Zeta(nx, sgn * i * k)), nx - 1))
DFTCols(R, ny, nx, sgn) == Arr2(ny, nx, LAMBDA l, k : CSum(LAMBDA j : CMul(R[j][k], Zeta(ny, sgn * j * l)), ny - 1))
\* TLC re-evaluates LET definitions and operator arguments at every use inside a LAMBDA;
\* a variable bound by a set constructor holds a value, so Bind evaluates e exactly once.
Bind(e, F(_)) == CHOOSE v \in {F(r) : r \in {e}} : TRUE
DFT2(G, ny, nx, sgn) == Bind(G, LAMBDA g0 : Bind(DFTRows(g0, ny, nx, sgn), LAMBDA R : DFTCols(R, ny, nx, sgn)))

(******************************** profile tables ****************************)
\* pseudo-random non-zero real field elements; f: 1=u 2=v 3=Kx 4=Ky 5=Kz 6=dz
PR(t, f, i) == 1 + (((t * 1009) + (f * 2503) + (i * 4001) + (17 * i * i * f) + (t * f * 313)) % (P - 1))
\* a per-configuration variation of the tables: wind and diffusivities can be overridden
\* by the configuration (mirrors, transposition); see ProfU etc.
W == 1234                                        \* stands for 2 pi / u
Half == RInv(2)
Sixth == RInv(6)

(******************************** configuration *****************************)
(* c.nx c.ny     cells                                                      *)
(* c.ax c.ay     cell size in units                                         *)
(* c.halo        -1 = None (default max(xmx, ymx)), else width in units     *)
(* c.mx c.my     requested numbers of modes (nlx, nly)                      *)
(* c.xm c.ym     measurement point in units                                 *)
(* c.fp c.an     footprint / analytic flags                                 *)
(* c.nz          number of vertical nodes                                   *)
(* c.lv          requested levels: sequence of node indices 0..nz-1         *)
(* c.src         <<kind, j, i>>: "unit" (cell j,i = 1), "rnd" (table j),    *)
(*               "sum" (rnd 1 + 2*rnd 2 etc.), "pad" (rnd j, zero-padded)   *)
(* c.bg          background concentration (real field element)              *)
(* c.tab         profile table                                              *)
(* c.flip        <<su, sv, swap>> wind sign factors and axis swap of the    *)
(*               profile tables (for the symmetry scenarios)                *)
(* c.prec        "single" | "double" | anything else                        *)
(***************************************************************************)

ProfU(c, i) == IF c.flip[3] THEN (IF c.flip[1] = 1 THEN PR(c.tab, 2, i) ELSE RNeg(PR(c.tab, 2, i)))
               ELSE (IF c.flip[1] = 1 THEN PR(c.tab, 1, i) ELSE RNeg(PR(c.tab, 1, i)))
ProfV(c, i) == IF c.flip[3] THEN (IF c.flip[2] = 1 THEN PR(c.tab, 1, i) ELSE RNeg(PR(c.tab, 1, i)))
               ELSE (IF c.flip[2] = 1 THEN PR(c.tab, 2, i) ELSE RNeg(PR(c.tab, 2, i)))
ProfKx(c, i) == IF c.flip[3] THEN PR(c.tab, 4, i) ELSE PR(c.tab, 3, i)
ProfKy(c, i) == IF c.flip[3] THEN PR(c.tab, 3, i) ELSE PR(c.tab, 4, i)
ProfKz(c, i) == PR(c.tab, 5, i)
ProfDz(c, i) == PR(c.tab, 6, i)
RECURSIVE ZNode(_, _)
ZNode(c, i) == IF i = 0 THEN PR(c.tab, 6, 99) ELSE (ZNode(c, i - 1) + ProfDz(c, i - 1)) % P

RndVal(t, j, i) == PR(40 + t, 7, (j * 31) + i)
\* value of the (un-embedded) source pattern of size ny x nx at cell (j, i)
SrcInner(c, ny, nx, j, i) ==
    LET k == c.src[1] IN
    CASE k = "unit" -> IF j = c.src[2] /\ i = c.src[3] THEN 1 ELSE 0
      [] k = "rnd"  -> RndVal(c.src[2], j, i)
      [] k = "comb" -> (((c.src[2] * RndVal(1, j, i)) % P) + ((c.src[3] * RndVal(2, j, i)) % P)) % P
      [] k = "roll" -> RndVal(1, ((j + ny) - c.src[2]) % ny, ((i + nx) - c.src[3]) % nx)
      [] k = "mirx" -> RndVal(c.src[2], j, (nx - i) % nx)
      [] k = "miry" -> RndVal(c.src[2], (ny - j) % ny, i)
      [] k = "rndT" -> RndVal(c.src[2], i, j)
      [] k = "mircx" -> RndVal(c.src[2], j, (nx - 1) - i)
      [] k = "mircy" -> RndVal(c.src[2], (ny - 1) - j, i)
      [] OTHER      -> 0
\* c.emb = <<py, px, ny0, nx0>>: the pattern of size ny0 x nx0 embedded at offset (py, px) in zeros; ny0 = 0: no embedding
SrcVal(c, j, i) ==
    IF c.emb[3] = 0 THEN SrcInner(c, c.ny, c.nx, j, i)
    ELSE IF j >= c.emb[1] /\ j < c.emb[1] + c.emb[3] /\ i >= c.emb[2] /\ i < c.emb[2] + c.emb[4]
         THEN SrcInner(c, c.emb[3], c.emb[4], j - c.emb[1], i - c.emb[2]) ELSE 0

(********************************** geometry ********************************)
NLv(c) == Len(c.lv)
HaloU(c) == IF c.halo = -1 THEN Max(c.nx * c.ax, c.ny * c.ay) ELSE c.halo

Geometry(c) ==
    LET h   == HaloU(c)
        px  == h \div c.ax
        py  == h \div c.ay
        nxe == c.nx + (2 * px)
        nye == c.ny + (2 * py)
        big == (c.mx > nxe) \/ (c.my > nye)
        nlx == IF big THEN nxe ELSE c.mx
        nly == IF big THEN nye ELSE c.my
        dlx == (nxe - nlx) \div 2
        dly == (nye - nly) \div 2
        hix == IF TruncStyle = "exact" THEN (nxe - nlx) - dlx ELSE dlx
        hiy == IF TruncStyle = "exact" THEN (nye - nly) - dly ELSE dly
        tnx == IF TruncStyle = "exact" THEN SliceLen(nxe, dlx, dlx + nlx) ELSE SliceLen(nxe, dlx, nxe - dlx)
        tny == IF TruncStyle = "exact" THEN SliceLen(nye, dly, dly + nly) ELSE SliceLen(nye, dly, nye - dly)
        unx == nlx + dlx + hix
        uny == nly + dly + hiy
    IN  [halo |-> h, px |-> px, py |-> py, nxe |-> nxe, nye |-> nye, clamped |-> big,
         nlx |-> nlx, nly |-> nly, dlx |-> dlx, dly |-> dly, hix |-> hix, hiy |-> hiy,
         tnx |-> tnx, tny |-> tny, unx |-> unx, uny |-> uny,
         onx |-> SliceLen(unx, px, nxe - px), ony |-> SliceLen(uny, py, nye - py),
         nmodes |-> (nlx * nly) - 1]

\* which error (if any) the call raises, in the order the code would meet them
ErrorOf(c, g) ==
    IF ((c.mx % 2) # 0) \/ ((c.my % 2) # 0) THEN "odd_modes"
    ELSE IF c.prec \notin {"single", "double"} THEN "precision"
    ELSE IF (~c.fp) /\ ((g.tnx # g.nlx) \/ (g.tny # g.nly)) THEN "index"
    ELSE IF c.an /\ AnalyticStyle = "flat" /\ NLv(c) # 1 /\ NLv(c) # g.nmodes THEN "broadcast"
    ELSE "none"

\* roots of unity needed by the model exist in the field for this configuration
Representable(c, g) ==
    /\ HasRoot(g.nxe) /\ HasRoot(g.nye) /\ HasRoot(g.unx) /\ HasRoot(g.uny)
    /\ HasRoot(c.ax * g.nxe) /\ HasRoot(c.ay * g.nye)
    /\ HasRoot(2 * c.ax * g.nxe) \/ (((c.nx * c.ax) % 2) = 0) \/ c.fp \/ (c.xm = 0 /\ c.ym = 0)
    /\ HasRoot(2 * c.ay * g.nye) \/ (((c.ny * c.ay) % 2) = 0) \/ c.fp \/ (c.xm = 0 /\ c.ym = 0)

(*********************************** stages *********************************)
Padded(c, g) ==      \* np.pad(q0, ((py, py), (px, px)))
    Arr2(g.nye, g.nxe, LAMBDA j, i :
        IF j >= g.py /\ j < g.py + c.ny /\ i >= g.px /\ i < g.px + c.nx THEN SrcVal(c, j - g.py, i - g.px) ELSE 0)

Spectrum(c, g) ==    \* tfftq0, shape (nly, nlx); only evaluated when ErrorOf = "none"
    IF c.fp THEN LET v == RInv((g.nxe * g.nye) % P) IN Arr2(g.nly, g.nlx, LAMBDA j, i : v)
    ELSE LET sc == RInv((g.nxe * g.nye) % P)
             F  == DFT2(Padded(c, g), g.nye, g.nxe, -1)          \* fft2(norm="forward") up to the factor sc
         IN  \* fftshift, slice [dl : dl + nl), ifftshift (over the truncated length)
             Arr2(g.nly, g.nlx, LAMBDA j, i :
                 CScale(sc, F[ShiftIdx(g.dly + UnshiftIdx(j, g.nly), g.nye)][ShiftIdx(g.dlx + UnshiftIdx(i, g.nlx), g.nxe)]))

Lx(c, g, sx) == RMul(RMod(W * Freq(sx, g.nlx)), RInv((g.nxe * c.ax) % P))
Ly(c, g, sy) == RMul(RMod(W * Freq(sy, g.nly)), RInv((g.nye * c.ay) % P))

\* which node ends up in output slot k (1-based)
RECURSIVE SortedSeq(_)
SortedSeq(S) == IF S = {} THEN << >> ELSE LET m == CHOOSE x \in S : \A y \in S : x <= y IN <<m>> \o SortedSeq(S \ {m})
SeqRange(s) == {s[k] : k \in 1..Len(s)}
SlotNode(c, k) == IF LevelStyle = "match" THEN c.lv[k] ELSE SortedSeq(SeqRange(c.lv))[k]

\* one layer of ivp_solver: node i -> i+1, state pq = <<p, q>>
Step(c, lx, ly, i, pq) ==
    LET Ti  == Cx(RNeg(RAdd(RMul(ProfKx(c, i), RMul(lx, lx)), RMul(ProfKy(c, i), RMul(ly, ly)))),
                  RNeg(RAdd(RMul(ProfU(c, i), lx), RMul(ProfV(c, i), ly))))
        ki  == RInv(ProfKz(c, i))
        dz  == ProfDz(c, i)
        dz2 == RMul(dz, dz)
        dz3 == RMul(dz2, dz)
        a   == CSub(1, CScale(RMul(RMul(Half, ki), dz2), Ti))
        b3  == CScale(RMul(RMul(Sixth, RMul(ki, ki)), dz3), Ti)
        b   == IF BCubic = "plus" THEN CAdd(RNeg(RMul(ki, dz)), b3) ELSE CSub(RNeg(RMul(ki, dz)), b3)
        cc  == CSub(CScale(dz, Ti), CScale(RMul(RMul(Sixth, ki), dz3), CMul(Ti, Ti)))
    IN  <<CAdd(CMul(a, pq[1]), CMul(b, pq[2])), CAdd(CMul(cc, pq[1]), CMul(a, pq[2]))>>

RECURSIVE Sweep(_, _, _, _, _)
Sweep(c, lx, ly, i, pq) ==            \* sequence of node states i, i+1, ..., nz-1
    IF i = c.nz - 1 THEN <<pq>> ELSE <<pq>> \o Sweep(c, lx, ly, i + 1, Step(c, lx, ly, i, pq))

BetaOf(c, lx, ly) ==
    LET T   == c.nz - 1
        ki  == RInv(ProfKz(c, T))
    IN  Beta(Cx(RAdd(RMul(RMul(ProfKx(c, T), ki), RMul(lx, lx)), RMul(RMul(ProfKy(c, T), ki), RMul(ly, ly))),
                RAdd(RMul(RMul(ProfU(c, T), ki), lx), RMul(RMul(ProfV(c, T), ki), ly))))

\* per-mode response to a unit spectral amplitude: sequence over slots of <<Hp, Hq>>
ModeNumeric(c, lx, ly) ==
    LET s1  == Sweep(c, lx, ly, 0, <<1, 0>>)
        s2  == Sweep(c, lx, ly, 0, <<0, 1>>)
        T   == c.nz
        kb  == CScale(ProfKz(c, c.nz - 1), BetaOf(c, lx, ly))
        den == CSub(s1[T][2], CMul(kb, s1[T][1]))
        al  == CNeg(CMul(CSub(s2[T][2], CMul(kb, s2[T][1])), CInv(den)))
    IN  [k \in 1..NLv(c) |->
            LET n == SlotNode(c, k) + 1 IN
            <<CAdd(CMul(al, s1[n][1]), s2[n][1]), CAdd(CMul(al, s1[n][2]), s2[n][2]), den>>]

HeightAbove(c, node) == RSub(ZNode(c, node), ZNode(c, 0))

ModeAnalytic(c, lx, ly, hk) ==        \* hk: the height used for this entry
    LET be == BetaOf(c, lx, ly)
        hq == Ex(CNeg(CScale(hk, be)))
        ki == RInv(ProfKz(c, c.nz - 1))
    IN  <<CMul(CScale(ki, hq), CInv(be)), hq, be>>

\* index of mode (sy, sx) in the boolean-mask (row-major, (0,0) removed) order, 1-based
MaskIdx(g, sy, sx) == (sy * g.nlx) + sx

Transfer(c, g) ==     \* H[sy][sx][k] = <<Hp, Hq, guard>>; the mean mode (0,0) is handled by MeanP/MeanQ
    Arr2(g.nly, g.nlx, LAMBDA sy, sx :
        IF sy = 0 /\ sx = 0 THEN << >>
        ELSE IF c.an THEN
            [k \in 1..NLv(c) |->
                IF AnalyticStyle = "flat" /\ NLv(c) > 1 /\ NLv(c) = g.nmodes
                THEN ModeAnalytic(c, Lx(c, g, sx), Ly(c, g, sy), HeightAbove(c, c.lv[MaskIdx(g, sy, sx)]))
                ELSE ModeAnalytic(c, Lx(c, g, sx), Ly(c, g, sy), HeightAbove(c, c.lv[k]))]
        ELSE TLCEval(ModeNumeric(c, Lx(c, g, sx), Ly(c, g, sy))))

\* trapezoidal resistance from the surface to a node
RECURSIVE Resist(_, _)
Resist(c, node) == IF node = 0 THEN 0
                   ELSE RAdd(Resist(c, node - 1),
                             RMul(ProfDz(c, node - 1), RAdd(RMul(Half, RInv(ProfKz(c, node - 1))), RMul(Half, RInv(ProfKz(c, node))))))

MeanP(c, q00, k) ==   \* mean-mode concentration in slot k
    IF c.an THEN CSub(c.bg, CScale(RMul(RInv(ProfKz(c, c.nz - 1)), HeightAbove(c, c.lv[k])), q00))
    ELSE CSub(c.bg, CScale(Resist(c, SlotNode(c, k)), q00))

PhaseX(c, g, sx) ==
    LET k == Freq(sx, g.nlx) IN
    IF c.fp THEN Zeta(c.ax * g.nxe, k * (c.xm + (IF ShiftStyle = "halo" THEN g.halo ELSE g.px * c.ax)))
    ELSE IF c.xm = 0 /\ c.ym = 0 THEN 1
    ELSE IF ((c.nx * c.ax) % 2) = 0 THEN Zeta(c.ax * g.nxe, k * (c.xm - ((c.nx * c.ax) \div 2)))
    ELSE Zeta(2 * c.ax * g.nxe, k * ((2 * c.xm) - (c.nx * c.ax)))
PhaseY(c, g, sy) ==
    LET k == Freq(sy, g.nly) IN
    IF c.fp THEN Zeta(c.ay * g.nye, k * (c.ym + (IF ShiftStyle = "halo" THEN g.halo ELSE g.py * c.ay)))
    ELSE IF c.xm = 0 /\ c.ym = 0 THEN 1
    ELSE IF ((c.ny * c.ay) % 2) = 0 THEN Zeta(c.ay * g.nye, k * (c.ym - ((c.ny * c.ay) \div 2)))
    ELSE Zeta(2 * c.ay * g.nye, k * ((2 * c.ym) - (c.ny * c.ay)))

\* truncated, shifted spectra of slot k: tp / tq (which = 1 / 2)
Shifted(c, g, H, tq0, k, which) ==
    Arr2(g.nly, g.nlx, LAMBDA sy, sx :
        LET amp == IF sy = 0 /\ sx = 0
                   THEN (IF which = 1 THEN MeanP(c, tq0[0][0], k) ELSE tq0[0][0])
                   ELSE CMul(tq0[sy][sx], H[sy][sx][k][which])
        IN  CMul(amp, CMul(PhaseX(c, g, sx), PhaseY(c, g, sy))))

\* fftshift over (nly, nlx), pad ((dly, hiy), (dlx, hix)), ifftshift over (uny, unx)
Untruncated(g, T) ==
    Arr2(g.uny, g.unx, LAMBDA j, i :
        LET jj == UnshiftIdx(j, g.uny) - g.dly
            ii == UnshiftIdx(i, g.unx) - g.dlx
        IN  IF jj >= 0 /\ jj < g.nly /\ ii >= 0 /\ ii < g.nlx THEN T[ShiftIdx(jj, g.nly)][ShiftIdx(ii, g.nlx)] ELSE 0)

\* fft2(norm="backward").real (footprint) or ifft2(norm="forward").real, then the crop with numpy clipping
Physical(c, g, G) ==
    LET F == DFT2(G, g.uny, g.unx, IF c.fp THEN -1 ELSE 1)
    IN  Arr2(g.ony, g.onx, LAMBDA j, i : Re(F[j + g.py][i + g.px]))

(* ------------------------------------------------------------------------ *)
(* The complete call.  Result:                                              *)
(*   [err, shape = <<nlv, ony, onx>>, conc, flx : slot -> 2-D real array,   *)
(*    zlab : slot -> node whose height labels the slot, guard]              *)
(* ------------------------------------------------------------------------ *)
RunH(c, g, H) ==
    LET e == ErrorOf(c, g) IN
    IF e # "none" THEN [err |-> e]
    ELSE LET tq0 == Spectrum(c, g) IN
         [err   |-> "none",
          shape |-> <<NLv(c), g.ony, g.onx>>,
          conc  |-> [k \in 1..NLv(c) |-> Physical(c, g, Untruncated(g, Shifted(c, g, H, tq0, k, 1)))],
          flx   |-> [k \in 1..NLv(c) |-> Physical(c, g, Untruncated(g, Shifted(c, g, H, tq0, k, 2)))],
          zlab  |-> c.lv]

Run(c) == LET g == Geometry(c) IN
          IF ErrorOf(c, g) # "none" THEN [err |-> ErrorOf(c, g)] ELSE RunH(c, g, Transfer(c, g))

\* every denominator met by the model was invertible (otherwise the rational identity is undefined there)
Regular(c, g, H) ==
    \A sy \in 0..(g.nly - 1), sx \in 0..(g.nlx - 1) :
        (sy = 0 /\ sx = 0) \/ \A k \in 1..NLv(c) : H[sy][sx][k][3] # 0

=============================================================================
