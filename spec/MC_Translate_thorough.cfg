\* C06 translation equivariance -- thorough
CONSTANTS
  ShiftStyle = "pad" LevelStyle = "match" TruncStyle = "exact" AnalyticStyle = "outer" BCubic = "plus"
  Sizes = {202, 302, 402, 403, 602}
  Cells = {11, 23}
  Halos = {99, 0, 1, 3}
  ModeSet = {202, 402, 204, 404, 1212}
  NZs = {3}
  LevelLists = "asc"
  Tabs = {1}
  Analytic = {FALSE, TRUE}
  Family = "translate"
INIT Init
NEXT Next
CHECK_DEADLOCK FALSE
INVARIANT StagesAgree
INVARIANT ShapeOrError
INVARIANT TranslateSource
INVARIANT TranslateTower
INVARIANT PointReflect
INVARIANT Recentre
INVARIANT TranslateTowerIn
INVARIANT PointReflectIn
INVARIANT Emit
