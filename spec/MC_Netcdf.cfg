\* C18: towers 1..4 x steps 1..4 x 2-D / 1..3 levels x index/label/number timestamps x ustar/z0 forcing
CONSTANTS MaxT = 4 MaxS = 4 MaxL = 3 Place = "t_ti" MetaOrder = "config"
INIT Init
NEXT Next
CHECK_DEADLOCK FALSE
INVARIANT SelReturnsOwn
INVARIANT NothingLeftEmpty
INVARIANT MetaOwn
INVARIANT MetPerStep
INVARIANT Emit