\* negative control: no wrapping across north
CONSTANTS
  HalfWindows = {44}
  WrapStyle = "none"
  Rotations = {90}
INIT Init
NEXT Body
CHECK_DEADLOCK FALSE
INVARIANT EveryObservationOnce
INVARIANT WindowIsCircular
INVARIANT RotationInvariant
INVARIANT BinInside
