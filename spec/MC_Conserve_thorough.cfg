\* C03 conservation, unit footprint sum, halo = zero padding -- thorough
CONSTANTS
  ShiftStyle = "pad" LevelStyle = "match" TruncStyle = "exact" AnalyticStyle = "outer" BCubic = "plus"
  Sizes = {202, 302, 403, 304, 502, 205}
  Cells = {11, 23, 32}
  Halos = {99, 0, 1, 2, 3, 4, 6}
  ModeSet = {202, 402, 204, 1212}
  NZs = {4}
  LevelLists = "mixed"
  Tabs = {1}
  Analytic = {FALSE, TRUE}
  Family = "conserve"
INIT Init
NEXT Next
CHECK_DEADLOCK FALSE
INVARIANT StagesAgree
INVARIANT ShapeOrError
INVARIANT MeanFlux
INVARIANT MeanConc
INVARIANT HaloIsPadding
INVARIANT RegularRun
INVARIANT Emit
