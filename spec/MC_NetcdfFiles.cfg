\* C18: every history of five saves/loads over two paths in one process
CONSTANTS
  Paths = {1, 2}
  MaxOps = 5
  LoadStyle = "read"
INIT Init
NEXT Next
CHECK_DEADLOCK FALSE
INVARIANT LoadReturnsLastSaved
INVARIANT Emit
