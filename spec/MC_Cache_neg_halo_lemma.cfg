\* negative control: the lemma LookupFindsOwnStore fails when the lookup hashes the unresolved halo
CONSTANTS
  KeyFields = {"shape", "z", "profiles", "domain", "levels", "modes", "meas_pt", "bg", "analytic", "halo", "precision"}
  HaloAtGet = "raw"
  AtomicPut = TRUE
  CatchLoad = TRUE
  MaxCrashes = 2
  FreeRequests = 0
INIT Init
NEXT Next
CHECK_DEADLOCK FALSE
INVARIANT LookupFindsOwnStore
