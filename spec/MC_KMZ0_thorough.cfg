\* C19 thorough: every half window from 1 to 90 degrees
CONSTANTS
  HalfWindows = {1,2,3,5,8,10,15,20,21,22,23,30,44,45,46,60,75,88,89}
  WrapStyle = "code"
  Rotations = {1, 2, 45, 89, 90, 91, 180, 269, 270, 271, 359}
INIT Init
NEXT Body
CHECK_DEADLOCK FALSE
INVARIANT EveryObservationOnce
INVARIANT WindowIsCircular
INVARIANT RotationInvariant
INVARIANT BinInside
INVARIANT Emit
