\* C19 thorough: every half window from 1 to 90 degrees
CONSTANTS
  HalfWindows = {2,3,4,5,6,10,16,20,30,40,42,43,44,45,46,60,88,89,90,91,92,120,150,176,177,178}
  WrapStyle = "code"
  Rotations = {1, 2, 45, 89, 90, 91, 180, 269, 270, 271, 359}
INIT Init
NEXT Body
CHECK_DEADLOCK FALSE
INVARIANT EveryObservationOnce
INVARIANT WindowIsCircular
INVARIANT RotationInvariant
INVARIANT BinInside
INVARIANT Emit
