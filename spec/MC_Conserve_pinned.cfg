\* C03 conservation, unit footprint sum, halo = zero padding -- pinned (deviation switches of the pinned commit; emits verdicts instead of checking)
CONSTANTS
  ShiftStyle = "halo" LevelStyle = "cursor" TruncStyle = "sym" AnalyticStyle = "flat" BCubic = "minus"
  Sizes = {302, 403}
  Cells = {11, 23}
  Halos = {0, 1, 3}
  ModeSet = {202, 402, 1212}
  NZs = {4}
  LevelLists = "mixed"
  Tabs = {1}
  Analytic = {FALSE, TRUE}
  Family = "conserve"
INIT Init
NEXT Next
CHECK_DEADLOCK FALSE
INVARIANT EmitV
