\* C14: shapes up to 2 towers x 2 steps, up to 3 workers, all strategies, parent threads 1 and 4; all interleavings
CONSTANTS
  MaxNT = 2 MaxNS = 2 MaxNW = 3
  Strategies = {"towers", "time", "both", "serial", "cli"}
  ParentThreadSet = {1, 4}
  Collect = "position" SliceStep = "NS" WorkerInit = TRUE
INIT Init
NEXT Next
CHECK_DEADLOCK FALSE
INVARIANT KeysInConfigOrder
INVARIANT OnePerStep
INVARIANT EachIsSingle
INVARIANT EveryTaskOnce
INVARIANT InitBeforeSolve
INVARIANT Emit
