\* advisory (C14): every history of six calls modulo the history variable (VIEW), invariants only
CONSTANTS
  Force = TRUE
  Idempotent = TRUE
  FlagFirst = FALSE
  MaxCalls = 6
SPECIFICATION Spec
CHECK_DEADLOCK FALSE
INVARIANT HandlersBounded
INVARIANT HandlerFileExists
INVARIANT InitMeansConfigured
PROPERTY LastSetupWins
PROPERTY InitOnce
PROPERTY RaisedNotRemembered
PROPERTY Monotone
VIEW LView
