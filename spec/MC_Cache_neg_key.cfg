\* negative control: the pinned commit's key (no levels, shape, analytic, background) - Transparent must be violated
CONSTANTS
  KeyFields = {"z", "profiles", "domain", "modes", "meas_pt", "halo", "precision"}
  HaloAtGet = "resolved"
  AtomicPut = TRUE
  CatchLoad = TRUE
  MaxCrashes = 2
  FreeRequests = 0
INIT Init
NEXT Next
CHECK_DEADLOCK FALSE
INVARIANT Transparent
INVARIANT NeverFatal
INVARIANT Effective
INVARIANT StoreSound
