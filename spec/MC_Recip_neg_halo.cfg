\* negative control: the footprint phase shift uses the raw halo (pinned commit) - Recip must be violated
CONSTANTS
  ShiftStyle = "halo" LevelStyle = "match" TruncStyle = "exact" AnalyticStyle = "outer" BCubic = "plus"
  Sizes = {302, 403}
  Cells = {11, 23}
  Halos = {99, 0, 1, 2, 3, 4}
  ModeSet = {202, 402, 1212}
  NZs = {3}
  LevelLists = "single"
  Tabs = {1}
  Analytic = {FALSE}
  Family = "recip"
INIT Init
NEXT Next
CHECK_DEADLOCK FALSE
INVARIANT Recip
