\* negative control: no break - the whole lattice is returned
CONSTANTS
  MaxN = 30
  GridBreak = "none"
INIT Init
NEXT Next
CHECK_DEADLOCK FALSE
INVARIANT ExactlyN
INVARIANT DistinctPositions
INVARIANT DistinctNames
INVARIANT Centred
