\* negative control: the pinned sign of the cubic term of b - CodeIsTaylor3 must be violated
CONSTANTS BCubic = "minus"
INIT Init
NEXT Next
CHECK_DEADLOCK FALSE
INVARIANT CodeIsTaylor3
