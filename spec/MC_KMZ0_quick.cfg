\* C19: the smoothing window of estimateZ0 is a window on the circle (default half window 22, and 1, 45, 89)
CONSTANTS
  HalfWindows = {1, 22, 45, 89}
  WrapStyle = "code"
  Rotations = {1, 45, 90, 180, 271, 359}
INIT Init
NEXT Body
CHECK_DEADLOCK FALSE
INVARIANT EveryObservationOnce
INVARIANT WindowIsCircular
INVARIANT RotationInvariant
INVARIANT BinInside
INVARIANT Emit
