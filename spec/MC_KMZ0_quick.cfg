\* C19: the smoothing window of estimateZ0 is a window on the circle (half windows in half degrees: 1, 22 (default), 22.5, 45, 88.5, 89 degrees)
CONSTANTS
  HalfWindows = {2, 44, 45, 90, 177, 178}
  WrapStyle = "code"
  Rotations = {1, 45, 90, 180, 271, 359}
INIT Init
NEXT Body
CHECK_DEADLOCK FALSE
INVARIANT EveryObservationOnce
INVARIANT WindowIsCircular
INVARIANT RotationInvariant
INVARIANT BinInside
INVARIANT Emit
