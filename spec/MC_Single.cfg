\* C13: option lattice of a single run x forcing patterns x steps
CONSTANTS MaxLen = 2 StepsFrom = "all" TsCheck = "always" Scenario = "single"
INIT Init
NEXT Next
INVARIANT RejectedIffInvalid
INVARIANT NeverIndexError
INVARIANT SingleUsesOwnStep
INVARIANT Emit
CHECK_DEADLOCK FALSE
