\* negative control: sin and cos exchanged - Cardinals must be violated
CONSTANTS SinCos = "swapped" WindSign = "from" Mode = "enumerate"
INIT Init
NEXT Next
CHECK_DEADLOCK FALSE
INVARIANT UpwindOfTower
INVARIANT Cardinals
