\* C04 linearity in (source, background) -- pinned (deviation switches of the pinned commit; emits verdicts instead of checking)
CONSTANTS
  ShiftStyle = "halo" LevelStyle = "cursor" TruncStyle = "sym" AnalyticStyle = "flat" BCubic = "minus"
  Sizes = {302, 403}
  Cells = {23}
  Halos = {99, 0, 3}
  ModeSet = {202, 1212}
  NZs = {3}
  LevelLists = "asc"
  Tabs = {1}
  Analytic = {FALSE, TRUE}
  Family = "linear"
INIT Init
NEXT Next
CHECK_DEADLOCK FALSE
INVARIANT EmitV
