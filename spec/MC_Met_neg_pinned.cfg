\* C16: every forcing pattern (absent/scalar/list of length 1..4 per field, z0, timestamps), negative control: the pinned commit counts steps from ustar or wind_speed only and skips the timestamp check for all-scalar forcings; TLC must report a violation
CONSTANTS MaxLen = 4 StepsFrom = "ustar_ws" TsCheck = "lists_only" Scenario = "met"
INIT Init
NEXT Next
INVARIANT RejectedIffInvalid
INVARIANT NeverIndexError
INVARIANT OneStepPerEntry
INVARIANT ScalarsBroadcast
INVARIANT TimestampOrIndex
CHECK_DEADLOCK FALSE
