--------------------------------- MODULE Cli ---------------------------------
(***************************************************************************)
(* bldfm/cli.py: `bldfm run config.yaml [--dry-run] [--plot]` on top of    *)
(* the process state of Lifecycle.tla.  One action per command, composed   *)
(* of the steps cmd_run takes: initialize() with its defaults (a no-op in  *)
(* an initialised process), load the configuration, and then either        *)
(*   --dry-run : return - no runtime setting is touched, nothing is solved, *)
(*               nothing is plotted;                                        *)
(*   otherwise : the three runtime settings become the configuration's,     *)
(*               one single run per (tower, step), towers outer (the order  *)
(*               is Drivers.tla's subject), and with --plot one file per    *)
(*               result named by tower and time label - results with equal  *)
(*               labels share a file name (named deviation: the later plot  *)
(*               overwrites the earlier one).                               *)
(* Between commands a script may set the runtime settings itself (UserSet) *)
(* or call the logging functions (Lifecycle's actions).  Advisory family of *)
(* C14: disagreements with the real CLI are drift.                         *)
(***************************************************************************)
EXTENDS Lifecycle

CONSTANTS DryStyle      \* "pure": the code | "settings": a dry run applies the runtime settings before it returns

\* configurations: towers, steps, runtime settings, how the steps are labelled
Configs == { [id |-> 1, nt |-> 1, ns |-> 2, threads |-> 1, workers |-> 1, cache |-> FALSE, labels |-> "distinct"],
             [id |-> 2, nt |-> 2, ns |-> 2, threads |-> 4, workers |-> 2, cache |-> FALSE, labels |-> "repeated"],
             [id |-> 3, nt |-> 2, ns |-> 1, threads |-> 2, workers |-> 1, cache |-> TRUE,  labels |-> "index"] }
Label(c, s) == IF c.labels = "repeated" THEN <<"lab", 1>> ELSE IF c.labels = "index" THEN <<"idx", s - 1>> ELSE <<"lab", s>>
Settings(c) == [threads |-> c.threads, workers |-> c.workers, cache |-> c.cache]
DefaultSettings == [threads |-> 1, workers |-> 1, cache |-> FALSE]

VARIABLES vset,     \* bldfm.config.NUM_THREADS / MAX_WORKERS / USE_CACHE
          vsolved,  \* the single runs of the last command, in order: <<tower, step>>
          vplots,   \* files under plots/: <<tower, label>>
          vchist    \* history of commands with the state after each
cvars == <<vset, vsolved, vplots>>
allvars == <<lvars, cvars, vchist>>

CPost == [init |-> vinit, dirs |-> vdirs, handlers |-> vhandlers, level |-> vlevel, files |-> vfiles, last |-> vlast,
          settings |-> vset, solved |-> vsolved, plots |-> vplots]

CInit == Init /\ vset = DefaultSettings /\ vsolved = << >> /\ vplots = {} /\ vchist = << >>

RunOrder(c) == [k \in 1..(c.nt * c.ns) |-> <<((k - 1) \div c.ns) + 1, ((k - 1) % c.ns) + 1>>]     \* towers outer, steps inner

CliRun(c, dry, plot) ==
    /\ Initialize("logs", "plots", "auto", "DEFAULT")
    /\ IF dry
       THEN /\ vset' = IF DryStyle = "pure" THEN vset ELSE Settings(c)
            /\ vsolved' = << >> /\ vplots' = vplots
       ELSE /\ vset' = Settings(c)
            /\ vsolved' = RunOrder(c)
            /\ vplots' = IF plot THEN vplots \cup {<<RunOrder(c)[k][1], Label(c, RunOrder(c)[k][2])>> : k \in 1..(c.nt * c.ns)} ELSE vplots
    /\ vchist' = Append(vchist, [call |-> "cli", cfg |-> c.id, dry |-> dry, plot |-> plot, dir |-> "-", file |-> "-", level |-> "-", post |-> CPost'])

UserSet(t) == /\ vcalls < MaxCalls /\ vcalls' = vcalls + 1
              /\ vset' = [vset EXCEPT !.threads = t]
              /\ UNCHANGED <<vinit, vdirs, vhandlers, vlevel, vfiles, vlast, vhist, vsolved, vplots>>
              /\ vchist' = Append(vchist, [call |-> "userset", cfg |-> t, dry |-> FALSE, plot |-> FALSE, dir |-> "-", file |-> "-", level |-> "-", post |-> CPost'])

CSetup(d, f, l) == /\ Setup(d, f, l) /\ UNCHANGED cvars
                   /\ vchist' = Append(vchist, [call |-> "setup", cfg |-> 0, dry |-> FALSE, plot |-> FALSE, dir |-> d, file |-> f, level |-> l, post |-> CPost'])

CNext == \/ \E c \in Configs, dry \in BOOLEAN, plot \in BOOLEAN : CliRun(c, dry, plot)
         \/ \E t \in {1, 8} : UserSet(t)
         \/ \E d \in {"logs", "other"}, f \in {"none", "a.log"}, l \in {"DEFAULT", "WARNING"} : CSetup(d, f, l)
CSpec == CInit /\ [][CNext]_allvars
CView == <<vinit, vdirs, vhandlers, vlevel, vfiles, vlast, vcalls, vset, vsolved, vplots>>

----------------------------------------------------------------------------
LastCall == vchist'[Len(vchist')]
IsCli == vchist' # vchist /\ LastCall.call = "cli"
\* a dry run touches no runtime setting, solves nothing, plots nothing
DryRunIsPure == [][(IsCli /\ LastCall.dry) => (vset' = vset /\ vsolved' = << >> /\ vplots' = vplots)]_allvars
\* a real run leaves the configuration's settings behind, whatever a script had set before
SettingsFromConfig == [][(IsCli /\ ~LastCall.dry) => \E c \in Configs : c.id = LastCall.cfg /\ vset' = Settings(c)]_allvars
\* every (tower, step) is solved exactly once
EveryPairOnce == [][(IsCli /\ ~LastCall.dry) => \E c \in Configs : /\ c.id = LastCall.cfg /\ Len(vsolved') = c.nt * c.ns
                                                                   /\ \A i \in 1..c.nt, s \in 1..c.ns : \E k \in 1..Len(vsolved') : vsolved'[k] = <<i, s>>]_allvars
\* every command leaves an initialised process with the default directories behind
CliInitialises == [][IsCli => (vinit' /\ {"logs", "plots"} \subseteq vdirs')]_allvars
\* plots only with --plot, never on a dry run, and the files of earlier commands stay
PlotsOnlyOnRequest == [][(IsCli /\ (LastCall.dry \/ ~LastCall.plot)) => vplots' = vplots]_allvars
PlotsMonotone == [][vplots \subseteq vplots']_allvars
\* one file per distinct (tower, label): with distinct labels one per result
PlotPerResult == [][(IsCli /\ ~LastCall.dry /\ LastCall.plot) =>
                      \E c \in Configs : c.id = LastCall.cfg /\ (c.labels # "repeated" => Cardinality(vplots' \ vplots) <= c.nt * c.ns
                                                                   /\ \A i \in 1..c.nt, s \in 1..c.ns : <<i, Label(c, s)>> \in vplots')]_allvars
CEmit == (vcalls = MaxCalls) => PrintT("@@" \o ToJson([hist |-> vchist]))
=============================================================================
