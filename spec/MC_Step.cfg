\* C05: the code's step formulas equal the cubic Taylor polynomial of exp(dz A) at 144 probe points
CONSTANTS BCubic = "plus"
INIT Init
NEXT Next
CHECK_DEADLOCK FALSE
INVARIANT CodeIsTaylor3
INVARIANT DiagonalEqual
INVARIANT Emit
