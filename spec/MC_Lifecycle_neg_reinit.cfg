\* negative control: initialize() configures every time - expects InitOnce violated
CONSTANTS
  Force = TRUE
  Idempotent = FALSE
  FlagFirst = FALSE
  MaxCalls = 2
SPECIFICATION Spec
CHECK_DEADLOCK FALSE
INVARIANT HandlersBounded
INVARIANT HandlerFileExists
INVARIANT InitMeansConfigured
PROPERTY LastSetupWins
PROPERTY InitOnce
PROPERTY RaisedNotRemembered
PROPERTY Monotone
