\* negative control: dzeta = zm/(n+1): node n is not the measurement height
CONSTANTS
  Bounds = "quick"
  InvStyle = "code"
  GridStep = "zm_over_n1"
  WindNorm = "absum"
INIT Init
NEXT Next
CHECK_DEADLOCK FALSE
INVARIANT ErrorsAsDeclared
INVARIANT GridIndex
INVARIANT WindAtZm
INVARIANT DirectionConstant
INVARIANT SpeedIncreases
INVARIANT KPositive
INVARIANT RoundTrip
