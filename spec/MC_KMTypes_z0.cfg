\* C19: number kinds through estimateZ0
CONSTANTS
  HelperAlloc = "float"
  Program = "z0"
INIT Init
NEXT Step
CHECK_DEADLOCK FALSE
INVARIANT WellFormed
INVARIANT NoLossyStore
INVARIANT ResultIsFloat
INVARIANT Emit
