\* C01 (core): sampling nodes, layer thicknesses, boundary node and quadrature weights of the vertical sweep, nz = 2..8
CONSTANTS
  MaxNz = 8
  SampleStyle = "lower"
  DzStyle = "own"
  TopStyle = "top"
  WeightStyle = "trapezoid"
INIT Init
NEXT Next
CHECK_DEADLOCK FALSE
INVARIANT InLayer
INVARIANT EveryLayerOnce
INVARIANT TopFromTopNode
INVARIANT MeanQuadrature
INVARIANT MeanEveryLayerOnce
INVARIANT Emit
