\* C12: histories of up to 4 operations over 8 requests, 4 thread counts, manager resets
CONSTANTS
  ThreadCounts = {1, 2, 4, 8}
  MaxOps = 4
  StickyManager = FALSE
INIT Init
NEXT Next
VIEW View
CHECK_DEADLOCK FALSE
INVARIANT Pure
INVARIANT ManagerSingleAfterSolve
INVARIANT KernelMatchesSetting
INVARIANT NumbaFollowsSetting
PROPERTY WisdomTolerant
INVARIANT Emit
