\* faithfulness: predictions for the pinned commit (which input kinds lose fractions)
CONSTANTS
  HelperAlloc = "like"
  Program = "footprint"
INIT Init
NEXT Step
CHECK_DEADLOCK FALSE
INVARIANT WellFormed
INVARIANT Emit
