----------------------------- MODULE TraceCache -----------------------------
(***************************************************************************)
(* Trace validation of the cache hooks (bldfm/cache.py, BLDFM_VERIF=1)     *)
(* against the store of Cache.tla: the directory is a map from key digests *)
(* to absent / partial / complete, exactly as vstore.  The trace is the    *)
(* sequence of events of one process working on one directory, with the    *)
(* harness's own disk manipulations logged in line:                        *)
(*   cache_get(key, exists)  Lookup: exists  <=>  entry is not absent      *)
(*   cache_hit(key)          Lookup returned the entry: it must be complete*)
(*   cache_put_begin(key)    PutBegin (in place: the entry becomes partial)*)
(*   cache_put_end(key)      PutCommit: the entry is complete              *)
(*   ext_truncate(key)       the harness truncated the file: partial       *)
(*   ext_newdir              a fresh directory                             *)
(* A request that returns a stored entry must not store again; a request   *)
(* that stores must have looked the same key up (get and put agree on the  *)
(* key - the halo is resolved before the lookup).                          *)
(***************************************************************************)
EXTENDS Integers, Sequences, FiniteSets, TLC, Json, IOUtils

Trace == JsonDeserialize(IOEnv.TRACE_FILE)

VARIABLES vl, vpartial, vcomplete, vlastget, vhitpending

tcv == <<vl, vpartial, vcomplete, vlastget, vhitpending>>

TInit == vl = 1 /\ vpartial = {} /\ vcomplete = {} /\ vlastget = "" /\ vhitpending = FALSE

E == Trace[vl]
Is(name) == vl <= Len(Trace) /\ E.e = name
Adv == vl' = vl + 1

TGet ==     /\ Is("cache_get") /\ Adv
            /\ E.exists = (E.key \in (vpartial \cup vcomplete))
            /\ vlastget' = E.key /\ vhitpending' = FALSE
            /\ UNCHANGED <<vpartial, vcomplete>>
THit ==     /\ Is("cache_hit") /\ Adv
            /\ E.key = vlastget /\ E.key \in vcomplete          \* only complete entries are ever returned
            /\ vhitpending' = TRUE
            /\ UNCHANGED <<vpartial, vcomplete, vlastget>>
TPutBegin == /\ Is("cache_put_begin") /\ Adv
            /\ E.key = vlastget                                  \* stored under the key that was looked up
            /\ ~vhitpending                                      \* a served request does not solve and store again
            /\ vpartial' = vpartial \cup {E.key} /\ vcomplete' = vcomplete \ {E.key}
            /\ UNCHANGED <<vlastget, vhitpending>>
TPutEnd ==  /\ Is("cache_put_end") /\ Adv
            /\ E.key \in vpartial
            /\ vpartial' = vpartial \ {E.key} /\ vcomplete' = vcomplete \cup {E.key}
            /\ UNCHANGED <<vlastget, vhitpending>>
TTrunc ==   /\ Is("ext_truncate") /\ Adv
            /\ vpartial' = vpartial \cup ({E.key} \cap (vpartial \cup vcomplete)) /\ vcomplete' = vcomplete \ {E.key}
            /\ UNCHANGED <<vlastget, vhitpending>>
TNewDir ==  /\ Is("ext_newdir") /\ Adv
            /\ vpartial' = {} /\ vcomplete' = {} /\ vlastget' = "" /\ vhitpending' = FALSE

TNext == TGet \/ THit \/ TPutBegin \/ TPutEnd \/ TTrunc \/ TNewDir
TSpec == TInit /\ [][TNext]_tcv

Report == PrintT("@@" \o ToJson([l |-> vl]))
Accepted == TLCGet("stats").diameter = Len(Trace) + 1
=============================================================================
