\* negative control: the pinned commit allocates helper results with zeros_like(zm): an integer zm cuts the fraction off
CONSTANTS
  HelperAlloc = "like"
  Program = "footprint"
INIT Init
NEXT Step
CHECK_DEADLOCK FALSE
INVARIANT WellFormed
INVARIANT NoLossyStore
INVARIANT ResultIsFloat
