\* C07 centre reflection -- pinned (deviation switches of the pinned commit; emits verdicts instead of checking)
CONSTANTS
  ShiftStyle = "halo" LevelStyle = "cursor" TruncStyle = "sym" AnalyticStyle = "flat" BCubic = "minus"
  Sizes = {302, 303, 502}
  Cells = {11, 23}
  Halos = {0, 1, 2, 3}
  ModeSet = {1212, 402}
  NZs = {3}
  LevelLists = "single"
  Tabs = {1}
  Analytic = {FALSE}
  Family = "mirror"
INIT Init
NEXT Next
CHECK_DEADLOCK FALSE
INVARIANT EmitV
