------------------------------ MODULE CacheConc ------------------------------
(***************************************************************************)
(* Several processes sharing one cache directory (the "towers" strategy    *)
(* with use_cache: every worker creates a GreensFunctionCache on the same  *)
(* path).  The entry file is written IN PLACE: opening it for writing      *)
(* truncates it, so while any process is between PutBegin and PutCommit    *)
(* the file is not a complete archive - even if another writer of the same *)
(* (identical) content has already finished.  A reader that meets such a   *)
(* file must treat it as a miss (CatchLoad); it must never be returned     *)
(* and never be fatal.  Every process serves one request; requests are     *)
(* identified by the key they map to (the key is complete: StoreSound of   *)
(* Cache.tla), so the value under key k is Val(k).                          *)
(***************************************************************************)
EXTENDS Integers, FiniteSets, TLC

CONSTANTS NProc, NKeys, CatchLoad

Procs == 1..NProc
Keys == 1..NKeys
Val(k) == k + 100

VARIABLES vkey, vpcc, vretc, vwriters, vdone, vhits
ccvars == <<vkey, vpcc, vretc, vwriters, vdone, vhits>>

\* vwriters[k]: processes currently writing entry k; vdone[k]: has a complete archive ever been finished
Complete(k) == vdone[k] /\ vwriters[k] = {}
Exists(k) == vdone[k] \/ vwriters[k] # {}

Init == /\ vkey \in [Procs -> Keys]
        /\ vpcc = [p \in Procs |-> "lookup"] /\ vretc = [p \in Procs |-> 0]
        /\ vwriters = [k \in Keys |-> {}] /\ vdone = [k \in Keys |-> FALSE] /\ vhits = [p \in Procs |-> FALSE]

Lookup(p) == /\ vpcc[p] = "lookup"
             /\ LET k == vkey[p] IN
                IF ~Exists(k) THEN vpcc' = [vpcc EXCEPT ![p] = "solve"] /\ UNCHANGED <<vretc, vhits>>
                ELSE IF Complete(k) THEN vpcc' = [vpcc EXCEPT ![p] = "return"] /\ vretc' = [vretc EXCEPT ![p] = Val(k)] /\ vhits' = [vhits EXCEPT ![p] = TRUE]
                ELSE IF CatchLoad THEN vpcc' = [vpcc EXCEPT ![p] = "solve"] /\ UNCHANGED <<vretc, vhits>>
                ELSE vpcc' = [vpcc EXCEPT ![p] = "fatal"] /\ UNCHANGED <<vretc, vhits>>
             /\ UNCHANGED <<vkey, vwriters, vdone>>
Solve(p) ==  /\ vpcc[p] = "solve" /\ vpcc' = [vpcc EXCEPT ![p] = "put"] /\ vretc' = [vretc EXCEPT ![p] = Val(vkey[p])]
             /\ UNCHANGED <<vkey, vwriters, vdone, vhits>>
PutBegin(p) == /\ vpcc[p] = "put" /\ vpcc' = [vpcc EXCEPT ![p] = "commit"]
               /\ vwriters' = [vwriters EXCEPT ![vkey[p]] = @ \cup {p}]
               /\ UNCHANGED <<vkey, vretc, vdone, vhits>>
PutCommit(p) == /\ vpcc[p] = "commit" /\ vpcc' = [vpcc EXCEPT ![p] = "return"]
                /\ vwriters' = [vwriters EXCEPT ![vkey[p]] = @ \ {p}]
                /\ vdone' = [vdone EXCEPT ![vkey[p]] = TRUE]
                /\ UNCHANGED <<vkey, vretc, vhits>>
\* a process may be killed while writing: the file stays truncated for good unless someone rewrites it
Kill(p) ==   /\ vpcc[p] = "commit" /\ vpcc' = [vpcc EXCEPT ![p] = "dead"]
             /\ vwriters' = [vwriters EXCEPT ![vkey[p]] = @ \ {p}]
             /\ vdone' = [vdone EXCEPT ![vkey[p]] = FALSE]
             /\ UNCHANGED <<vkey, vretc, vhits>>
Next == \E p \in Procs : Lookup(p) \/ Solve(p) \/ PutBegin(p) \/ PutCommit(p) \/ Kill(p)

NeverFatalC == \A p \in Procs : vpcc[p] # "fatal"
TransparentC == \A p \in Procs : vpcc[p] = "return" => vretc[p] = Val(vkey[p])
\* a hit is only ever served from an archive that was complete at the time of the lookup
NoTornRead == \A p \in Procs : vhits[p] => vretc[p] = Val(vkey[p])
=============================================================================
