\* negative control: raw halo in the footprint phase shift - MirrorCentreX/Y must be violated
CONSTANTS
  ShiftStyle = "halo" LevelStyle = "match" TruncStyle = "exact" AnalyticStyle = "outer" BCubic = "plus"
  Sizes = {302, 303, 502}
  Cells = {11, 23}
  Halos = {0, 1, 2, 3}
  ModeSet = {1212, 402}
  NZs = {3}
  LevelLists = "single"
  Tabs = {1}
  Analytic = {FALSE}
  Family = "mirror"
INIT Init
NEXT Next
CHECK_DEADLOCK FALSE
INVARIANT MirrorCentreX
INVARIANT MirrorCentreY
