----------------------------- MODULE StepAlgebra -----------------------------
(***************************************************************************)
(* The layer update of bldfm.solver.ivp_solver against the exact layer     *)
(* propagator, in exact complex rational arithmetic.                       *)
(*                                                                         *)
(* One layer of thickness dz with constant coefficients integrates         *)
(*     d/dz (p, q) = A (p, q),   A = [[0, -1/K], [T, 0]]                    *)
(* so (p, q)(z + dz) = exp(dz A) (p, q)(z).  The reference step is the     *)
(* Taylor polynomial  I + M + M^2/2 + M^3/6,  M = dz A,  computed by       *)
(* MATRIX MULTIPLICATION - not by transcribing the code.  CodeStep is the  *)
(* code's four formulas.  A rational is <<n, d>> in lowest terms, d > 0;   *)
(* a complex number a pair of rationals; a matrix <<<<a, b>>, <<c, d>>>>.  *)
(***************************************************************************)
EXTENDS Integers, Sequences, TLC, Json

CONSTANTS BCubic     \* "plus" | "minus" (the pinned commit's sign of the cubic term of b)

Abs(x) == IF x < 0 THEN -x ELSE x
RECURSIVE GCD(_, _)
GCD(a, b) == IF b = 0 THEN a ELSE GCD(b, a % b)
Q(n, d) == LET g == GCD(Abs(n), Abs(d)) s == IF d < 0 THEN -1 ELSE 1 IN <<(s * n) \div g, (s * d) \div g>>
\* cross-cancel before multiplying so that intermediate products stay inside TLC's 32-bit integers
QAdd(x, y) == LET g == GCD(x[2], y[2])
                  a == x[2] \div g
                  b == y[2] \div g
              IN  Q((x[1] * b) + (y[1] * a), a * y[2])
QNeg(x) == <<-x[1], x[2]>>
QSub(x, y) == QAdd(x, QNeg(y))
QMul(x, y) == LET g1 == GCD(Abs(x[1]), y[2])
                  g2 == GCD(Abs(y[1]), x[2])
                  h1 == IF g1 = 0 THEN 1 ELSE g1
                  h2 == IF g2 = 0 THEN 1 ELSE g2
              IN  Q((x[1] \div h1) * (y[1] \div h2), (x[2] \div h2) * (y[2] \div h1))
QLe(x, y) == x[1] * y[2] <= y[1] * x[2]
QAbs(x) == <<Abs(x[1]), x[2]>>
Q0 == <<0, 1>>
Q1 == <<1, 1>>

CZ(re, im) == <<re, im>>
CAddQ(x, y) == <<QAdd(x[1], y[1]), QAdd(x[2], y[2])>>
CSubQ(x, y) == <<QSub(x[1], y[1]), QSub(x[2], y[2])>>
CMulQ(x, y) == <<QSub(QMul(x[1], y[1]), QMul(x[2], y[2])), QAdd(QMul(x[1], y[2]), QMul(x[2], y[1]))>>
CScaleQ(r, x) == <<QMul(r, x[1]), QMul(r, x[2])>>
C0 == CZ(Q0, Q0)
C1 == CZ(Q1, Q0)

MMul(A, B) == <<<<CAddQ(CMulQ(A[1][1], B[1][1]), CMulQ(A[1][2], B[2][1])), CAddQ(CMulQ(A[1][1], B[1][2]), CMulQ(A[1][2], B[2][2]))>>,
                <<CAddQ(CMulQ(A[2][1], B[1][1]), CMulQ(A[2][2], B[2][1])), CAddQ(CMulQ(A[2][1], B[1][2]), CMulQ(A[2][2], B[2][2]))>>>>
MAdd(A, B) == <<<<CAddQ(A[1][1], B[1][1]), CAddQ(A[1][2], B[1][2])>>, <<CAddQ(A[2][1], B[2][1]), CAddQ(A[2][2], B[2][2])>>>>
MScale(r, A) == <<<<CScaleQ(r, A[1][1]), CScaleQ(r, A[1][2])>>, <<CScaleQ(r, A[2][1]), CScaleQ(r, A[2][2])>>>>
Id == <<<<C1, C0>>, <<C0, C1>>>>

\* probe point: Kinv = 1/K (rational), dz (rational), T (complex rational)
MOf(kinv, dz, T) == MScale(dz, <<<<C0, CZ(QNeg(kinv), Q0)>>, <<T, C0>>>>)
Taylor3(kinv, dz, T) ==
    LET M  == MOf(kinv, dz, T)
        M2 == MMul(M, M)
        M3 == MMul(M2, M)
    IN  MAdd(MAdd(Id, M), MAdd(MScale(<<1, 2>>, M2), MScale(<<1, 6>>, M3)))

\* the code: a = 1 - 0.5*Kzinv*Ti*dz^2; b = -Kzinv*dz (+/-) 1/6*Kzinv^2*Ti*dz^3; c = Ti*dz - 1/6*Kzinv*Ti^2*dz^3; d = a
CodeStep(kinv, dz, T) ==
    LET dz2 == QMul(dz, dz)
        dz3 == QMul(dz2, dz)
        a   == CSubQ(C1, CScaleQ(QMul(<<1, 2>>, QMul(kinv, dz2)), T))
        b3  == CScaleQ(QMul(<<1, 6>>, QMul(QMul(kinv, kinv), dz3)), T)
        b0  == CZ(QNeg(QMul(kinv, dz)), Q0)
        b   == IF BCubic = "plus" THEN CAddQ(b0, b3) ELSE CSubQ(b0, b3)
        c   == CSubQ(CScaleQ(dz, T), CScaleQ(QMul(<<1, 6>>, QMul(kinv, dz3)), CMulQ(T, T)))
    IN  <<<<a, b>>, <<c, a>>>>

\* remainder of the exponential series beyond the cubic term, with m >= the infinity norm of M, m < 1:
\*   sum_{n >= 4} m^n / n!  <=  m^4/24 * 1/(1 - m/5)  =  5 m^4 / (24 (5 - m))
NormBound(kinv, dz, T) == LET t1 == QAdd(QAbs(T[1]), QAbs(T[2])) IN QMul(dz, IF QLe(kinv, t1) THEN t1 ELSE kinv)
R4(kinv, dz, T) == LET m == NormBound(kinv, dz, T)
                       m2 == QMul(m, m)
                   IN  QMul(QMul(<<5, 24>>, QMul(m2, m2)), Q(5 * m[2], (5 * m[2]) - m[1]) )

(********************************* probe points *****************************)
KInvs == {<<1, 2>>, <<1, 1>>, <<2, 1>>}
Dzs == {<<1, 2>>, <<1, 4>>, <<1, 8>>, <<1, 16>>, <<1, 32>>, <<1, 64>>}
Ts == {CZ(<<-1, 1>>, <<0, 1>>), CZ(<<-1, 2>>, <<-3, 2>>), CZ(<<-2, 1>>, <<1, 1>>), CZ(<<-3, 1>>, <<-1, 2>>),
       CZ(<<-1, 4>>, <<2, 1>>), CZ(<<0, 1>>, <<-1, 1>>), CZ(<<-3, 2>>, <<3, 2>>), CZ(<<-4, 1>>, <<0, 1>>)}

VARIABLES vprobe, vdone
Init == vprobe \in (KInvs \X Dzs \X Ts) /\ vdone = FALSE
Next == ~vdone /\ vdone' = TRUE /\ UNCHANGED vprobe

PK == vprobe[1]
PD == vprobe[2]
PT == vprobe[3]
Ref == Taylor3(PK, PD, PT)
Cod == CodeStep(PK, PD, PT)

\* the code's formulas ARE the third-order Taylor polynomial of the propagator
CodeIsTaylor3 == vdone => Cod = Ref
\* structure of the propagator expansion
DiagonalEqual == vdone => Ref[1][1] = Ref[2][2]
Det(A) == CSubQ(CMulQ(A[1][1], A[2][2]), CMulQ(A[1][2], A[2][1]))
\* det exp(M) = 1 (trace M = 0); the cubic truncation keeps it up to O(dz^4).  Not listed in MC_Step.cfg: the cross-multiplications of the comparison overflow TLC's 32-bit integers at dz <= 1/4.
DetNearOne == (vdone /\ PD[2] <= 4 /\ QLe(NormBound(PK, PD, PT), Q1)) => LET d == CSubQ(Det(Ref), C1)
                           m == NormBound(PK, PD, PT)
                           m4 == QMul(QMul(m, m), QMul(m, m))
                       IN  QLe(QAbs(d[1]), m4) /\ QLe(QAbs(d[2]), m4)
\* the norm bound stays below one on all probe points (so the remainder bound is valid)
NormSmall == vdone => QLe(QMul(<<2, 1>>, NormBound(PK, PD, PT)), <<5, 1>>)

Emit == vdone => PrintT("@@" \o ToJson([kinv |-> PK, dz |-> PD, T |-> PT, ref |-> Ref, m |-> NormBound(PK, PD, PT)]))
=============================================================================
