\* C10 slots, labels and level bookkeeping -- quick
CONSTANTS
  ShiftStyle = "pad" LevelStyle = "match" TruncStyle = "exact" AnalyticStyle = "outer" BCubic = "plus"
  Sizes = {302}
  Cells = {23}
  Halos = {99}
  ModeSet = {202, 1212}
  NZs = {3, 4}
  LevelLists = "perms"
  Tabs = {1}
  Analytic = {FALSE, TRUE}
  Family = "levels"
INIT Init
NEXT Next
CHECK_DEADLOCK FALSE
INVARIANT StagesAgree
INVARIANT ShapeOrError
INVARIANT ErrorsAreDeclared
INVARIANT LabelsAsGiven
INVARIANT NoSilentBroadcast
INVARIANT SlotIsSingle
INVARIANT FullColumnSlice
INVARIANT Emit
