\* negative control: coefficients of node i-1 (wraps to the top node in the first layer)
CONSTANTS
  MaxNz = 8
  SampleStyle = "previous"
  DzStyle = "own"
  TopStyle = "top"
  WeightStyle = "trapezoid"
INIT Init
NEXT Next
CHECK_DEADLOCK FALSE
INVARIANT InLayer
INVARIANT EveryLayerOnce
INVARIANT TopFromTopNode
INVARIANT MeanQuadrature
INVARIANT MeanEveryLayerOnce
