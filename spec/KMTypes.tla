------------------------------ MODULE KMTypes ------------------------------
(***************************************************************************)
(* Number kinds through the Kormann-Meixner reference model                *)
(* (bldfm/ffm_kormann_meixner.py).  C19 quantifies over "integers or       *)
(* floats alike": whether an input arrives as a Python int, a Python       *)
(* float, a NumPy integer or a NumPy float must not change the result.     *)
(* What decides this is not arithmetic but NumPy's kind propagation:       *)
(*   asarray([x])        has the kind of x                                 *)
(*   zeros_like(a)       has the kind of a                                 *)
(*   a[mask] = expr      CASTS expr to the kind of a  (float -> int cuts   *)
(*                       the fraction off, silently)                       *)
(*   a / b               is always float;  + - * keep int only for int,int *)
(*   a ** b              int only for int,int                              *)
(*   log exp sqrt arctan float                                             *)
(* The module is an abstract interpreter over kinds: the two public        *)
(* functions are transcribed statement by statement into three-address     *)
(* programs (same variable names as the code), one TLC step executes one   *)
(* statement, the state is the kind of every variable plus the list of     *)
(* stores that lose a fraction.  Every combination of input kinds and both *)
(* stability branches is an initial state.                                 *)
(*                                                                         *)
(* Deviation switch:                                                       *)
(*   HelperAlloc  "float": the helpers allocate float results (repaired)   *)
(*                "like" : zeros_like(zm), as the pinned commit            *)
(***************************************************************************)
EXTENDS Naturals, Sequences, FiniteSets, TLC, Json

CONSTANTS HelperAlloc, Program      \* Program: "footprint" | "z0"

I(op, dst, a, b, g) == [op |-> op, dst |-> dst, a |-> a, b |-> b, g |-> g]
\* guards: "any" | "unstable" (mo_len < 0) | "stable" | "wd" (a wind direction is given) | "smooth" (half_wd_win >= 1)

(* one helper: out = zeros_like(zm); out[mo_len<0] = unstable expression; out[mo_len>=0] = stable expression *)
Helper(out, zm, mo, pw) ==
    << I("alloc", out, zm, "", "any"),
       I("mul", "h1", "lit_i", zm, "unstable"),        \* 16 * zm[sflag]        (24 * in _nParam)
       I("div", "h2", "h1", mo, "unstable"),           \* / mo_len[sflag]
       I("sub", "h3", "lit_i", "h2", "unstable"),      \* 1 - ...
       I(pw, "h4", "h3", "lit_f", "unstable"),         \* ** (-0.25) | ** (-0.5) | ** 0.25 and the log/arctan terms | a quotient
       I("store", out, "h4", "", "unstable"),
       I("mul", "h5", "lit_i", zm, "stable"),          \* 5 * zm[sflag]
       I("div", "h6", "h5", mo, "stable"),
       I("add", "h7", "lit_i", "h6", "stable"),        \* 1 + ...   (psi_m: the quotient itself; n: 1 / (1 + ...))
       I("store", out, "h7", "", "stable") >>

Footprint ==
    << I("add", "g1", "xmin", "half_res", "any"),           \* xmin + 0.5 * grid_res   (half_res = 0.5 * grid_res below)
       I("arange", "gx", "g1", "grid_res", "any"),
       I("arange", "gy", "g1", "grid_res", "any"),
       I("alloc_like", "grid_ffm", "gx", "", "any"),        \* np.zeros_like(grid_x): the grid is never an input kind
       I("asarray", "zm_a", "zm", "", "any"),
       I("asarray", "mo_a", "mo_len", "", "any"),
       I("asarray", "ws_a", "ws", "", "any"),
       I("asarray", "us_a", "ustar", "", "any") >>
    \o Helper("phi_m_a", "zm_a", "mo_a", "pow") \o << I("index", "phi_m", "phi_m_a", "", "any") >>
    \o Helper("phi_c_a", "zm_a", "mo_a", "pow") \o << I("index", "phi_c", "phi_c_a", "", "any") >>
    \o Helper("psi_m_a", "zm_a", "mo_a", "func") \o << I("index", "psi_m", "psi_m_a", "", "any") >>
    \o Helper("mphi_a", "zm_a", "mo_a", "pow")                  \* _mParam calls _phiM again
    \o << I("mul", "m1", "us_a", "mphi_a", "any"),
          I("mul", "m2", "lit_f", "ws_a", "any"),             \* k * ws
          I("div", "m_a", "m1", "m2", "any"),
          I("index", "m", "m_a", "", "any") >>
    \o Helper("n_a", "zm_a", "mo_a", "div") \o << I("index", "n", "n_a", "", "any") >>
    \o << I("mul", "k1", "lit_f", "zm", "any"),               \* k * zm
          I("mul", "k2", "k1", "ustar", "any"),
          I("pow", "k3", "zm", "n", "any"),                   \* zm ** n
          I("mul", "k4", "phi_c", "k3", "any"),
          I("div", "kappa", "k2", "k4", "any"),
          I("div", "u1", "zm", "z0", "any"),
          I("func", "u2", "u1", "", "any"),                   \* log
          I("add", "u3", "u2", "psi_m", "any"),
          I("mul", "u4", "ustar", "u3", "any"),
          I("pow", "u5", "zm", "m", "any"),
          I("mul", "u6", "lit_f", "u5", "any"),
          I("div", "U", "u4", "u6", "any"),
          I("add", "r1", "lit_i", "m", "any"),
          I("sub", "r", "r1", "n", "any"),
          I("add", "mu1", "lit_i", "m", "any"),
          I("div", "mu", "mu1", "r", "any"),
          I("pow", "x1", "zm", "r", "any"),
          I("mul", "x2", "U", "x1", "any"),
          I("pow", "x3", "r", "lit_i", "any"),
          I("mul", "x4", "x3", "kappa", "any"),
          I("div", "Xi", "x2", "x4", "any"),
          I("func", "gmm", "mu", "", "any"),
          I("div", "mr", "m", "r", "any"),
          I("div", "a1", "lit_i", "r", "any"),
          I("func", "a2", "a1", "", "any"),
          I("mul", "a3", "a2", "sigma_v", "any"),
          I("div", "a4", "U", "a3", "any"),
          I("pow", "a5", "x4", "mr", "any"),
          I("mul", "A", "a4", "a5", "any"),
          I("pow", "n1", "Xi", "mu", "any"),
          I("mul", "num", "lit_f", "n1", "any"),
          I("sub", "x", "gx", "mx", "any"),                   \* grid_x - mxy[0]
          I("sub", "y", "gy", "my", "any"),
          I("func", "rho", "x", "", "wd"),
          I("func", "theta", "y", "", "wd"),
          I("func", "d2r", "wd", "", "wd"),                    \* np.deg2rad(wd)
          I("add", "nt", "theta", "d2r", "wd"),
          I("mul", "x", "rho", "nt", "wd"),
          I("mul", "y", "rho", "nt", "wd"),
          I("pow", "f1", "grid_res", "lit_i", "any"),         \* grid_res ** 2  (stays int for an int resolution: harmless)
          I("mul", "f2", "f1", "num", "any"),
          I("mul", "f3", "f2", "A", "any"),
          I("pow", "f4", "x", "mr", "any"),
          I("mul", "f5", "f3", "f4", "any"),
          I("store", "grid_ffm", "f5", "", "any"),
          I("ret", "grid_ffm", "gx", "gy", "any") >>

Z0 ==
    Helper("psi_m_a", "zm", "mo_len", "func")
    \o << I("mul", "z1", "lit_f", "ws", "any"),
          I("div", "z2", "z1", "ustar", "any"),
          I("sub", "z3", "psi_m_a", "z2", "any"),
          I("func", "z4", "z3", "", "any"),
          I("mul", "z0raw", "zm", "z4", "any"),
          I("store", "z0raw", "lit_f", "", "any"),            \* z0[z0 > 1000] = np.nan
          I("alloc_like", "z0med", "z0raw", "", "smooth"),
          I("add", "z0med", "z0med", "lit_f", "smooth"),      \* + np.nan
          I("asarray", "wdw", "wd", "", "smooth"),            \* wd.copy()
          I("sub", "w1", "wd", "lit_i", "smooth"),            \* wd[...] - 360
          I("store", "wdw", "w1", "", "smooth"),
          I("func", "med", "z0raw", "", "smooth"),            \* np.nanmedian
          I("store", "z0med", "med", "", "smooth"),
          I("ret", "z0med", "z0raw", "", "any") >>

Prog == IF Program = "footprint" THEN Footprint ELSE Z0

Inputs == IF Program = "footprint"
          THEN {"zm", "z0", "ws", "ustar", "mo_len", "sigma_v", "grid_res", "xmin", "mx", "my", "wd"}
          ELSE {"zm", "ws", "wd", "ustar", "mo_len"}

VARIABLES venv,     \* variable -> "i" | "f" (variables not yet assigned are absent)
          vpcK,     \* next statement
          vstab,    \* "unstable" | "stable"
          vopt,     \* footprint: is a wind direction given; z0: is the median smoothing on
          vlossy,   \* statements that stored a float expression into an integer array
          vin       \* the input kinds this behaviour started from (observation)

kvars == <<venv, vpcK, vstab, vopt, vlossy, vin>>

Join(a, b) == IF a = "f" \/ b = "f" THEN "f" ELSE "i"

Init == /\ vin \in [Inputs -> {"i", "f"}]
        /\ venv = [v \in Inputs \cup {"lit_i", "lit_f", "half_res"} |->
                     IF v = "lit_i" THEN "i" ELSE IF v \in {"lit_f", "half_res"} THEN "f" ELSE vin[v]]
        /\ vpcK = 1 /\ vstab \in {"unstable", "stable"} /\ vopt \in BOOLEAN /\ vlossy = {}

Bind(d, k) == [v \in (DOMAIN venv) \cup {d} |-> IF v = d THEN k ELSE venv[v]]

Active(ins) == \/ ins.g = "any" \/ ins.g = vstab
               \/ (ins.g \in {"wd", "smooth"} /\ vopt)

Step ==
    /\ vpcK <= Len(Prog)
    /\ LET ins == Prog[vpcK] IN
       /\ vpcK' = vpcK + 1
       /\ UNCHANGED <<vstab, vopt, vin>>
       /\ IF ~Active(ins) \/ ins.op = "ret" THEN UNCHANGED <<venv, vlossy>>
          ELSE CASE ins.op \in {"add", "sub", "mul", "pow", "arange"} ->
                        venv' = Bind(ins.dst, Join(venv[ins.a], venv[ins.b])) /\ UNCHANGED vlossy
                 [] ins.op \in {"div", "func"} -> venv' = Bind(ins.dst, "f") /\ UNCHANGED vlossy
                 [] ins.op \in {"asarray", "index", "alloc_like"} -> venv' = Bind(ins.dst, venv[ins.a]) /\ UNCHANGED vlossy
                 [] ins.op = "alloc" -> venv' = Bind(ins.dst, IF HelperAlloc = "float" THEN "f" ELSE venv[ins.a]) /\ UNCHANGED vlossy
                 [] ins.op = "store" ->                                   \* the array keeps its kind; the value is cast to it
                        /\ UNCHANGED venv
                        /\ vlossy' = IF venv[ins.dst] = "i" /\ venv[ins.a] = "f" THEN vlossy \cup {vpcK} ELSE vlossy

Done == vpcK = Len(Prog) + 1
Spec == Init /\ [][Step]_kvars

(******************************** properties ********************************)
\* "integers or floats alike": no statement ever cuts a fraction off
NoLossyStore == vlossy = {}
\* whatever the kinds of the inputs, what is returned is float
ResultVar == IF Program = "z0" /\ ~vopt THEN "z0raw" ELSE Prog[Len(Prog)].dst      \* half_wd_win < 1: the raw values are returned
ResultIsFloat == Done => \A v \in {ResultVar, Prog[Len(Prog)].a} : venv[v] = "f"
\* every variable is assigned before it is used (the transcription is a well-formed program)
WellFormed == vpcK <= Len(Prog) =>
                LET ins == Prog[vpcK] IN
                (Active(ins) /\ ins.op # "ret") =>
                    /\ (ins.a # "" => ins.a \in DOMAIN venv)
                    /\ (ins.b # "" => ins.b \in DOMAIN venv)
                    /\ (ins.op = "store" => ins.dst \in DOMAIN venv)

\* the helpers' result kinds at the end (what the harness observes by calling them)
HelperVars == IF Program = "footprint" THEN {"phi_m_a", "phi_c_a", "psi_m_a", "n_a", "m_a"} ELSE {"psi_m_a"}
Emit == Done => PrintT("@@" \o ToJson([prog |-> Program, kinds |-> vin, stab |-> vstab, opt |-> vopt,
                                         lossy |-> Cardinality(vlossy),
                                         helpers |-> [h \in HelperVars |-> venv[h]],
                                         result |-> venv[ResultVar]]))
=============================================================================
