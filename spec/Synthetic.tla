------------------------------ MODULE Synthetic ------------------------------
(***************************************************************************)
(* bldfm/synthetic.py: the generators of demonstration input.  No listed   *)
(* property speaks about them; they are specified because their output is  *)
(* the input of the configuration layer (Config.tla): what they return     *)
(* must be a forcing MetConfig accepts with exactly n steps, and a tower    *)
(* list parse_config_dict accepts with n distinct towers.                   *)
(*                                                                         *)
(* generate_towers_grid: offsets in units of HALF a spacing (so that the    *)
(* centred lattice (j - (side-1)/2) is integral).                           *)
(*   layout "grid":     the first n cells, row by row, of the smallest      *)
(*                      square lattice with at least n cells                *)
(*   layout "transect": n points on the east-west line through the centre   *)
(* generate_synthetic_timeseries: five lists of the same length n, time     *)
(* labels dt apart.                                                         *)
(* A failure of these invariants on the real functions is reported as       *)
(* drift (advisory family of C16), never as a violation.                    *)
(***************************************************************************)
EXTENDS Integers, Sequences, FiniteSets, TLC, Json

CONSTANTS MaxN, GridBreak     \* GridBreak: "inner" (the code: break leaves only the inner loop) | "none"

RECURSIVE Side(_, _)
Side(n, s) == IF s * s >= n THEN s ELSE Side(n, s + 1)       \* ceil(sqrt(n))

VARIABLES vn, vlayout, vi, vj, voffs, vstage
svars == <<vn, vlayout, vi, vj, voffs, vstage>>

Init == vn \in 0..MaxN /\ vlayout \in {"grid", "transect"} /\ vi = 0 /\ vj = 0 /\ voffs = << >> /\ vstage = "offsets"

SideN == Side(vn, 0)
\* for i in range(side): for j in range(side): if len(offsets) >= n: break; append(...)
GridCell == /\ vstage = "offsets" /\ vlayout = "grid" /\ vi < SideN
            /\ IF vj < SideN /\ (Len(voffs) < vn \/ GridBreak = "none")
               THEN /\ voffs' = Append(voffs, <<2 * vj - (SideN - 1), 2 * vi - (SideN - 1)>>)
                    /\ vj' = vj + 1 /\ vi' = vi
               ELSE /\ vi' = vi + 1 /\ vj' = 0 /\ voffs' = voffs             \* inner loop done (or broken): next row
            /\ UNCHANGED <<vn, vlayout, vstage>>
GridDone == /\ vstage = "offsets" /\ vlayout = "grid" /\ vi = SideN /\ vstage' = "done" /\ UNCHANGED <<vn, vlayout, vi, vj, voffs>>
Transect == /\ vstage = "offsets" /\ vlayout = "transect"
            /\ voffs' = [k \in 1..vn |-> <<2 * (k - 1) - (vn - 1), 0>>]
            /\ vstage' = "done" /\ UNCHANGED <<vn, vlayout, vi, vj>>
Next == GridCell \/ GridDone \/ Transect
Spec == Init /\ [][Next]_svars

Done == vstage = "done"
Name(k) == IF k <= 26 THEN <<"letter", k>> ELSE <<"number", k - 1>>
ExactlyN == Done => Len(voffs) = vn
DistinctPositions == Done => \A a, b \in 1..Len(voffs) : a # b => voffs[a] # voffs[b]
DistinctNames == Done => \A a, b \in 1..Len(voffs) : a # b => Name(a) # Name(b)
Centred == (Done /\ vlayout = "transect" /\ vn > 0) => voffs[1][1] = -voffs[vn][1]
Emit == Done => PrintT("@@" \o ToJson([n |-> vn, layout |-> vlayout, offs |-> voffs]))
=============================================================================
