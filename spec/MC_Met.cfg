\* C16: every forcing pattern (absent/scalar/list of length 1..4 per field, z0, timestamps), repaired design
CONSTANTS MaxLen = 4 StepsFrom = "all" TsCheck = "always" Scenario = "met"
INIT Init
NEXT Next
INVARIANT RejectedIffInvalid
INVARIANT NeverIndexError
INVARIANT OneStepPerEntry
INVARIANT ScalarsBroadcast
INVARIANT TimestampOrIndex
INVARIANT Emit
CHECK_DEADLOCK FALSE
