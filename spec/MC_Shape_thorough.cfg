\* C11 shape/registration, low-pass, clamp -- thorough
CONSTANTS
  ShiftStyle = "pad" LevelStyle = "match" TruncStyle = "exact" AnalyticStyle = "outer" BCubic = "plus"
  Sizes = {202, 302, 203, 303, 402, 403, 502, 503, 404, 504, 405, 505, 602, 603, 702, 703}
  Cells = {11, 23, 32}
  Halos = {99, 0, 1, 2, 3, 5}
  ModeSet = {202, 402, 204, 404, 602, 604, 406, 802, 302, 203, 303, 503, 305, 1212, 1202, 212}
  NZs = {3}
  LevelLists = "mid"
  Tabs = {1}
  Analytic = {FALSE, TRUE}
  Family = "shape"
INIT Init
NEXT Next
CHECK_DEADLOCK FALSE
INVARIANT StagesAgree
INVARIANT ShapeOrError
INVARIANT ErrorsAreDeclared
INVARIANT LowPass
INVARIANT ClampEq
INVARIANT HaloIsPadding
INVARIANT Emit
