\* negative control: analytic level heights broadcast against the modes (pinned commit) - a broadcast error / silent misalignment must show
CONSTANTS
  ShiftStyle = "pad" LevelStyle = "match" TruncStyle = "exact" AnalyticStyle = "flat" BCubic = "plus"
  Sizes = {302}
  Cells = {23}
  Halos = {99}
  ModeSet = {202, 1212}
  NZs = {3, 4}
  LevelLists = "perms"
  Tabs = {1}
  Analytic = {FALSE, TRUE}
  Family = "levels"
INIT Init
NEXT Next
CHECK_DEADLOCK FALSE
INVARIANT NoSilentBroadcast
INVARIANT SlotIsSingle
INVARIANT FullColumnSlice
