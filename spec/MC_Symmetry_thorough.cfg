\* C07 reflections and axis swap -- thorough
CONSTANTS
  ShiftStyle = "pad" LevelStyle = "match" TruncStyle = "exact" AnalyticStyle = "outer" BCubic = "plus"
  Sizes = {202, 302, 403, 404, 604, 505}
  Cells = {11, 23, 32}
  Halos = {0}
  ModeSet = {202, 402, 204, 404, 604, 1212}
  NZs = {3}
  LevelLists = "asc"
  Tabs = {1, 2}
  Analytic = {FALSE, TRUE}
  Family = "symmetry"
INIT Init
NEXT Next
CHECK_DEADLOCK FALSE
INVARIANT StagesAgree
INVARIANT ShapeOrError
INVARIANT MirrorX
INVARIANT MirrorY
INVARIANT Transpose
INVARIANT Emit
