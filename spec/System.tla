------------------------------- MODULE System -------------------------------
(***************************************************************************)
(* Composition: a parallel run with result caching switched on.            *)
(*                                                                         *)
(* Drivers.tla, Runtime.tla and Cache.tla each describe one layer; here    *)
(* the layers are put together as the code composes them: the pool hands   *)
(* out tasks (Drivers), every task is a sequence of single runs inside a   *)
(* forked worker process that first resets the inherited thread/FFT state  *)
(* (Runtime, one copy per process), and every single run is a footprint    *)
(* solve bracketed by a lookup and a store in a cache directory that all   *)
(* processes share and that is written in place (Cache / CacheConc).       *)
(*                                                                         *)
(* One worker step = one hook event of the code, in the code's order:      *)
(*   Take+Init  worker_init                                                *)
(*   Begin      single_begin, enter                                        *)
(*   Lookup     cache_get [cache_hit, return_cached]                       *)
(*   Threads    [mgr_create] thread_setup        (get_fft_manager(threads))*)
(*   Kernel     kernel_call x 2                                            *)
(*   Final      [mgr_create]                     (module-level fft2: 1)    *)
(*   Ret        return                                                     *)
(*   PutBegin   cache_put_begin                                            *)
(*   PutCommit  cache_put_end                                              *)
(*   End        single_end                                                 *)
(* Only the "towers" strategy reaches the cache (its workers run a whole    *)
(* series, and a series creates a cache object); the per-step workers of   *)
(* "time" / "both" call the single run without one, so UseCache = FALSE    *)
(* describes them whatever the configuration says.                         *)
(* A record of the forcing may repeat (RepeatStep): then two steps of a    *)
(* tower map to the same cache key, and the fields of the later step may   *)
(* come from the entry the earlier one stored - its metadata may not.      *)
(***************************************************************************)
EXTENDS Integers, Sequences, FiniteSets, TLC, Json

CONSTANTS NT, NS, NW, Strategy, ParentThreads, UseCache, RepeatStep, CatchLoad, WorkerInit

Towers == 1..NT
Steps == 1..NS
Workers == 1..NW

\* forcing class of a step: step RepeatStep (if not 0) repeats the forcing of step 1
Forcing(s) == IF RepeatStep # 0 /\ s = RepeatStep THEN 1 ELSE s
Key(tw, s) == <<tw, Forcing(s)>>
Keys == {Key(tw, s) : tw \in Towers, s \in Steps}
\* the fields of a single run depend on tower, forcing and the thread setting it was solved with; the entry
\* also carries the step's own metadata (timestamp / parameters)
Fields(tw, s, thr) == <<tw, Forcing(s), thr>>
Entry(tw, s, fields) == [fields |-> fields, meta |-> <<tw, s>>]
Single(tw, s) == Entry(tw, s, Fields(tw, s, 1))

TaskList == IF Strategy = "towers" THEN [i \in 1..NT |-> <<i, 0>>]
            ELSE [i \in 1..(NT * NS) |-> <<((i - 1) \div NS) + 1, ((i - 1) % NS) + 1>>]
NTasks == Len(TaskList)

VARIABLES
    vnext, vbusy,           \* pool: next unstarted task; worker -> task index (0 = idle)
    vwpc,                   \* worker -> program counter of its current single run
    vthr, vmgr, vfftw,      \* worker -> config.NUM_THREADS, manager threads (0 = None), pyfftw threads   (Runtime, per process)
    vstep,                  \* worker -> step of the current single run
    vval,                   \* worker -> fields being returned by the current solve
    vhit,                   \* worker -> the current run was served from the cache
    vffts,                  \* worker -> thread counts with which the FFTs of the current run ran
    vacc,                   \* worker -> entries of the current task so far
    vstore, vwriters,       \* shared directory: key -> [st: "absent" | "complete", val: stored fields]; key -> processes writing it
    vout, vpcs              \* position -> result of the task; "run" | "assemble" | "done"
VARIABLE vresults
svars == <<vnext, vbusy, vwpc, vthr, vmgr, vfftw, vstep, vval, vhit, vffts, vacc, vstore, vwriters, vout, vpcs, vresults>>

Readable(k) == vstore[k].st = "complete" /\ vwriters[k] = {}
Exists(k) == vstore[k].st # "absent" \/ vwriters[k] # {}

NoFields == <<0, 0, 0>>
Init == /\ vnext = 1 /\ vbusy = [w \in Workers |-> 0] /\ vwpc = [w \in Workers |-> "idle"]
        /\ vthr = [w \in Workers |-> ParentThreads] /\ vmgr = [w \in Workers |-> IF ParentThreads > 1 THEN 1 ELSE 0] /\ vfftw = [w \in Workers |-> 1]
        /\ vstep = [w \in Workers |-> 0] /\ vval = [w \in Workers |-> NoFields] /\ vhit = [w \in Workers |-> FALSE]
        /\ vffts = [w \in Workers |-> << >>] /\ vacc = [w \in Workers |-> << >>]
        /\ vstore = [k \in Keys |-> [st |-> "absent", val |-> NoFields]] /\ vwriters = [k \in Keys |-> {}]
        /\ vout = [i \in 1..NTasks |-> << >>] /\ vpcs = "run" /\ vresults = << >>

Tower(w) == TaskList[vbusy[w]][1]
LastStep(w) == IF TaskList[vbusy[w]][2] = 0 THEN NS ELSE TaskList[vbusy[w]][2]
FirstStep(w) == IF TaskList[vbusy[w]][2] = 0 THEN 1 ELSE TaskList[vbusy[w]][2]
Ensure(w, n) == IF vmgr[w] = 0 \/ vmgr[w] # n THEN vmgr' = [vmgr EXCEPT ![w] = n] /\ vfftw' = [vfftw EXCEPT ![w] = n]
                ELSE UNCHANGED <<vmgr, vfftw>>

TakeInit(w) == /\ vpcs = "run" /\ vbusy[w] = 0 /\ vnext <= NTasks                 \* worker_init
               /\ vbusy' = [vbusy EXCEPT ![w] = vnext] /\ vnext' = vnext + 1
               /\ vthr' = [vthr EXCEPT ![w] = IF WorkerInit THEN 1 ELSE @]
               /\ vmgr' = [vmgr EXCEPT ![w] = IF WorkerInit THEN 0 ELSE @]
               /\ vacc' = [vacc EXCEPT ![w] = << >>] /\ vstep' = [vstep EXCEPT ![w] = 0]
               /\ vwpc' = [vwpc EXCEPT ![w] = "next"]
               /\ vval' = [vval EXCEPT ![w] = NoFields] /\ vhit' = [vhit EXCEPT ![w] = FALSE]
               /\ UNCHANGED <<vfftw, vffts, vstore, vwriters, vout, vpcs, vresults>>
Begin(w) ==    /\ vwpc[w] = "next" /\ vstep[w] < LastStep(w)                        \* single_begin, enter
               /\ vstep' = [vstep EXCEPT ![w] = IF @ = 0 THEN FirstStep(w) ELSE @ + 1]
               /\ vval' = [vval EXCEPT ![w] = NoFields] /\ vhit' = [vhit EXCEPT ![w] = FALSE] /\ vffts' = [vffts EXCEPT ![w] = << >>]
               /\ vwpc' = [vwpc EXCEPT ![w] = IF UseCache THEN "lookup" ELSE "threads"]
               /\ UNCHANGED <<vnext, vbusy, vthr, vmgr, vfftw, vacc, vstore, vwriters, vout, vpcs, vresults>>
Lookup(w) ==   /\ vwpc[w] = "lookup"                                                \* cache_get [cache_hit]
               /\ LET k == Key(Tower(w), vstep[w]) IN
                  IF ~Exists(k) THEN vwpc' = [vwpc EXCEPT ![w] = "threads"] /\ UNCHANGED <<vval, vhit>>
                  ELSE IF Readable(k) THEN /\ vwpc' = [vwpc EXCEPT ![w] = "end"] /\ vhit' = [vhit EXCEPT ![w] = TRUE]
                                           /\ vval' = [vval EXCEPT ![w] = vstore[k].val]
                  ELSE IF CatchLoad THEN vwpc' = [vwpc EXCEPT ![w] = "threads"] /\ UNCHANGED <<vval, vhit>>
                  ELSE vwpc' = [vwpc EXCEPT ![w] = "fatal"] /\ UNCHANGED <<vval, vhit>>
               /\ UNCHANGED <<vnext, vbusy, vthr, vmgr, vfftw, vstep, vffts, vacc, vstore, vwriters, vout, vpcs, vresults>>
Threads(w) ==  /\ vwpc[w] = "threads"                                               \* [mgr_create] thread_setup
               /\ Ensure(w, IF vthr[w] > 1 THEN vthr[w] ELSE 1)
               /\ vwpc' = [vwpc EXCEPT ![w] = "kernel"]
               /\ UNCHANGED <<vnext, vbusy, vthr, vstep, vval, vhit, vffts, vacc, vstore, vwriters, vout, vpcs, vresults>>
Kernel(w) ==   /\ vwpc[w] = "kernel"                                                \* kernel_call x 2
               /\ vval' = [vval EXCEPT ![w] = Fields(Tower(w), vstep[w], vthr[w])]
               /\ vwpc' = [vwpc EXCEPT ![w] = "final"]
               /\ UNCHANGED <<vnext, vbusy, vthr, vmgr, vfftw, vstep, vhit, vffts, vacc, vstore, vwriters, vout, vpcs, vresults>>
Final(w) ==    /\ vwpc[w] = "final"                                                 \* [mgr_create] fft2 of the result, return
               /\ Ensure(w, 1) /\ vffts' = [vffts EXCEPT ![w] = Append(@, vfftw'[w])]
               /\ vwpc' = [vwpc EXCEPT ![w] = IF UseCache THEN "put" ELSE "end"]
               /\ UNCHANGED <<vnext, vbusy, vthr, vstep, vval, vhit, vacc, vstore, vwriters, vout, vpcs, vresults>>
PutBegin(w) == /\ vwpc[w] = "put"                                                   \* cache_put_begin: the file is opened for writing (truncated)
               /\ vwriters' = [vwriters EXCEPT ![Key(Tower(w), vstep[w])] = @ \cup {w}]
               /\ vwpc' = [vwpc EXCEPT ![w] = "commit"]
               /\ UNCHANGED <<vnext, vbusy, vthr, vmgr, vfftw, vstep, vval, vhit, vffts, vacc, vstore, vout, vpcs, vresults>>
PutCommit(w) == /\ vwpc[w] = "commit"                                               \* cache_put_end
                /\ vwriters' = [vwriters EXCEPT ![Key(Tower(w), vstep[w])] = @ \ {w}]
                /\ vstore' = [vstore EXCEPT ![Key(Tower(w), vstep[w])] = [st |-> "complete", val |-> vval[w]]]
                /\ vwpc' = [vwpc EXCEPT ![w] = "end"]
                /\ UNCHANGED <<vnext, vbusy, vthr, vmgr, vfftw, vstep, vval, vhit, vffts, vacc, vout, vpcs, vresults>>
End(w) ==      /\ vwpc[w] = "end"                                                   \* single_end
               /\ vacc' = [vacc EXCEPT ![w] = Append(@, Entry(Tower(w), vstep[w], vval[w]))]
               /\ vwpc' = [vwpc EXCEPT ![w] = "next"]
               /\ UNCHANGED <<vnext, vbusy, vthr, vmgr, vfftw, vstep, vval, vhit, vffts, vstore, vwriters, vout, vpcs, vresults>>
Finish(w) ==   /\ vwpc[w] = "next" /\ vstep[w] = LastStep(w)                        \* the task's result travels to the parent
               /\ vout' = [vout EXCEPT ![vbusy[w]] = vacc[w]]
               /\ vbusy' = [vbusy EXCEPT ![w] = 0] /\ vwpc' = [vwpc EXCEPT ![w] = "idle"]
               /\ UNCHANGED <<vnext, vthr, vmgr, vfftw, vstep, vval, vhit, vffts, vacc, vstore, vwriters, vpcs, vresults>>
Assemble ==    /\ vpcs = "run" /\ vnext > NTasks /\ \A w \in Workers : vbusy[w] = 0
               /\ vresults' = IF Strategy = "towers" THEN [i \in 1..NT |-> vout[i]]
                              ELSE [i \in 1..NT |-> [s \in 1..NS |-> vout[((i - 1) * NS) + s][1]]]
               /\ vpcs' = "done"
               /\ UNCHANGED <<vnext, vbusy, vwpc, vthr, vmgr, vfftw, vstep, vval, vhit, vffts, vacc, vstore, vwriters, vout>>

Next == (\E w \in Workers : TakeInit(w) \/ Begin(w) \/ Lookup(w) \/ Threads(w) \/ Kernel(w) \/ Final(w)
                             \/ PutBegin(w) \/ PutCommit(w) \/ End(w) \/ Finish(w)) \/ Assemble
Spec == Init /\ [][Next]_svars

(******************************** properties ********************************)
\* C14 + C15 together: every entry is the single run of its tower and step, whoever solved or stored what before
EachIsSingle == vpcs = "done" => \A i \in Towers, s \in Steps : vresults[i][s] = Single(i, s)
\* C15: a hit returns the fields of its own request; nothing is fatal
HitsAreRight == \A w \in Workers : (vbusy[w] # 0 /\ vhit[w]) => vval[w] = Fields(Tower(w), vstep[w], 1)
NeverFatal == \A w \in Workers : vwpc[w] # "fatal"
\* C12 inside workers: every FFT of a worker ran single-threaded, and the solve used the reset thread setting
WorkerFFTsSingle == \A w \in Workers : \A i \in 1..Len(vffts[w]) : vffts[w][i] = 1
WorkerSolvesReset == \A w \in Workers : (vwpc[w] \in {"kernel", "final"} /\ WorkerInit) => vthr[w] = 1
=============================================================================
