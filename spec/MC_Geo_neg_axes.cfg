\* negative control: longitude feeds y
CONSTANTS
  InvCos = "ref"
  Axes = "yx"
  Fill = "own"
INIT Init
NEXT FillTowers
CHECK_DEADLOCK FALSE
INVARIANT RoundTripLL
INVARIANT RoundTripXY
INVARIANT Oriented
INVARIANT OwnPosition
INVARIANT Scale
