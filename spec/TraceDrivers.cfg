CONSTANTS MaxNT = 3 MaxNS = 3 MaxNW = 5 Strategies = {"towers", "time", "both", "serial", "cli"} ParentThreadSet = {1, 4}
  Collect = "position" SliceStep = "NS" WorkerInit = TRUE
INIT TInit
NEXT TNext
VIEW View2
INVARIANT KeysInConfigOrder
INVARIANT OnePerStep
INVARIANT EachIsSingle
INVARIANT InitBeforeSolve
INVARIANT Report
CHECK_DEADLOCK FALSE
