\* C07 reflections and axis swap -- pinned (deviation switches of the pinned commit; emits verdicts instead of checking)
CONSTANTS
  ShiftStyle = "halo" LevelStyle = "cursor" TruncStyle = "sym" AnalyticStyle = "flat" BCubic = "minus"
  Sizes = {302, 403, 404}
  Cells = {11, 23}
  Halos = {0}
  ModeSet = {202, 402, 1212}
  NZs = {3}
  LevelLists = "single"
  Tabs = {1}
  Analytic = {FALSE}
  Family = "symmetry"
INIT Init
NEXT Next
CHECK_DEADLOCK FALSE
INVARIANT EmitV
