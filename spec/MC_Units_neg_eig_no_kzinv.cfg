CONSTANTS Slip = "eig_no_kzinv"
INIT Init
NEXT Next
INVARIANT Similarity
CHECK_DEADLOCK FALSE
