\* negative control: basicConfig without force=True - expects LastSetupWins violated
CONSTANTS
  Force = FALSE
  Idempotent = TRUE
  FlagFirst = FALSE
  MaxCalls = 2
SPECIFICATION Spec
CHECK_DEADLOCK FALSE
INVARIANT HandlersBounded
INVARIANT HandlerFileExists
INVARIANT InitMeansConfigured
PROPERTY LastSetupWins
PROPERTY InitOnce
PROPERTY RaisedNotRemembered
PROPERTY Monotone
