\* C20: every f in 0..2 and g in 0..2 on 5 cells (ties and zeros everywhere); theorems about the definitions
CONSTANTS NCells = 5 FMax = 2 GMax = 2 Mode = "enumerate"
INIT Init
NEXT Next
CHECK_DEADLOCK FALSE
INVARIANT RangeOK
INVARIANT Antitone
INVARIANT OrderOnly
INVARIANT PermInvariant
INVARIANT ContourMonotone
INVARIANT ContourDefinition
INVARIANT ContourScales
INVARIANT EmitE
