----------------------------- MODULE SourceArea -----------------------------
(***************************************************************************)
(* bldfm.utils.get_source_area and                                         *)
(* bldfm.plotting.footprint.extract_percentile_contour, as definitions     *)
(* over cells 1..N with integer-valued footprint f >= 0 and base field g.  *)
(*                                                                         *)
(* Rescaled value of cell c: the sum of f over the cells whose g is        *)
(* larger; cells tied with c may or may not be counted, so the definition  *)
(* is a SET of allowed values per cell (any sorting algorithm, stable or   *)
(* not, lands inside it).                                                  *)
(* Percentile contour for a fraction p = pn/pd: with the values sorted     *)
(* descending, K is the least count whose sum reaches p * total; level is  *)
(* the K-th largest value, area = K cells.                                 *)
(***************************************************************************)
EXTENDS Integers, Sequences, FiniteSets, TLC, Json, IOUtils

CONSTANTS NCells, FMax, GMax, Mode      \* Mode = "enumerate" | "trace"

Cells == 1..NCells

RECURSIVE SumOver(_, _)
SumOver(f, S) == IF S = {} THEN 0 ELSE LET c == CHOOSE x \in S : TRUE IN f[c] + SumOver(f, S \ {c})

Greater(g, c, N) == {d \in 1..N : g[d] > g[c]}
Tied(g, c, N) == {d \in 1..N : d # c /\ g[d] = g[c]}
\* all sums of f over subsets of S (computed incrementally: the set of subsets itself may be astronomically large)
RECURSIVE SubsetSums(_, _)
SubsetSums(f, S) == IF S = {} THEN {0}
                    ELSE LET c == CHOOSE x \in S : TRUE
                             rest == SubsetSums(f, S \ {c})
                         IN  rest \cup {x + f[c] : x \in rest}
Allowed(f, g, c, N) == LET base == SumOver(f, Greater(g, c, N)) IN {base + x : x \in SubsetSums(f, Tied(g, c, N))}
Total(f, N) == SumOver(f, 1..N)

\* number of cells with a value >= v / sum of the values > v
CountGE(f, v, N) == Cardinality({c \in 1..N : f[c] >= v})
SumGT(f, v, N) == SumOver(f, {c \in 1..N : f[c] > v})
\* The K largest values reach pn/pd of the total and K-1 do not.  With ties at the K-th value v:
\* K = (number of cells > v) + j where j is the least number of copies of v needed.
ContourOK(f, N, pn, pd, level, K) ==
    LET tot == Total(f, N)
        above == {c \in 1..N : f[c] > level}
        nab == Cardinality(above)
        sab == SumOver(f, above)
        j == K - nab
    IN  /\ K \in 1..N
        /\ j >= 1 /\ j <= Cardinality({c \in 1..N : f[c] = level})             \* the K-th largest value is `level`
        /\ (sab + (j * level)) * pd >= pn * tot                                 \* K cells reach the fraction
        /\ (K = 1 \/ (sab + ((j - 1) * level)) * pd < pn * tot)                 \* K - 1 cells do not

(********************************* enumeration ******************************)
VARIABLES vf, vg, vstage
svars == <<vf, vg, vstage>>

FracSeq == <<<<1, 8>>, <<1, 4>>, <<1, 2>>, <<3, 4>>, <<7, 8>>, <<1, 1>>>>
Fracs == {FracSeq[i] : i \in 1..Len(FracSeq)}

Obs == IF Mode = "trace" THEN JsonDeserialize(IOEnv.TRACE_FILE) ELSE << >>

Init == /\ vstage = "check"
        /\ IF Mode = "enumerate"
           THEN vf \in [Cells -> 0..FMax] /\ vg \in [Cells -> 0..GMax]
           ELSE vf \in 1..Len(Obs) /\ vg = 0
Next == vstage = "check" /\ vstage' = "done" /\ UNCHANGED <<vf, vg>>

\* the contour the definition yields (least K)
RECURSIVE LeastK(_, _, _, _, _)
SortedDesc(f, N) == LET RECURSIVE srt(_) 
                        srt(S) == IF S = {} THEN << >> ELSE LET m == CHOOSE x \in S : \A y \in S : f[x] >= f[y] IN <<f[m]>> \o srt(S \ {m})
                    IN srt(1..N)
LeastK(sv, k, acc, pn_tot, pd) == IF (acc + sv[k]) * pd >= pn_tot \/ k = Len(sv) THEN k ELSE LeastK(sv, k + 1, acc + sv[k], pn_tot, pd)
ContourOf(f, N, pn, pd) == LET sv == SortedDesc(f, N)
                               K == LeastK(sv, 1, 0, pn * Total(f, N), pd)
                           IN  <<sv[K], K>>

En == Mode = "enumerate" /\ vstage = "done"
\* theorems about the definitions (checked for every f, g in range)
RangeOK == En => \A c \in Cells : \A r \in Allowed(vf, vg, c, NCells) : r >= 0 /\ r <= Total(vf, NCells) - vf[c]
Antitone == En => \A c, d \in Cells : vg[c] > vg[d] =>
                     \A rc \in Allowed(vf, vg, c, NCells), rd \in Allowed(vf, vg, d, NCells) : rc <= rd
OrderOnly == En => LET g2 == [c \in Cells |-> (3 * vg[c]) + 1] IN           \* a strictly increasing map of g
                   \A c \in Cells : Allowed(vf, g2, c, NCells) = Allowed(vf, vg, c, NCells)
PermInvariant == En => LET pi == [c \in Cells |-> (c % NCells) + 1]         \* a common permutation of the cells
                           f2 == [c \in Cells |-> vf[pi[c]]]
                           g2 == [c \in Cells |-> vg[pi[c]]]
                       IN  \A c \in Cells : Allowed(f2, g2, c, NCells) = Allowed(vf, vg, pi[c], NCells)
ContourMonotone == (En /\ Total(vf, NCells) > 0) =>
                       \A p \in Fracs, q \in Fracs : (p[1] * q[2] <= q[1] * p[2]) =>
                           LET a == ContourOf(vf, NCells, p[1], p[2])
                               b == ContourOf(vf, NCells, q[1], q[2])
                           IN  a[2] <= b[2] /\ a[1] >= b[1]
ContourDefinition == (En /\ Total(vf, NCells) > 0) =>
                       \A p \in Fracs : LET a == ContourOf(vf, NCells, p[1], p[2]) IN ContourOK(vf, NCells, p[1], p[2], a[1], a[2])
ContourScales == (En /\ Total(vf, NCells) > 0) =>
                       \A p \in Fracs : LET a == ContourOf(vf, NCells, p[1], p[2])
                                            b == ContourOf([c \in Cells |-> 3 * vf[c]], NCells, p[1], p[2])
                                        IN  b[1] = 3 * a[1] /\ b[2] = a[2]

EmitEvery == atoi(IOEnv.EMIT_EVERY)
EmitPhase == atoi(IOEnv.EMIT_PHASE)
RECURSIVE Code(_, _, _)
Code(f, n, b) == IF n = 0 THEN 0 ELSE f[n] + b * Code(f, n - 1, b)
EmitE == (En /\ ((Code(vf, NCells, FMax + 1) + 7 * Code(vg, NCells, GMax + 1)) % EmitEvery) = (EmitPhase % EmitEvery)) =>
            PrintT("@@" \o ToJson([f |-> vf, g |-> vg,
                                   allowed |-> [c \in Cells |-> Allowed(vf, vg, c, NCells)],
                                   contours |-> IF Total(vf, NCells) > 0
                                                THEN [i \in 1..Len(FracSeq) |-> [pn |-> FracSeq[i][1], pd |-> FracSeq[i][2],
                                                                                 lk |-> ContourOf(vf, NCells, FracSeq[i][1], FracSeq[i][2])]]
                                                ELSE << >>]))

(*********************************** trace **********************************)
\* an observation: [n, f, g, r, pn, pd, level, K] recorded from the real functions (integer data, g as dense ranks)
O == Obs[vf]
Tr == Mode = "trace" /\ vstage = "done"
ObsRescaled == Tr => \A c \in 1..O.n : O.r[c] \in Allowed(O.f, O.g, c, O.n)
ObsContour == (Tr /\ O.pd > 0) => ContourOK(O.f, O.n, O.pn, O.pd, O.level, O.K)
\* total verdicts: one line per observation
EmitT == Tr => PrintT("@@" \o ToJson([i |-> vf,
                                       rescaled |-> \A c \in 1..O.n : O.r[c] \in Allowed(O.f, O.g, c, O.n),
                                       contour |-> (O.pd > 0 => ContourOK(O.f, O.n, O.pn, O.pd, O.level, O.K))]))
=============================================================================
