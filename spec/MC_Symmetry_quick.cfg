\* C07 reflections and axis swap -- quick
CONSTANTS
  ShiftStyle = "pad" LevelStyle = "match" TruncStyle = "exact" AnalyticStyle = "outer" BCubic = "plus"
  Sizes = {302, 403, 404}
  Cells = {11, 23}
  Halos = {0}
  ModeSet = {202, 402, 1212}
  NZs = {3}
  LevelLists = "single"
  Tabs = {1}
  Analytic = {FALSE}
  Family = "symmetry"
INIT Init
NEXT Next
CHECK_DEADLOCK FALSE
INVARIANT StagesAgree
INVARIANT ShapeOrError
INVARIANT MirrorX
INVARIANT MirrorY
INVARIANT Transpose
INVARIANT Emit
