\* negative control: cells abeam of the receptor evaluated
CONSTANTS
  Bounds = "quick"
  RotSense = "code"
  RowOrder = "topdown"
  UpwindTest = "ge"
INIT Init
NEXT Next
CHECK_DEADLOCK FALSE
INVARIANT CellByCell
INVARIANT ZeroDownwind
INVARIANT SymmetricAboutAxis
INVARIANT Coordinates
INVARIANT RotationAboutReceptor
INVARIANT StagesAgree
INVARIANT Periodic
