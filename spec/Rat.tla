-------------------------------- MODULE Rat --------------------------------
(***************************************************************************)
(* Exact rationals for TLC: <<n, d>> in lowest terms, d > 0.  Products are *)
(* cross-cancelled first so that intermediates stay inside 32-bit integers.*)
(***************************************************************************)
EXTENDS Integers

RAbs(x) == IF x < 0 THEN -x ELSE x
RECURSIVE RGCD(_, _)
RGCD(a, b) == IF b = 0 THEN a ELSE RGCD(b, a % b)
Q(n, d) == LET g == RGCD(RAbs(n), RAbs(d)) s == IF d < 0 THEN -1 ELSE 1 IN <<(s * n) \div g, (s * d) \div g>>
QAdd(x, y) == LET g == RGCD(x[2], y[2])
                  a == x[2] \div g
                  b == y[2] \div g
              IN  Q((x[1] * b) + (y[1] * a), a * y[2])
QNeg(x) == <<-x[1], x[2]>>
QSub(x, y) == QAdd(x, QNeg(y))
QMul(x, y) == LET g1 == RGCD(RAbs(x[1]), y[2])
                  g2 == RGCD(RAbs(y[1]), x[2])
                  h1 == IF g1 = 0 THEN 1 ELSE g1
                  h2 == IF g2 = 0 THEN 1 ELSE g2
              IN  Q((x[1] \div h1) * (y[1] \div h2), (x[2] \div h2) * (y[2] \div h1))
QInv(x) == Q(x[2], x[1])
QDiv(x, y) == QMul(x, QInv(y))
QLt(x, y) == x[1] * y[2] < y[1] * x[2]
QInt(n) == <<n, 1>>
=============================================================================
