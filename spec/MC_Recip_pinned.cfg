\* C02 quick: reciprocity on small grids, commensurate and incommensurate halos, dx # dy, truncating and clamped modes
CONSTANTS
  ShiftStyle = "halo" LevelStyle = "cursor" TruncStyle = "sym" AnalyticStyle = "flat" BCubic = "minus"
  Sizes = {302, 403}
  Cells = {11, 23}
  Halos = {99, 0, 1, 2, 3, 4}
  ModeSet = {202, 402, 1212}
  NZs = {3}
  LevelLists = "single"
  Tabs = {1}
  Analytic = {FALSE}
  Family = "recip"
INIT Init
NEXT Next
CHECK_DEADLOCK FALSE
INVARIANT EmitV
