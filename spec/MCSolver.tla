------------------------------ MODULE MCSolver ------------------------------
(***************************************************************************)
(* State machine around Solver.tla: one solver call per behaviour, one     *)
(* action per stage of the code (the stage names are the hook events of    *)
(* bldfm/solver.py), and the properties C02 C03 C04 C06 C07 C10 C11 as     *)
(* invariants of the final state.  Each MC_*.cfg selects a family of       *)
(* configurations (Init) and the invariants that apply to it.              *)
(***************************************************************************)
EXTENDS Solver, Json

CONSTANTS
    Sizes,        \* set of grid sizes, encoded nx*100 + ny   (cfg files cannot hold tuples)
    Cells,        \* set of cell sizes in units, encoded ax*10 + ay
    Halos,        \* set of halo widths in units, 99 = None (cfg files cannot hold negative numbers)
    ModeSet,      \* set of mode requests, encoded mx*100 + my
    NZs,          \* set of node counts
    LevelLists,   \* "single" | "pairs" | "perms" | "asc"
    Tabs,         \* set of profile tables
    Analytic,     \* set of BOOLEAN
    Family        \* which Init set: "recip" "conserve" "linear" "translate" "symmetry" "levels" "shape"

VARIABLES vc, vpc, vg, vres

vars == <<vc, vpc, vg, vres>>

(******************************* enumeration ********************************)
RECURSIVE Perms(_)
Perms(S) == IF S = {} THEN {<< >>} ELSE UNION {{<<x>> \o p : p \in Perms(S \ {x})} : x \in S}
InjSeqs(nz, maxlen) == UNION {Perms(S) : S \in {T \in SUBSET (0..(nz - 1)) : T # {} /\ Cardinality(T) <= maxlen}}

\* duplicated levels are outside the properties ("any subset and any order"): candidate lists with repetitions are dropped
Distinct(S) == {l \in S : Cardinality(SeqRange(l)) = Len(l)}
LevelCandidates(nz) ==
    CASE LevelLists = "single" -> {<<nz \div 2>>, <<nz - 1>>}
      [] LevelLists = "mid"    -> {<<nz \div 2>>}
      [] LevelLists = "asc"    -> {<<nz \div 2>>, <<nz - 1>>, <<0, nz - 1>>, <<(IF nz \div 2 = 1 THEN 0 ELSE 1), nz \div 2, nz - 1>>}
      [] LevelLists = "mixed"  -> {<<nz \div 2>>, <<nz - 1>>, <<0, nz - 1>>, <<nz - 1, 1>>, <<1, nz \div 2, nz - 1>>, <<nz \div 2, 0, nz - 1, 1>>}
      [] LevelLists = "ends"   -> {<<0>>, <<nz - 1>>, <<0, nz - 1>>, <<nz - 1, 0>>}
      [] LevelLists = "pairs"  -> InjSeqs(nz, 2)
      [] LevelLists = "perms"  -> InjSeqs(nz, nz)
      [] LevelLists = "perms3" -> InjSeqs(nz, 3)

LevelChoices(nz) == Distinct(LevelCandidates(nz))

Base == [nx |-> 2, ny |-> 2, ax |-> 1, ay |-> 1, halo |-> 0, mx |-> 2, my |-> 2, xm |-> 0, ym |-> 0,
         fp |-> FALSE, an |-> FALSE, nz |-> 3, lv |-> <<1>>, src |-> <<"rnd", 1, 0>>, bg |-> 0, tab |-> 1,
         flip |-> <<1, 1, FALSE>>, prec |-> "double", emb |-> <<0, 0, 0, 0>>]

Grid == {[Base EXCEPT !.nx = s \div 100, !.ny = s % 100, !.ax = a \div 10, !.ay = a % 10, !.halo = IF h = 99 THEN -1 ELSE h, !.mx = m \div 100, !.my = m % 100,
                      !.nz = z, !.tab = t, !.an = an] :
            s \in Sizes, a \in Cells, h \in Halos, m \in ModeSet, z \in NZs, t \in Tabs, an \in Analytic}

WithLevels(S) == UNION {{[b EXCEPT !.lv = l] : l \in LevelChoices(b.nz)} : b \in S}
WithTower(S)  == UNION {{[b EXCEPT !.xm = i * b.ax, !.ym = j * b.ay] : i \in 0..(b.nx - 1), j \in 0..(b.ny - 1)} : b \in S}
WithFp(S)     == UNION {{[b EXCEPT !.fp = f] : f \in BOOLEAN} : b \in S}
\* footprint mode with a halo: the measurement point may also lie OUTSIDE the source domain, inside the padded one
\* (a tower west or south of the reference corner): one cell beyond every edge
WithTowerAround(S) == UNION {{[b EXCEPT !.xm = i * b.ax, !.ym = j * b.ay] :
                                i \in (IF b.fp /\ b.halo # 0 THEN -1 ELSE 0)..(IF b.fp /\ b.halo # 0 THEN b.nx ELSE b.nx - 1),
                                j \in (IF b.fp /\ b.halo # 0 THEN -1 ELSE 0)..(IF b.fp /\ b.halo # 0 THEN b.ny ELSE b.ny - 1)} : b \in S}

Usable(b) == LET g == Geometry(b) IN Representable(b, g) /\ g.nxe <= 10 /\ g.nye <= 10

InitSet ==
    CASE Family = "recip"     -> {b \in WithTower(WithLevels({[x EXCEPT !.fp = TRUE] : x \in Grid})) : Usable(b)}
      [] Family = "conserve"  -> {b \in WithFp(WithLevels({[x EXCEPT !.bg = 77] : x \in Grid})) : Usable(b)}
      [] Family = "linear"    -> {b \in WithFp(WithLevels(Grid)) : Usable(b)}
      [] Family = "translate" -> {b \in WithTowerAround(WithFp(WithLevels(Grid))) :
                                       Usable(b) /\ ((Geometry(b).px >= 1 /\ Geometry(b).py >= 1)
                                                     \/ (b.xm >= 0 /\ b.ym >= 0 /\ b.xm < b.nx * b.ax /\ b.ym < b.ny * b.ay))}
      [] Family = "symmetry"  -> {b \in WithFp(WithLevels(Grid)) : Usable(b)}
      [] Family = "boundary"  -> {b \in WithTower(WithFp(WithLevels(Grid))) : Usable(b) /\ (b.fp \/ (b.xm = 0 /\ b.ym = 0))}
      [] Family = "mirror"    -> {b \in WithTower(WithFp(WithLevels(Grid))) : Usable(b) /\ (b.fp \/ (b.xm = 0 /\ b.ym = 0))}
      [] Family = "levels"    -> {b \in WithFp(WithLevels({[x EXCEPT !.bg = 77] : x \in Grid})) : Usable(b)}
      [] Family = "shape"     -> {b \in WithFp(WithLevels(Grid)) : Usable(b)}

(******************************* state machine ******************************)
(* One action per hook event of bldfm/solver.py (the event name is given in  *)
(* the comment), so that a recorded trace maps one to one onto a behaviour.  *)
(* Implicit exceptions (IndexError, broadcast ValueError) have no event:    *)
(* the trace simply ends where the model takes the corresponding Fail step. *)
Init == /\ vc \in InitSet
        /\ vpc = "enter"
        /\ vg = [stage |-> "enter"]
        /\ vres = [err |-> "pending"]

Fail(kind) == /\ vpc' = "done"
              /\ vres' = [err |-> kind]
              /\ UNCHANGED <<vc, vg>>

OddModes(c) == ((c.mx % 2) # 0) \/ ((c.my % 2) # 0)

RaiseOddModes ==                                              \* event raise(kind = odd_modes)
            /\ vpc = "enter" /\ OddModes(vc) /\ Fail("odd_modes")

Pad ==      /\ vpc = "enter" /\ ~OddModes(vc)                \* event pad
            /\ LET g == Geometry(vc) IN
               vg' = [stage |-> "pad", halo |-> g.halo, px |-> g.px, py |-> g.py, nxe |-> g.nxe, nye |-> g.nye]
            /\ vpc' = "clamp"
            /\ UNCHANGED <<vc, vres>>

Clamp ==    /\ vpc = "clamp"                                  \* event clamp
            /\ LET g == Geometry(vc) IN
               vg' = [vg EXCEPT !.stage = "clamp"] @@ [nlx |-> g.nlx, nly |-> g.nly, dlx |-> g.dlx, dly |-> g.dly, clamped |-> g.clamped]
            /\ vpc' = "spectrum"
            /\ UNCHANGED <<vc, vres>>

SpectrumStage ==                                              \* event spectrum
            /\ vpc = "spectrum"
            /\ LET g == Geometry(vc) IN
               vg' = [vg EXCEPT !.stage = "spectrum"] @@ [tnx |-> IF vc.fp THEN g.nlx ELSE g.tnx, tny |-> IF vc.fp THEN g.nly ELSE g.tny]
            /\ vpc' = "modes"
            /\ UNCHANGED <<vc, vres>>

\* the Fourier summation indices of the retained modes: slot s of an axis with n retained modes carries wavenumber Freq(s, n)
ModeIndex(n) == [s \in 1..n |-> Freq(s - 1, n)]
ModesStage ==                                                 \* event modes
            /\ vpc = "modes"
            /\ vg' = [vg EXCEPT !.stage = "modes"] @@ [ilx |-> ModeIndex(vg.nlx), ily |-> ModeIndex(vg.nly)]
            /\ vpc' = "alloc"
            /\ UNCHANGED <<vc, vres>>

RaisePrecision ==                                             \* event raise(kind = precision)
            /\ vpc = "alloc" /\ vc.prec \notin {"single", "double"} /\ Fail("precision")

\* the truncated spectrum has the wrong shape: the first masked access raises IndexError (no event)
IndexError ==
            /\ vpc = "alloc" /\ vc.prec \in {"single", "double"}
            /\ ~vc.fp /\ ((vg.tnx # vg.nlx) \/ (vg.tny # vg.nly))
            /\ Fail("index")

Alloc ==    /\ vpc = "alloc" /\ vc.prec \in {"single", "double"}          \* no event
            /\ (vc.fp \/ (vg.tnx = vg.nlx /\ vg.tny = vg.nly))
            /\ vpc' = IF vc.an THEN "analytic" ELSE "threads"
            /\ UNCHANGED <<vc, vg, vres>>

AnalyticBranch ==                                             \* no event (broadcast ValueError: no event either)
            /\ vpc = "analytic"
            /\ IF ErrorOf(vc, Geometry(vc)) = "broadcast" THEN Fail("broadcast")
               ELSE vpc' = "untruncate" /\ UNCHANGED <<vc, vg, vres>>

ThreadSetup ==                                                \* event thread_setup
            /\ vpc = "threads" /\ vpc' = "sweep1" /\ UNCHANGED <<vc, vg, vres>>
Sweep1 ==   /\ vpc = "sweep1" /\ vpc' = "sweep2" /\ UNCHANGED <<vc, vg, vres>>     \* event kernel_call
Sweep2 ==   /\ vpc = "sweep2" /\ vpc' = "mean"                                   \* event kernel_call
            /\ vg' = [vg EXCEPT !.stage = "mean"] @@ [stored |-> {}]
            /\ UNCHANGED <<vc, vres>>

\* the mean-mode loop walks the nodes upward and stores a node in the slot whose level it is
NextSlot == CHOOSE k \in (1..NLv(vc)) \ vg.stored :
                \A j \in (1..NLv(vc)) \ vg.stored : SlotNode(vc, k) <= SlotNode(vc, j)
MeanStore ==                                                  \* event mean_store(node, slot)
            /\ vpc = "mean" /\ vg.stored # 1..NLv(vc)
            /\ vg' = [vg EXCEPT !.stored = @ \cup {NextSlot}]
            /\ UNCHANGED <<vc, vpc, vres>>
MeanDone == /\ vpc = "mean" /\ vg.stored = 1..NLv(vc)         \* no event
            /\ vpc' = "untruncate" /\ UNCHANGED <<vc, vg, vres>>

UntruncateStage ==                                            \* event untruncate
            /\ vpc = "untruncate"
            /\ LET g == Geometry(vc) IN
               vg' = [vg EXCEPT !.stage = "untruncate"] @@ [unx |-> g.unx, uny |-> g.uny]
            /\ vpc' = "crop"
            /\ UNCHANGED <<vc, vres>>

Crop ==     /\ vpc = "crop"                                   \* event crop
            /\ LET g == Geometry(vc) IN
               vg' = [vg EXCEPT !.stage = "crop"] @@ [onx |-> g.onx, ony |-> g.ony]
            /\ vpc' = "return"
            /\ UNCHANGED <<vc, vres>>

Return ==   /\ vpc = "return"                                 \* event return
            /\ vres' = Run(vc)
            /\ vpc' = "done"
            /\ UNCHANGED <<vc, vg>>

Next == \/ RaiseOddModes \/ Pad \/ Clamp \/ SpectrumStage \/ ModesStage \/ RaisePrecision \/ IndexError \/ Alloc
        \/ AnalyticBranch \/ ThreadSetup \/ Sweep1 \/ Sweep2 \/ MeanStore \/ MeanDone
        \/ UntruncateStage \/ Crop \/ Return

Spec == Init /\ [][Next]_vars

\* the stage-by-stage result agrees with the one-shot operator (the two presentations of the model are the same)
StagesAgree == vpc = "done" => vres.err = ErrorOf(vc, Geometry(vc))

Done == vpc = "done"
OK == Done /\ vres.err = "none"

(********************************* helpers **********************************)
G0 == Geometry(vc)
NL == NLv(vc)
RowsOf(r) == 0..(r.shape[2] - 1)
ColsOf(r) == 0..(r.shape[3] - 1)
SameFields(r1, r2) ==
    /\ r1.err = "none" /\ r2.err = "none" /\ r1.shape = r2.shape
    /\ \A k \in 1..r1.shape[1] : r1.conc[k] = r2.conc[k] /\ r1.flx[k] = r2.flx[k]
SumAll(A, ny, nx) == RSum(LAMBDA j : RSum(LAMBDA i : A[j][i], nx - 1), ny - 1)
SrcSum(c) == SumAll([j \in 0..(c.ny - 1) |-> [i \in 0..(c.nx - 1) |-> SrcVal(c, j, i)]], c.ny, c.nx)

(***************************************************************************)
(* C11  shape / error; C10 labels                                          *)
(***************************************************************************)
ShapeOrError == Done => (vres.err # "none" \/ vres.shape = <<NL, vc.ny, vc.nx>>)
ErrorsAreDeclared == Done => vres.err \in {"none", "odd_modes", "precision", "index", "broadcast"}
NoSilentBroadcast == Done /\ vc.an /\ NL > 1 => (AnalyticStyle = "outer" \/ vres.err # "none" \/ NL # G0.nmodes)
LabelsAsGiven == OK => vres.zlab = vc.lv

(***************************************************************************)
(* C02  reciprocity: footprint(m)[s] = forward(unit source at s)[m]         *)
(***************************************************************************)
Recip ==
    OK /\ vc.fp =>
        LET g  == G0
            H  == Transfer(vc, g)
            jm == vc.ym \div vc.ay
            im == vc.xm \div vc.ax
        IN  \A sj \in 0..(vc.ny - 1), si \in 0..(vc.nx - 1) :
                LET d  == [vc EXCEPT !.fp = FALSE, !.xm = 0, !.ym = 0, !.src = <<"unit", sj, si>>, !.bg = 0]
                    rd == RunH(d, g, H)
                IN  rd.err = "none" =>
                        \A k \in 1..NL : /\ vres.flx[k][sj][si] = rd.flx[k][jm][im]
                                         /\ vres.conc[k][sj][si] = rd.conc[k][jm][im]

(***************************************************************************)
(* C03  conservation (halo = 0: the whole periodic domain is returned)      *)
(***************************************************************************)
MeanFlux ==
    OK /\ vc.halo = 0 =>
        \A k \in 1..NL : SumAll(vres.flx[k], vc.ny, vc.nx) = (IF vc.fp THEN 1 ELSE SrcSum(vc))
MeanConc ==
    OK /\ vc.halo = 0 =>
        \A k \in 1..NL :
            LET R == IF vc.an THEN RMul(RInv(ProfKz(vc, vc.nz - 1)), HeightAbove(vc, vc.lv[k])) ELSE Resist(vc, vc.lv[k])
            IN  SumAll(vres.conc[k], vc.ny, vc.nx) =
                    RSub(RMul((vc.nx * vc.ny) % P, vc.bg), RMul(R, IF vc.fp THEN 1 ELSE SrcSum(vc)))
\* a halo is the caller padding the source by whole cells, enlarging the domain and cropping
HaloIsPadding ==
    OK /\ vc.halo # 0 /\ (vc.fp \/ (vc.xm = 0 /\ vc.ym = 0)) =>
        LET g == G0
            e == [vc EXCEPT !.nx = g.nxe, !.ny = g.nye, !.halo = 0,
                            !.emb = <<g.py, g.px, vc.ny, vc.nx>>,
                            !.xm = IF vc.fp THEN vc.xm + (g.px * vc.ax) ELSE 0,
                            !.ym = IF vc.fp THEN vc.ym + (g.py * vc.ay) ELSE 0]
            re == Run(e)
        IN  /\ re.err = "none"
            /\ \A k \in 1..NL, j \in 0..(vc.ny - 1), i \in 0..(vc.nx - 1) :
                  /\ vres.flx[k][j][i] = re.flx[k][j + g.py][i + g.px]
                  /\ vres.conc[k][j][i] = re.conc[k][j + g.py][i + g.px]

(***************************************************************************)
(* C04  linearity                                                           *)
(***************************************************************************)
Superposition ==
    OK /\ ~vc.fp =>
        LET g  == G0
            H  == Transfer(vc, g)
            r1 == RunH([vc EXCEPT !.src = <<"rnd", 1, 0>>, !.bg = 5], g, H)
            r2 == RunH([vc EXCEPT !.src = <<"rnd", 2, 0>>, !.bg = 9], g, H)
        IN  \A ab \in {<<1, 1>>, <<2, P - 1>>, <<P - 3, 7>>} :
                LET rc == RunH([vc EXCEPT !.src = <<"comb", ab[1], ab[2]>>, !.bg = RAdd(RMul(ab[1], 5), RMul(ab[2], 9))], g, H)
                IN  \A k \in 1..NL, j \in 0..(vc.ny - 1), i \in 0..(vc.nx - 1) :
                      /\ rc.flx[k][j][i] = RAdd(RMul(ab[1], r1.flx[k][j][i]), RMul(ab[2], r2.flx[k][j][i]))
                      /\ rc.conc[k][j][i] = RAdd(RMul(ab[1], r1.conc[k][j][i]), RMul(ab[2], r2.conc[k][j][i]))
BackgroundOnlyOffsetsConc ==
    OK =>
        LET g  == G0
            H  == Transfer(vc, g)
            rb == RunH([vc EXCEPT !.bg = RAdd(vc.bg, 1000)], g, H)
        IN  \A k \in 1..NL, j \in 0..(vc.ny - 1), i \in 0..(vc.nx - 1) :
              /\ rb.flx[k][j][i] = vres.flx[k][j][i]
              /\ rb.conc[k][j][i] = RAdd(vres.conc[k][j][i], 1000)
FootprintIgnoresValues ==
    OK /\ vc.fp => SameFields(vres, Run([vc EXCEPT !.src = <<"rnd", 2, 0>>]))

(***************************************************************************)
(* C06  translation equivariance (halo = 0)                                 *)
(***************************************************************************)
\* the tower cell of the family doubles as the shift (dj, di)
ShiftJ == vc.ym \div vc.ay
ShiftI == vc.xm \div vc.ax
TranslateSource ==
    OK /\ ~vc.fp /\ vc.halo = 0 =>
        LET g  == G0
            H  == Transfer(vc, g)
            c0 == [vc EXCEPT !.xm = 0, !.ym = 0]
            r0 == RunH(c0, g, H)
            \* rolled source: q'[j][i] = q[j - dj][i - di]
            r1 == RunH([c0 EXCEPT !.src = <<"roll", ShiftJ, ShiftI>>], g, H)
        IN  \A k \in 1..NL, j \in 0..(vc.ny - 1), i \in 0..(vc.nx - 1) :
              /\ r1.flx[k][j][i] = r0.flx[k][((j + vc.ny) - ShiftJ) % vc.ny][((i + vc.nx) - ShiftI) % vc.nx]
              /\ r1.conc[k][j][i] = r0.conc[k][((j + vc.ny) - ShiftJ) % vc.ny][((i + vc.nx) - ShiftI) % vc.nx]
TranslateTower ==
    OK /\ vc.fp /\ vc.halo = 0 =>
        LET g  == G0
            H  == Transfer(vc, g)
            r0 == RunH([vc EXCEPT !.xm = 0, !.ym = 0], g, H)
        IN  \A k \in 1..NL, j \in 0..(vc.ny - 1), i \in 0..(vc.nx - 1) :
              /\ vres.flx[k][j][i] = r0.flx[k][((j + vc.ny) - ShiftJ) % vc.ny][((i + vc.nx) - ShiftI) % vc.nx]
              /\ vres.conc[k][j][i] = r0.conc[k][((j + vc.ny) - ShiftJ) % vc.ny][((i + vc.nx) - ShiftI) % vc.nx]
PointReflect ==
    OK /\ vc.fp /\ vc.halo = 0 =>
        LET g  == G0
            H  == Transfer(vc, g)
            rd == RunH([vc EXCEPT !.fp = FALSE, !.xm = 0, !.ym = 0, !.src = <<"unit", ShiftJ, ShiftI>>, !.bg = 0], g, H)
        IN  rd.err = "none" =>
            \A k \in 1..NL, j \in 0..(vc.ny - 1), i \in 0..(vc.nx - 1) :
              /\ vres.flx[k][j][i] = rd.flx[k][(((2 * ShiftJ) + vc.ny) - j) % vc.ny][(((2 * ShiftI) + vc.nx) - i) % vc.nx]
              /\ vres.conc[k][j][i] = RAdd(rd.conc[k][(((2 * ShiftJ) + vc.ny) - j) % vc.ny][(((2 * ShiftI) + vc.nx) - i) % vc.nx], vc.bg)
\* With a halo the cropped output is a window of the padded periodic domain: the same relations hold between all pairs
\* of cells that both lie inside the window (no wrap-around is visible).
InWin(j, i) == j >= 0 /\ j < vc.ny /\ i >= 0 /\ i < vc.nx
TranslateTowerIn ==
    OK /\ vc.fp /\ vc.halo # 0 =>
        LET g  == G0
            H  == Transfer(vc, g)
            r0 == RunH([vc EXCEPT !.xm = 0, !.ym = 0], g, H)
        IN  \A k \in 1..NL, j \in 0..(vc.ny - 1), i \in 0..(vc.nx - 1) :
              InWin(j - ShiftJ, i - ShiftI) =>
                  /\ vres.flx[k][j][i] = r0.flx[k][j - ShiftJ][i - ShiftI]
                  /\ vres.conc[k][j][i] = r0.conc[k][j - ShiftJ][i - ShiftI]
PointReflectIn ==
    OK /\ vc.fp /\ vc.halo # 0 =>
        LET g  == G0
            H  == Transfer(vc, g)
            rd == RunH([vc EXCEPT !.fp = FALSE, !.xm = 0, !.ym = 0, !.src = <<"unit", ShiftJ, ShiftI>>, !.bg = 0], g, H)
        IN  (rd.err = "none" /\ InWin(ShiftJ, ShiftI)) =>
            \A k \in 1..NL, j \in 0..(vc.ny - 1), i \in 0..(vc.nx - 1) :
              InWin((2 * ShiftJ) - j, (2 * ShiftI) - i) =>
                  /\ vres.flx[k][j][i] = rd.flx[k][(2 * ShiftJ) - j][(2 * ShiftI) - i]
                  /\ vres.conc[k][j][i] = RAdd(rd.conc[k][(2 * ShiftJ) - j][(2 * ShiftI) - i], vc.bg)
\* dispersion mode: a non-zero measurement point re-centres the output (even sizes: the centre is a grid point)
Recentre ==
    OK /\ ~vc.fp /\ vc.halo = 0 /\ (vc.xm # 0 \/ vc.ym # 0) /\ (vc.nx % 2) = 0 /\ (vc.ny % 2) = 0 =>
        LET g  == G0
            H  == Transfer(vc, g)
            r0 == RunH([vc EXCEPT !.xm = 0, !.ym = 0], g, H)
        IN  \A k \in 1..NL, j \in 0..(vc.ny - 1), i \in 0..(vc.nx - 1) :
              /\ vres.flx[k][j][i] = r0.flx[k][(((j + ShiftJ) + vc.ny) - (vc.ny \div 2)) % vc.ny][(((i + ShiftI) + vc.nx) - (vc.nx \div 2)) % vc.nx]
              /\ vres.conc[k][j][i] = r0.conc[k][(((j + ShiftJ) + vc.ny) - (vc.ny \div 2)) % vc.ny][(((i + ShiftI) + vc.nx) - (vc.nx \div 2)) % vc.nx]

(***************************************************************************)
(* C07  reflections and axis swap (halo = 0).  The identities hold for all  *)
(* spectral components except the unpaired (Nyquist) one of an even         *)
(* truncated spectrum; the model derives that exemption set: DiffSupport    *)
(* is the set of output wavenumbers on which the two sides differ.          *)
(***************************************************************************)
SpecOf(A, ny, nx) == DFT2(A, ny, nx, -1)
NyqX(c, g) == IF (g.nlx % 2) = 0 THEN {(g.nlx \div 2) % g.nxe, (g.nxe - (g.nlx \div 2)) % g.nxe} ELSE {}
NyqY(c, g) == IF (g.nly % 2) = 0 THEN {(g.nly \div 2) % g.nye, (g.nye - (g.nly \div 2)) % g.nye} ELSE {}
MirrorX ==
    OK /\ vc.halo = 0 /\ (vc.xm = 0 /\ vc.ym = 0) =>
        LET g  == G0
            m  == [vc EXCEPT !.src = <<"mirx", vc.src[2], 0>>, !.flip = <<-1, 1, FALSE>>]
            rm == Run(m)
        IN  \A k \in 1..NL :
              \A w \in 1..2 :
                LET A  == IF w = 1 THEN vres.conc[k] ELSE vres.flx[k]
                    B  == IF w = 1 THEN rm.conc[k] ELSE rm.flx[k]
                    D  == Arr2(vc.ny, vc.nx, LAMBDA j, i : RSub(B[j][i], A[j][(vc.nx - i) % vc.nx]))
                    SD == SpecOf(D, vc.ny, vc.nx)
                IN  \A l \in 0..(vc.ny - 1), kk \in 0..(vc.nx - 1) : SD[l][kk] # 0 => kk \in NyqX(vc, g) \/ l \in NyqY(vc, g)
MirrorY ==
    OK /\ vc.halo = 0 /\ (vc.xm = 0 /\ vc.ym = 0) =>
        LET g  == G0
            m  == [vc EXCEPT !.src = <<"miry", vc.src[2], 0>>, !.flip = <<1, -1, FALSE>>]
            rm == Run(m)
        IN  \A k \in 1..NL :
              \A w \in 1..2 :
                LET A  == IF w = 1 THEN vres.conc[k] ELSE vres.flx[k]
                    B  == IF w = 1 THEN rm.conc[k] ELSE rm.flx[k]
                    D  == Arr2(vc.ny, vc.nx, LAMBDA j, i : RSub(B[j][i], A[(vc.ny - j) % vc.ny][i]))
                    SD == SpecOf(D, vc.ny, vc.nx)
                IN  \A l \in 0..(vc.ny - 1), kk \in 0..(vc.nx - 1) : SD[l][kk] # 0 => kk \in NyqX(vc, g) \/ l \in NyqY(vc, g)
\* Reflection about the centre of the domain, i -> nx-1-i (a mirror followed by a one-cell shift), holds for ANY halo on
\* the cropped output - but exactly only when the retained spectrum of that axis has no unpaired component (odd count:
\* an odd padded size with all modes kept).  Source reflected, wind component negated, tower cell reflected.
MirrorCentreX ==
    OK /\ (G0.nlx % 2) = 1 =>
        LET m  == [vc EXCEPT !.src = <<"mircx", vc.src[2], 0>>, !.flip = <<-1, 1, FALSE>>,
                             !.xm = IF vc.fp THEN ((vc.nx - 1) * vc.ax) - vc.xm ELSE 0]
            rm == Run(m)
        IN  /\ rm.err = "none"
            /\ \A k \in 1..NL, j \in 0..(vc.ny - 1), i \in 0..(vc.nx - 1) :
                  /\ rm.flx[k][j][i] = vres.flx[k][j][(vc.nx - 1) - i]
                  /\ rm.conc[k][j][i] = vres.conc[k][j][(vc.nx - 1) - i]
MirrorCentreY ==
    OK /\ (G0.nly % 2) = 1 =>
        LET m  == [vc EXCEPT !.src = <<"mircy", vc.src[2], 0>>, !.flip = <<1, -1, FALSE>>,
                             !.ym = IF vc.fp THEN ((vc.ny - 1) * vc.ay) - vc.ym ELSE 0]
            rm == Run(m)
        IN  /\ rm.err = "none"
            /\ \A k \in 1..NL, j \in 0..(vc.ny - 1), i \in 0..(vc.nx - 1) :
                  /\ rm.flx[k][j][i] = vres.flx[k][(vc.ny - 1) - j][i]
                  /\ rm.conc[k][j][i] = vres.conc[k][(vc.ny - 1) - j][i]
Transpose ==
    OK /\ vc.halo = 0 =>
        LET t  == [vc EXCEPT !.nx = vc.ny, !.ny = vc.nx, !.ax = vc.ay, !.ay = vc.ax, !.mx = vc.my, !.my = vc.mx,
                             !.xm = vc.ym, !.ym = vc.xm, !.flip = <<1, 1, TRUE>>,
                             !.src = IF vc.src[1] = "rnd" THEN <<"rndT", vc.src[2], 0>> ELSE vc.src]
            rt == Run(t)
        IN  /\ rt.err = "none"
            /\ \A k \in 1..NL, j \in 0..(vc.ny - 1), i \in 0..(vc.nx - 1) :
                  /\ rt.flx[k][i][j] = vres.flx[k][j][i]
                  /\ rt.conc[k][i][j] = vres.conc[k][j][i]

(***************************************************************************)
(* C10  every slot is the single-level solve of the level that labels it    *)
(***************************************************************************)
SlotIsSingle ==
    OK =>
        \A k \in 1..NL :
            LET rs == Run([vc EXCEPT !.lv = <<vc.lv[k]>>])
            IN  /\ rs.err = "none"
                /\ rs.flx[1] = vres.flx[k]
                /\ rs.conc[1] = vres.conc[k]
                /\ rs.zlab[1] = vres.zlab[k]
FullColumnSlice ==
    OK =>
        LET rf == Run([vc EXCEPT !.lv = [n \in 1..vc.nz |-> n - 1]])
        IN  rf.err = "none" /\ \A k \in 1..NL : rf.flx[vc.lv[k] + 1] = vres.flx[k] /\ rf.conc[vc.lv[k] + 1] = vres.conc[k]

(***************************************************************************)
(* C11  low-pass and clamp                                                  *)
(***************************************************************************)
\* with fewer modes, components strictly inside the cut-off are unchanged, strictly beyond it vanish
AbsFreq(s, n) == LET f == Freq(s, n) IN IF f < 0 THEN -f ELSE f
LowPass ==
    OK /\ vc.halo = 0 /\ ((vc.xm = 0 /\ vc.ym = 0) \/ vc.fp) /\ ~G0.clamped =>
        LET g  == G0
            rf == Run([vc EXCEPT !.mx = g.nxe + (g.nxe % 2) + 2, !.my = g.nye + (g.nye % 2) + 2])   \* all modes (clamped)
        IN  rf.err = "none" =>
            \A k \in 1..NL : \A w \in 1..2 :
                LET SA == SpecOf(IF w = 1 THEN vres.conc[k] ELSE vres.flx[k], vc.ny, vc.nx)
                    SB == SpecOf(IF w = 1 THEN rf.conc[k] ELSE rf.flx[k], vc.ny, vc.nx)
                IN  \A l \in 0..(vc.ny - 1), kk \in 0..(vc.nx - 1) :
                      /\ ((2 * AbsFreq(kk, vc.nx)) < g.nlx /\ (2 * AbsFreq(l, vc.ny)) < g.nly) => SA[l][kk] = SB[l][kk]
                      /\ ((2 * AbsFreq(kk, vc.nx)) > g.nlx \/ (2 * AbsFreq(l, vc.ny)) > g.nly) => SA[l][kk] = 0
\* more modes than the padded grid holds = exactly as many as it holds (when that request is accepted: even sizes)
ClampEq ==
    OK /\ G0.clamped /\ vc.mx > G0.nxe /\ vc.my > G0.nye /\ (G0.nxe % 2) = 0 /\ (G0.nye % 2) = 0 =>
        SameFields(vres, Run([vc EXCEPT !.mx = G0.nxe, !.my = G0.nye]))

(***************************************************************************)
(* Boundary conditions (beyond the listed properties; halo = 0).            *)
(* Surface: the flux at node 0 IS the prescribed surface flux, low-passed   *)
(* to the retained modes - with all modes kept, cell by cell the source     *)
(* (dispersion) or the unit impulse at the tower cell (footprint).          *)
(* Top: at the top node every retained non-mean, paired mode satisfies the  *)
(* radiation condition q^ = Kz * beta * p^ that the shooting combination    *)
(* is there to enforce (numerical branch) / that the closed form has        *)
(* (analytic branch).                                                       *)
(***************************************************************************)
SlotOf(node) == CHOOSE k \in 1..NL : vc.lv[k] = node
SurfaceBC ==
    (OK /\ vc.halo = 0 /\ G0.clamped /\ 0 \in SeqRange(vc.lv)) =>
        LET k == SlotOf(0) IN
        \A j \in 0..(vc.ny - 1), i \in 0..(vc.nx - 1) :
            vres.flx[k][j][i] = (IF vc.fp THEN (IF j = ShiftJ /\ i = ShiftI THEN 1 ELSE 0) ELSE SrcVal(vc, j, i))
TopBC ==
    (OK /\ vc.halo = 0 /\ G0.clamped /\ ~vc.fp /\ (vc.nz - 1) \in SeqRange(vc.lv)) =>
        LET g  == G0
            k  == SlotOf(vc.nz - 1)
            SP == SpecOf(vres.conc[k], vc.ny, vc.nx)
            SQ == SpecOf(vres.flx[k], vc.ny, vc.nx)
        IN  \A l \in 0..(vc.ny - 1), kk \in 0..(vc.nx - 1) :
              ((l # 0 \/ kk # 0) /\ kk \notin NyqX(vc, g) /\ l \notin NyqY(vc, g)) =>
                  SQ[l][kk] = CMul(CScale(ProfKz(vc, vc.nz - 1), BetaOf(vc, Lx(vc, g, kk), Ly(vc, g, l))), SP[l][kk])

(***************************************************************************)
(* the denominators of the shooting combination were invertible             *)
(***************************************************************************)
RegularRun == OK => Regular(vc, G0, Transfer(vc, G0))

(******************************* emission ***********************************)
\* one line per final state for the replay harness: the configuration and the model's prediction
EmitRec == [nx |-> vc.nx, ny |-> vc.ny, ax |-> vc.ax, ay |-> vc.ay, halo |-> vc.halo, mx |-> vc.mx, my |-> vc.my,
            xm |-> vc.xm, ym |-> vc.ym, fp |-> vc.fp, an |-> vc.an, nz |-> vc.nz, lv |-> vc.lv, tab |-> vc.tab,
            err |-> vres.err, shape |-> IF vres.err = "none" THEN vres.shape ELSE <<0, 0, 0>>,
            geom |-> vg, nyqx |-> NyqX(vc, G0), nyqy |-> NyqY(vc, G0)]
Emit == Done => PrintT("@@" \o ToJson(EmitRec))

\* the same line with the truth value of each invariant of the family instead of checking it: used with the
\* deviation switches of the pinned commit to compare the model's failure set with the real code's
Verdicts ==
    LET S == ShapeOrError IN
    CASE Family = "recip"     -> [ShapeOrError |-> S, Recip |-> S /\ Recip]
      [] Family = "conserve"  -> [ShapeOrError |-> S, MeanFlux |-> S /\ MeanFlux, MeanConc |-> S /\ MeanConc, HaloIsPadding |-> S /\ HaloIsPadding]
      [] Family = "linear"    -> [ShapeOrError |-> S, Superposition |-> S /\ Superposition,
                                  BackgroundOnlyOffsetsConc |-> S /\ BackgroundOnlyOffsetsConc,
                                  FootprintIgnoresValues |-> S /\ FootprintIgnoresValues]
      [] Family = "translate" -> [ShapeOrError |-> S, TranslateSource |-> S /\ TranslateSource, TranslateTower |-> S /\ TranslateTower,
                                  PointReflect |-> S /\ PointReflect, Recentre |-> S /\ Recentre,
                                  TranslateTowerIn |-> S /\ TranslateTowerIn, PointReflectIn |-> S /\ PointReflectIn]
      [] Family = "symmetry"  -> [ShapeOrError |-> S, MirrorX |-> S /\ MirrorX, MirrorY |-> S /\ MirrorY, Transpose |-> S /\ Transpose]
      [] Family = "boundary"  -> [ShapeOrError |-> S, SurfaceBC |-> S /\ SurfaceBC, TopBC |-> S /\ TopBC]
      [] Family = "mirror"    -> [ShapeOrError |-> S, MirrorCentreX |-> S /\ MirrorCentreX, MirrorCentreY |-> S /\ MirrorCentreY]
      [] Family = "levels"    -> [ShapeOrError |-> S, SlotIsSingle |-> S /\ SlotIsSingle, FullColumnSlice |-> S /\ FullColumnSlice,
                                  NoSilentBroadcast |-> NoSilentBroadcast]
      [] Family = "shape"     -> [ShapeOrError |-> S, LowPass |-> S /\ LowPass, ClampEq |-> S /\ ClampEq, HaloIsPadding |-> S /\ HaloIsPadding]
EmitV == Done => PrintT("@@" \o ToJson(EmitRec @@ [verdicts |-> Verdicts]))

=============================================================================
