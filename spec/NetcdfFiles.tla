---------------------------- MODULE NetcdfFiles ----------------------------
(***************************************************************************)
(* Histories of save_footprints_to_netcdf / load_footprints_from_netcdf     *)
(* over file paths (bldfm/io.py).  NetcdfIO.tla says what one save puts     *)
(* where; this module says what a LOAD returns after any history of saves   *)
(* and loads in one process: the result set most recently saved under that  *)
(* path - nothing of an earlier save or load may survive in the process.    *)
(*                                                                         *)
(* A result set is identified by its generation number (every save writes   *)
(* a new, different set).                                                   *)
(* Deviation switch  LoadStyle: "read" | "memo" (datasets memoised by path) *)
(***************************************************************************)
EXTENDS Integers, Sequences, FiniteSets, TLC, Json

CONSTANTS Paths, MaxOps, LoadStyle

VARIABLES vfs,      \* path -> generation on disk (0 = no file)
          vmemo,    \* path -> generation held in the process (memo style only; 0 = nothing)
          vgen,     \* generations handed out so far
          vhist     \* operations so far: [op, path, gen] (for a load: the generation returned, -1 = FileNotFoundError)
fvars == <<vfs, vmemo, vgen, vhist>>

Init == vfs = [p \in Paths |-> 0] /\ vmemo = [p \in Paths |-> 0] /\ vgen = 0 /\ vhist = << >>

Save(p) == /\ Len(vhist) < MaxOps
           /\ vgen' = vgen + 1
           /\ vfs' = [vfs EXCEPT ![p] = vgen + 1]
           /\ vhist' = Append(vhist, [op |-> "save", path |-> p, gen |-> vgen + 1])
           /\ UNCHANGED vmemo
Load(p) == /\ Len(vhist) < MaxOps
           /\ LET got == IF vfs[p] = 0 THEN -1
                         ELSE IF LoadStyle = "memo" /\ vmemo[p] # 0 THEN vmemo[p] ELSE vfs[p] IN
              /\ vhist' = Append(vhist, [op |-> "load", path |-> p, gen |-> got])
              /\ vmemo' = IF got > 0 THEN [vmemo EXCEPT ![p] = got] ELSE vmemo
           /\ UNCHANGED <<vfs, vgen>>
Next == \E p \in Paths : Save(p) \/ Load(p)
Spec == Init /\ [][Next]_fvars

\* what a load must return: the generation of the last save to that path before it
LastSaved(k) == LET prior == {j \in 1..(k - 1) : vhist[j].op = "save" /\ vhist[j].path = vhist[k].path} IN
                IF prior = {} THEN -1 ELSE vhist[CHOOSE j \in prior : \A i \in prior : i <= j].gen
LoadReturnsLastSaved == \A k \in 1..Len(vhist) : vhist[k].op = "load" => vhist[k].gen = LastSaved(k)

Emit == Len(vhist) = MaxOps => PrintT("@@" \o ToJson([hist |-> vhist]))
=============================================================================
