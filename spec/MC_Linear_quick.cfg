\* C04 linearity in (source, background) -- quick
CONSTANTS
  ShiftStyle = "pad" LevelStyle = "match" TruncStyle = "exact" AnalyticStyle = "outer" BCubic = "plus"
  Sizes = {302, 403}
  Cells = {23}
  Halos = {99, 0, 2, 3}
  ModeSet = {202, 1212}
  NZs = {3}
  LevelLists = "asc"
  Tabs = {1}
  Analytic = {FALSE, TRUE}
  Family = "linear"
INIT Init
NEXT Next
CHECK_DEADLOCK FALSE
INVARIANT StagesAgree
INVARIANT ShapeOrError
INVARIANT Superposition
INVARIANT BackgroundOnlyOffsetsConc
INVARIANT FootprintIgnoresValues
INVARIANT Emit
