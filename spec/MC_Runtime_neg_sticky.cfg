\* negative control: a manager that keeps its first thread count - Pure must be violated
CONSTANTS
  ThreadCounts = {1, 2, 4, 8}
  MaxOps = 4
  StickyManager = TRUE
INIT Init
NEXT Next
VIEW View
CHECK_DEADLOCK FALSE
INVARIANT Pure
INVARIANT ManagerSingleAfterSolve
INVARIANT KernelMatchesSetting
INVARIANT NumbaFollowsSetting
PROPERTY WisdomTolerant
