\* C07 reflection about the domain centre with a halo (odd retained mode counts) -- thorough
CONSTANTS
  ShiftStyle = "pad" LevelStyle = "match" TruncStyle = "exact" AnalyticStyle = "outer" BCubic = "plus"
  Sizes = {302, 303, 502, 305}
  Cells = {11, 23}
  Halos = {99, 0, 1, 2, 3}
  ModeSet = {1212, 402}
  NZs = {3}
  LevelLists = "single"
  Tabs = {1, 2}
  Analytic = {FALSE, TRUE}
  Family = "mirror"
INIT Init
NEXT Next
CHECK_DEADLOCK FALSE
INVARIANT StagesAgree
INVARIANT ShapeOrError
INVARIANT MirrorCentreX
INVARIANT MirrorCentreY
INVARIANT Emit
