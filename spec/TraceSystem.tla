----------------------------- MODULE TraceSystem -----------------------------
(***************************************************************************)
(* Trace validation of a parallel run with caching on against the          *)
(* composition System.tla: the per-process event sequences of all worker   *)
(* processes must interleave into a behaviour of the composed              *)
(* specification - pool order, reset of the inherited state, the thread    *)
(* counts logged at thread_setup / mgr_create, lookups that see exactly    *)
(* what the shared directory holds at that moment, hits only on entries    *)
(* nobody is writing, in-place stores - and the assembled result must have *)
(* the keys and lengths the parent logged.                                 *)
(* TR == [procs : <<per-process event sequences>>, keys, lens, initfull]   *)
(* event: [e, tower, step, thr, exists, mgr, fftw]                         *)
(***************************************************************************)
EXTENDS System, IOUtils

TR == JsonDeserialize(IOEnv.TRACE_FILE)
VARIABLE vpos
tsv == <<vnext, vbusy, vwpc, vthr, vmgr, vfftw, vstep, vval, vhit, vffts, vacc, vstore, vwriters, vout, vpcs, vresults, vpos>>

NP == Len(TR.procs)
Ev(w, o) == TR.procs[w][vpos[w] + o]
Has(w, o, name) == w <= NP /\ vpos[w] + o <= Len(TR.procs[w]) /\ Ev(w, o).e = name
Adv(w, n) == vpos' = [vpos EXCEPT ![w] = @ + n]
Consumed == \A w \in 1..NP : vpos[w] = Len(TR.procs[w])

TInit == /\ Init /\ vpos = [w \in Workers |-> 0]
\* a second pass over a directory that already holds every entry
TInitFull == /\ vnext = 1 /\ vbusy = [w \in Workers |-> 0] /\ vwpc = [w \in Workers |-> "idle"]
             /\ vthr = [w \in Workers |-> ParentThreads] /\ vmgr = [w \in Workers |-> 1] /\ vfftw = [w \in Workers |-> 1]
             /\ vstep = [w \in Workers |-> 0] /\ vval = [w \in Workers |-> NoFields] /\ vhit = [w \in Workers |-> FALSE]
             /\ vffts = [w \in Workers |-> << >>] /\ vacc = [w \in Workers |-> << >>]
             /\ vstore = [k \in Keys |-> [st |-> "complete", val |-> <<k[1], k[2], 1>>]] /\ vwriters = [k \in Keys |-> {}]
             /\ vout = [i \in 1..NTasks |-> << >>] /\ vpcs = "run" /\ vresults = << >>
             /\ vpos = [w \in Workers |-> 0]
TraceInit == IF TR.initfull THEN TInitFull ELSE TInit

TTakeInit(w) == /\ Has(w, 1, "init") /\ TakeInit(w) /\ Adv(w, 1)
                /\ TaskList[vnext] = <<Ev(w, 1).tower, Ev(w, 1).step>>
                /\ Ev(w, 1).thr = vthr'[w]
TBegin(w) ==    /\ Has(w, 1, "begin") /\ Begin(w) /\ Adv(w, 1)
                /\ Ev(w, 1).tower = Tower(w) /\ Ev(w, 1).step = vstep'[w]
TLookupHit(w) == /\ Has(w, 1, "get") /\ Has(w, 2, "hit") /\ Lookup(w) /\ Adv(w, 2)
                 /\ Ev(w, 1).exists /\ vhit'[w]
TLookupMiss(w) == /\ Has(w, 1, "get") /\ ~Has(w, 2, "hit") /\ Lookup(w) /\ Adv(w, 1)
                  /\ Ev(w, 1).exists = Exists(Key(Tower(w), vstep[w])) /\ ~vhit'[w]
\* thread set-up: a manager is created iff the model creates one, with the model's thread counts
Created(w) == vmgr'[w] # vmgr[w]
TThreads(w) ==  /\ Threads(w)
                /\ IF Created(w)
                   THEN /\ Has(w, 1, "mgr_create") /\ Ev(w, 1).thr = vmgr'[w] /\ Has(w, 2, "thread_setup")
                        /\ Ev(w, 2).thr = vthr[w] /\ Ev(w, 2).mgr = vmgr'[w] /\ Ev(w, 2).fftw = vfftw'[w] /\ Adv(w, 2)
                   ELSE /\ Has(w, 1, "thread_setup")
                        /\ Ev(w, 1).thr = vthr[w] /\ Ev(w, 1).mgr = vmgr'[w] /\ Ev(w, 1).fftw = vfftw'[w] /\ Adv(w, 1)
TKernel(w) ==   /\ Has(w, 1, "kernel") /\ Has(w, 2, "kernel") /\ Kernel(w) /\ Adv(w, 2)
                /\ Ev(w, 1).thr = (IF vthr[w] > 1 THEN 1 ELSE 0)          \* the kernel variant follows the (reset) thread setting
TFinal(w) ==    /\ Final(w)
                /\ IF Created(w) THEN Has(w, 1, "mgr_create") /\ Ev(w, 1).thr = 1 /\ Has(w, 2, "return") /\ Adv(w, 2)
                   ELSE Has(w, 1, "return") /\ Adv(w, 1)
TPutBegin(w) == Has(w, 1, "put_begin") /\ PutBegin(w) /\ Adv(w, 1)
TPutCommit(w) == Has(w, 1, "put_end") /\ PutCommit(w) /\ Adv(w, 1)
TEnd(w) ==      /\ Has(w, 1, "end") /\ End(w) /\ Adv(w, 1)
                /\ Ev(w, 1).tower = Tower(w) /\ Ev(w, 1).step = vstep[w]
TFinish(w) ==   Finish(w) /\ UNCHANGED vpos /\ (vpos[w] = Len(TR.procs[w]) \/ Has(w, 1, "init"))
TAssemble ==    Assemble /\ Consumed /\ UNCHANGED vpos

TNext == (\E w \in Workers : TTakeInit(w) \/ TBegin(w) \/ TLookupHit(w) \/ TLookupMiss(w) \/ TThreads(w) \/ TKernel(w) \/ TFinal(w)
                             \/ TPutBegin(w) \/ TPutCommit(w) \/ TEnd(w) \/ TFinish(w)) \/ TAssemble

Report == vpcs = "done" => PrintT("@@" \o ToJson([done |-> TRUE, keys_ok |-> (TR.keys = [i \in 1..NT |-> i] /\ TR.lens = [i \in 1..NT |-> NS])]))
View3 == <<vnext, vbusy, vwpc, vthr, vmgr, vfftw, vstep, vval, vhit, vacc, vstore, vwriters, vout, vpcs, vresults, vpos>>
=============================================================================
