\* C17: tower geolocation on a lattice of offsets (exact rational equirectangular maps)
CONSTANTS
  InvCos = "ref"
  Axes = "xy"
  Fill = "own"
INIT Init
NEXT FillTowers
CHECK_DEADLOCK FALSE
INVARIANT RoundTripLL
INVARIANT RoundTripXY
INVARIANT Oriented
INVARIANT OwnPosition
INVARIANT Scale
INVARIANT Emit
