\* negative control: only directions above 270 are wrapped
CONSTANTS
  HalfWindows = {44}
  WrapStyle = "one_sided"
  Rotations = {90}
INIT Init
NEXT Body
CHECK_DEADLOCK FALSE
INVARIANT EveryObservationOnce
INVARIANT WindowIsCircular
INVARIANT RotationInvariant
INVARIANT BinInside
