\* negative control: (time, tower) placement transposed - SelReturnsOwn must be violated
CONSTANTS MaxT = 4 MaxS = 4 MaxL = 3 Place = "ti_t" MetaOrder = "config"
INIT Init
NEXT Next
CHECK_DEADLOCK FALSE
INVARIANT SelReturnsOwn
INVARIANT NothingLeftEmpty
INVARIANT MetaOwn
INVARIANT MetPerStep
