\* C19 thorough bounds
CONSTANTS
  Bounds = "thorough"
  RotSense = "code"
  RowOrder = "topdown"
  UpwindTest = "gt"
INIT Init
NEXT Next
CHECK_DEADLOCK FALSE
INVARIANT CellByCell
INVARIANT ZeroDownwind
INVARIANT SymmetricAboutAxis
INVARIANT Coordinates
INVARIANT RotationAboutReceptor
INVARIANT StagesAgree
INVARIANT Periodic
INVARIANT Emit
