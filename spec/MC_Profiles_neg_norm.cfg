\* negative control: profile scaled by um instead of the speed
CONSTANTS
  Bounds = "quick"
  InvStyle = "code"
  GridStep = "zm_over_n"
  WindNorm = "um"
INIT Init
NEXT Next
CHECK_DEADLOCK FALSE
INVARIANT ErrorsAsDeclared
INVARIANT GridIndex
INVARIANT WindAtZm
INVARIANT DirectionConstant
INVARIANT SpeedIncreases
INVARIANT KPositive
INVARIANT RoundTrip
