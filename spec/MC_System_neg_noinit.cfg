\* negative control: workers keep the inherited thread setting - the entries (and the cache) hold multi-thread results
CONSTANTS
  NT = 2 NS = 2 NW = 2
  Strategy = "both" ParentThreads = 4 UseCache = TRUE RepeatStep = 2 CatchLoad = TRUE WorkerInit = FALSE
INIT Init
NEXT Next
CHECK_DEADLOCK FALSE
INVARIANT EachIsSingle
INVARIANT HitsAreRight
INVARIANT NeverFatal
INVARIANT WorkerFFTsSingle
INVARIANT WorkerSolvesReset
