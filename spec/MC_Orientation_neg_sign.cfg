\* negative control: direction treated as blown-to - Cardinals must be violated
CONSTANTS SinCos = "ok" WindSign = "to" Mode = "enumerate"
INIT Init
NEXT Next
CHECK_DEADLOCK FALSE
INVARIANT Cardinals
