--------------------------------- MODULE Geo ---------------------------------
(***************************************************************************)
(* Tower geolocation (bldfm/config_parser.py latlon_to_xy, TowerConfig,     *)
(* BLDFMConfig.__post_init__; bldfm/plotting/_geo.py xy_to_latlon).         *)
(*                                                                         *)
(* The equirectangular transform is linear in the offsets from the          *)
(* reference point: x = R cos(ref_lat) dlon, y = R dlat.  On a lattice of   *)
(* offsets (integer units of angle) with R = 1 and cos(ref_lat) an exact    *)
(* rational per latitude class the two transforms are exact rational maps;  *)
(* what can go wrong is discrete: which angle feeds which axis, the signs,  *)
(* at which latitude the cosine is taken in each direction, and which       *)
(* tower's coordinates are filled from which tower's position.              *)
(*                                                                         *)
(* Deviation switches (negative controls):                                 *)
(*   InvCos   "ref" | "point"   the inverse takes the cosine at the point   *)
(*   Axes     "xy" | "yx"       longitude feeds y                           *)
(*   Fill     "own" | "first"   every tower filled from the first tower     *)
(***************************************************************************)
EXTENDS Rat, Sequences, FiniteSets, TLC, Json

CONSTANTS InvCos, Axes, Fill

\* latitude classes and the exact cosine used in the model: 0, +-37 (4/5), +-60 (1/2)
LatClasses == {"eq", "n37", "s37", "n60", "s60"}
Cos(c) == CASE c = "eq" -> <<1, 1>> [] c \in {"n37", "s37"} -> <<4, 5>> [] OTHER -> <<1, 2>>
\* cosine one lattice unit of latitude away (only its being different matters): shrinks towards the pole
CosAt(c, dlat) == LET sgn == IF c \in {"s37", "s60"} THEN -1 ELSE 1 IN QSub(Cos(c), Q(sgn * dlat, 100))

Offs == -2..2
Forward(c, dlat, dlon) ==
    IF Axes = "xy" THEN <<QMul(Cos(c), QInt(dlon)), QInt(dlat)>> ELSE <<QInt(dlat), QMul(Cos(c), QInt(dlon))>>
\* inverse: offsets (dlat, dlon) from local (x, y)
Inverse(c, x, y) ==
    LET dlat == y
        cs == IF InvCos = "ref" THEN Cos(c) ELSE CosAt(c, y[1])
    IN <<dlat, QDiv(x, cs)>>

VARIABLES vref,     \* [present, class]
          vtow,     \* sequence of towers [dlat, dlon, x, y] (x, y: the dataclass defaults 0, 0 until filled)
          vstage
geovars == <<vref, vtow, vstage>>

Tower(a, b) == [dlat |-> a, dlon |-> b, x |-> <<0, 1>>, y |-> <<0, 1>>]
Init == /\ vref \in [present : BOOLEAN, class : LatClasses]
        /\ vtow \in {<<Tower(a, b)>> : a \in Offs, b \in Offs} \cup {<<Tower(a, b), Tower(c, d)>> : a \in Offs, b \in {-2, 1}, c \in {-1, 2}, d \in Offs}
        /\ vstage = "parsed"

\* BLDFMConfig.__post_init__: with a reference origin every tower computes its local coordinates
FillTowers ==
    /\ vstage = "parsed" /\ vstage' = "filled"
    /\ vtow' = IF ~vref.present THEN vtow
               ELSE [i \in DOMAIN vtow |->
                       LET src == IF Fill = "own" THEN vtow[i] ELSE vtow[1]
                           p == Forward(vref.class, src.dlat, src.dlon) IN
                       [vtow[i] EXCEPT !.x = p[1], !.y = p[2]]]
    /\ UNCHANGED vref
Spec == Init /\ [][FillTowers]_geovars

Filled == vstage = "filled" /\ vref.present
\* lat/lon -> local -> lat/lon is the identity
RoundTripLL == Filled => \A i \in DOMAIN vtow : Inverse(vref.class, vtow[i].x, vtow[i].y) = <<QInt(vtow[i].dlat), QInt(vtow[i].dlon)>>
\* local -> lat/lon -> local is the identity (on the lattice of local points)
RoundTripXY == \A c \in LatClasses, a \in Offs, b \in Offs :
                 LET ll == Inverse(c, QInt(a), QInt(b)) IN
                 (ll[1][2] = 1 /\ ll[2][2] = 1) => Forward(c, ll[1][1], ll[2][1]) = <<QInt(a), QInt(b)>>
\* orientation: x grows eastward, y northward, the origin maps to (0, 0)
Oriented == Filled => \A i \in DOMAIN vtow :
               /\ (vtow[i].dlon > 0 <=> QLt(<<0, 1>>, vtow[i].x)) /\ (vtow[i].dlon < 0 <=> QLt(vtow[i].x, <<0, 1>>))
               /\ (vtow[i].dlat > 0 <=> QLt(<<0, 1>>, vtow[i].y)) /\ (vtow[i].dlat < 0 <=> QLt(vtow[i].y, <<0, 1>>))
               /\ (vtow[i].dlat = 0 /\ vtow[i].dlon = 0 => vtow[i].x = <<0, 1>> /\ vtow[i].y = <<0, 1>>)
\* every tower from its own position; without a reference origin the coordinates stay (0, 0)
OwnPosition == vstage = "filled" => \A i \in DOMAIN vtow :
                  IF vref.present THEN <<vtow[i].x, vtow[i].y>> = Forward(vref.class, vtow[i].dlat, vtow[i].dlon)
                  ELSE vtow[i].x = <<0, 1>> /\ vtow[i].y = <<0, 1>>
\* the east-west metre shrinks with the cosine of the REFERENCE latitude, the north-south metre does not
Scale == Filled => \A i \in DOMAIN vtow : vtow[i].x = QMul(Cos(vref.class), QInt(vtow[i].dlon)) /\ vtow[i].y = QInt(vtow[i].dlat)

Emit == vstage = "filled" => PrintT("@@" \o ToJson([ref |-> vref, towers |-> [i \in DOMAIN vtow |-> [dlat |-> vtow[i].dlat, dlon |-> vtow[i].dlon, x |-> vtow[i].x, y |-> vtow[i].y]]]))
=============================================================================
