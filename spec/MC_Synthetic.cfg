\* advisory (C16): tower-array generator, 0..30 towers, grid and transect layouts
CONSTANTS
  MaxN = 30
  GridBreak = "inner"
INIT Init
NEXT Next
CHECK_DEADLOCK FALSE
INVARIANT ExactlyN
INVARIANT DistinctPositions
INVARIANT DistinctNames
INVARIANT Centred
INVARIANT Emit
