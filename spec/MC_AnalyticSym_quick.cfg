\* C05 (plumbing of the analytic branch): reflections and axis swap with analytic = TRUE
CONSTANTS
  ShiftStyle = "pad" LevelStyle = "match" TruncStyle = "exact" AnalyticStyle = "outer" BCubic = "plus"
  Sizes = {302, 403}
  Cells = {23}
  Halos = {0}
  ModeSet = {202, 1212}
  NZs = {4}
  LevelLists = "asc"
  Tabs = {1}
  Analytic = {TRUE}
  Family = "symmetry"
INIT Init
NEXT Next
CHECK_DEADLOCK FALSE
INVARIANT StagesAgree
INVARIANT ShapeOrError
INVARIANT MirrorX
INVARIANT MirrorY
INVARIANT Transpose
INVARIANT Emit
