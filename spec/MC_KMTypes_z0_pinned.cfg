\* faithfulness: predictions for the pinned commit
CONSTANTS
  HelperAlloc = "like"
  Program = "z0"
INIT Init
NEXT Step
CHECK_DEADLOCK FALSE
INVARIANT WellFormed
INVARIANT Emit
