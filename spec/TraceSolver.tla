----------------------------- MODULE TraceSolver -----------------------------
(***************************************************************************)
(* Trace validation: hook events recorded from real solver calls           *)
(* (bldfm/solver.py with BLDFM_VERIF=1) are checked against the stage      *)
(* actions of MCSolver.  The harness converts every recorded call into     *)
(*   [cfg |-> model configuration (integers, lengths in a common unit),    *)
(*    ev  |-> <<event records>>]                                           *)
(* and writes the sequence of calls as one JSON array.  Every call is an   *)
(* initial state of its own (TLC validates the calls in parallel); a call  *)
(* is accepted when a behaviour of the specification consumes all of its   *)
(* events and ends where the model says the call ends (result returned, or *)
(* the predicted exception).  One line is printed per state so that the    *)
(* harness knows how far each call got.                                    *)
(***************************************************************************)
EXTENDS MCSolver, IOUtils

Calls == JsonDeserialize(IOEnv.TRACE_FILE)

VARIABLES vt, vl        \* call number, number of events of that call consumed so far

tvars == <<vc, vpc, vg, vres, vt, vl>>

CfgOf(t) ==
    LET r == Calls[t].cfg IN
    [nx |-> r.nx, ny |-> r.ny, ax |-> r.ax, ay |-> r.ay, halo |-> IF r.halo = 99999 THEN -1 ELSE r.halo,
     mx |-> r.mx, my |-> r.my, xm |-> r.xm, ym |-> r.ym, fp |-> r.fp, an |-> r.an, nz |-> r.nz,
     lv |-> r.lv, src |-> <<"rnd", 1, 0>>, bg |-> 0, tab |-> 1, flip |-> <<1, 1, FALSE>>, prec |-> r.prec,
     emb |-> <<0, 0, 0, 0>>]

TraceInit ==
    /\ vt \in 1..Len(Calls)
    /\ vl = 0
    /\ vc = CfgOf(vt)
    /\ vpc = "enter"
    /\ vg = [stage |-> "enter"]
    /\ vres = [err |-> "pending"]

Ev == Calls[vt].ev
HasNext == vl < Len(Ev)
E == Ev[vl + 1]
IsEvent(name) == HasNext /\ E.e = name
Consume == vl' = vl + 1 /\ UNCHANGED vt
Silent == UNCHANGED <<vt, vl>>

\* the logged integers must be the model's
TRaiseOdd  == IsEvent("raise") /\ E.kind = "odd_modes" /\ RaiseOddModes /\ Consume
TPad       == IsEvent("pad") /\ Pad /\ Consume
              /\ vg'.px = E.px /\ vg'.py = E.py /\ vg'.nxe = E.nxe /\ vg'.nye = E.nye
              /\ E.padded = <<vg'.nye, vg'.nxe>>
TClamp     == IsEvent("clamp") /\ Clamp /\ Consume
              /\ vg'.nlx = E.nlx /\ vg'.nly = E.nly /\ vg'.dlx = E.dlx /\ vg'.dly = E.dly
TSpectrum  == IsEvent("spectrum") /\ SpectrumStage /\ Consume
              /\ E.shape = <<vg'.tny, vg'.tnx>>
TModes     == IsEvent("modes") /\ ModesStage /\ Consume
              /\ E.ilx = vg'.ilx /\ E.ily = vg'.ily               \* wavenumber carried by every retained slot
TRaisePrec == IsEvent("raise") /\ E.kind = "precision" /\ RaisePrecision /\ Consume
TThreads   == IsEvent("thread_setup") /\ ThreadSetup /\ Consume
TSweep1    == IsEvent("kernel_call") /\ Sweep1 /\ Consume
TSweep2    == IsEvent("kernel_call") /\ Sweep2 /\ Consume
TMeanStore == IsEvent("mean_store") /\ MeanStore /\ Consume
              /\ E.slot + 1 \in (vg'.stored \ vg.stored)            \* the slot the model stores next
              /\ vc.lv[E.slot + 1] = E.node                         \* and it holds the level that labels it
TUntrunc   == IsEvent("untruncate") /\ UntruncateStage /\ Consume
              /\ E.shape = <<NLv(vc), vg'.uny, vg'.unx>>
TCrop      == IsEvent("crop") /\ Crop /\ Consume
              /\ E.full = <<NLv(vc), vg'.uny, vg'.unx>>
              /\ E.shape = <<NLv(vc), vg'.ony, vg'.onx>>
\* the array model is not evaluated for traces (sizes are the repository's real ones): only shape and labels
TReturn    == /\ IsEvent("return") /\ vpc = "return" /\ Consume
              /\ vpc' = "done" /\ UNCHANGED <<vc, vg>>
              /\ vres' = [err |-> "none", shape |-> <<NLv(vc), vg.ony, vg.onx>>, zlab |-> vc.lv]
              /\ E.flx = vres'.shape /\ E.conc = vres'.shape
              /\ E.zidx = vc.lv                                     \* returned heights are z[levels], in the order given
              /\ vres'.shape = <<NLv(vc), vc.ny, vc.nx>>            \* C11: the result has the shape of the source

\* steps without an event
TSilent    == (Alloc \/ AnalyticBranch \/ MeanDone \/ IndexError) /\ Silent

TraceNext == \/ TRaiseOdd \/ TPad \/ TClamp \/ TSpectrum \/ TModes \/ TRaisePrec \/ TThreads \/ TSweep1 \/ TSweep2
             \/ TMeanStore \/ TUntrunc \/ TCrop \/ TReturn \/ TSilent

TraceSpec == TraceInit /\ [][TraceNext]_tvars

\* progress report: one line per state
Report == PrintT("@@" \o ToJson([t |-> vt, l |-> vl, pc |-> vpc, err |-> vres.err]))

\* the properties are evaluated after every consumed event
TraceShapeOrError == vpc = "done" => (vres.err # "none" \/ vres.shape = <<NLv(vc), vc.ny, vc.nx>>)
TraceLabels == (vpc = "done" /\ vres.err = "none") => vres.zlab = vc.lv

=============================================================================
