\* C09: case analysis of vertical_profiles (dispatch, grid index structure, wind scaling, diffusivity assignment)
CONSTANTS
  Bounds = "quick"
  InvStyle = "code"
  GridStep = "zm_over_n"
  WindNorm = "absum"
INIT Init
NEXT Next
CHECK_DEADLOCK FALSE
INVARIANT ErrorsAsDeclared
INVARIANT GridIndex
INVARIANT WindAtZm
INVARIANT DirectionConstant
INVARIANT SpeedIncreases
INVARIANT KPositive
INVARIANT RoundTrip
INVARIANT Emit
