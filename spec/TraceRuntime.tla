---------------------------- MODULE TraceRuntime ----------------------------
(***************************************************************************)
(* Trace validation of the runtime hooks (mgr_create, mgr_reset,           *)
(* thread_setup, kernel_compile, kernel_call, enter, return) of ONE        *)
(* process against the sub-steps of Runtime.tla.  The harness logs its own *)
(* actions in line: ext_init (state put back to a fresh process's),        *)
(* ext_set_threads(n).  Every model step consumes exactly the events the   *)
(* code emits in that step, and the logged global state (config threads,   *)
(* numba threads, manager threads, pyfftw threads) must be the model's.    *)
(***************************************************************************)
EXTENDS Runtime, IOUtils

Trace == JsonDeserialize(IOEnv.TRACE_FILE)
VARIABLE vl
trv == <<vthreads, vnumba, vcompiled, vmgr, vfftw, vcreated, vpc, vreq, vkernel, vfftthreads, vhist, vres, vwis, vwisload, vl>>

TInit == Init /\ vl = 1
Ev(i) == Trace[i]
Has(i, name) == i <= Len(Trace) /\ Ev(i).e = name

\* the events an Ensure step emits: one mgr_create iff a manager is created
Created == vcreated' # vcreated
EnsureEvents(i) == IF Created THEN Has(i, "mgr_create") /\ Ev(i).threads = vmgr' /\ Ev(i).fftw = vfftw' ELSE TRUE
Used == IF Created THEN 1 ELSE 0

TExtInit ==  /\ Has(vl, "ext_init") /\ vpc = "idle"
             /\ vthreads' = 1 /\ vnumba' = 0 /\ vcompiled' = {} /\ vmgr' = 0 /\ vfftw' = 1 /\ vcreated' = 0
             /\ vreq' = NoReq /\ vkernel' = FALSE /\ vfftthreads' = << >> /\ vhist' = << >> /\ vres' = <<0, FALSE, << >>>>
             /\ vpc' = "idle" /\ vl' = vl + 1 /\ vwis' = "missing" /\ vwisload' = "none"
TWis ==      /\ Has(vl, "ext_wisdom") /\ vpc = "idle"
             /\ vwis' = Ev(vl).state /\ vl' = vl + 1 /\ vres' = <<0, FALSE, << >>>>
             /\ UNCHANGED <<vthreads, vnumba, vcompiled, vmgr, vfftw, vcreated, vpc, vreq, vkernel, vfftthreads, vhist, vwisload>>
TSet ==      /\ Has(vl, "ext_set_threads") /\ vpc = "idle"
             /\ vthreads' = Ev(vl).n /\ vl' = vl + 1 /\ vres' = <<0, FALSE, << >>>>
             /\ UNCHANGED <<vnumba, vcompiled, vmgr, vfftw, vcreated, vpc, vreq, vkernel, vfftthreads, vhist, vwis, vwisload>>
TReset ==    /\ Has(vl, "mgr_reset") /\ vpc = "idle"
             /\ vmgr' = 0 /\ vl' = vl + 1 /\ vres' = <<0, FALSE, << >>>>
             /\ UNCHANGED <<vthreads, vnumba, vcompiled, vfftw, vcreated, vpc, vreq, vkernel, vfftthreads, vhist, vwis, vwisload>>
TBegin ==    /\ Has(vl, "enter") /\ vpc = "idle"
             /\ vreq' = [id |-> 9, fp |-> Ev(vl).fp, an |-> Ev(vl).an]
             /\ vpc' = "source" /\ vfftthreads' = << >> /\ vkernel' = FALSE /\ vres' = <<0, FALSE, << >>>>
             /\ vl' = vl + 1
             /\ UNCHANGED <<vthreads, vnumba, vcompiled, vmgr, vfftw, vcreated, vhist, vwis, vwisload>>
\* a solve that ends early: an explicit error (event raise) or a result served from the cache (return_cached)
TAbort ==    /\ (Has(vl, "raise") \/ Has(vl, "return_cached")) /\ vpc \in {"source", "threads"}
             /\ vpc' = "idle" /\ vl' = vl + 1 /\ vres' = <<0, FALSE, << >>>>
             /\ UNCHANGED <<vthreads, vnumba, vcompiled, vmgr, vfftw, vcreated, vreq, vkernel, vfftthreads, vhist, vwis, vwisload>>
\* the user (a test) creates a manager directly, outside a solve: get_fft_manager(num_threads = n)
TDirectCreate == /\ Has(vl, "mgr_create") /\ vpc = "idle"
                 /\ vmgr' = Ev(vl).threads /\ vfftw' = Ev(vl).fftw /\ vcreated' = vcreated + 1 /\ vl' = vl + 1
                 /\ vwisload' = CASE vwis = "ok" -> "loaded" [] vwis = "missing" -> "skipped" [] OTHER -> "ignored"
                 /\ UNCHANGED <<vthreads, vnumba, vcompiled, vpc, vreq, vkernel, vfftthreads, vhist, vres, vwis>>
TSource ==   /\ SourceFFT /\ EnsureEvents(vl) /\ vl' = vl + Used
TThreads ==  /\ ThreadSetup /\ EnsureEvents(vl)
             /\ IF vreq.an THEN vl' = vl + Used
                ELSE /\ Has(vl + Used, "thread_setup")
                     /\ LET e == Ev(vl + Used) IN
                        /\ e.cfg = vthreads' /\ e.mgr = vmgr' /\ e.fftw = vfftw'
                        /\ (vnumba' # 0 => e.numba = vnumba')
                     /\ vl' = vl + Used + 1
\* the kernel step: [kernel_compile] kernel_call [kernel_compile is impossible here] kernel_call
TKernel ==   /\ Kernel
             /\ IF vreq.an THEN vl' = vl
                ELSE LET fresh == (vthreads > 1) \notin vcompiled
                         o == IF fresh THEN 1 ELSE 0
                     IN  /\ (fresh => Has(vl, "kernel_compile") /\ Ev(vl).parallel = (vthreads > 1))
                         /\ Has(vl + o, "kernel_call") /\ Ev(vl + o).parallel = (vthreads > 1)
                         /\ Has(vl + o + 1, "kernel_call") /\ Ev(vl + o + 1).parallel = (vthreads > 1)
                         /\ vl' = vl + o + 2
TFinal ==    /\ FinalFFT /\ EnsureEvents(vl) /\ vl' = vl + Used
TReturn ==   /\ Return /\ Has(vl, "return") /\ Ev(vl).mgr = vmgr /\ vl' = vl + 1

TNext == TAbort \/ TDirectCreate \/ TExtInit \/ TWis \/ TSet \/ TReset \/ TBegin \/ TSource \/ TThreads \/ TKernel \/ TFinal \/ TReturn
Report == PrintT("@@" \o ToJson([l |-> vl, pc |-> vpc]))
=============================================================================
