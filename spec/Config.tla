------------------------------- MODULE Config -------------------------------
(***************************************************************************)
(* Configuration plumbing of bldfm.config_parser / bldfm.interface:        *)
(*   - meteorological forcing: validation, number of steps, per-step       *)
(*     extraction with scalar broadcast (MetConfig)              -> C16    *)
(*   - the four low-level calls a single run makes and the metadata it     *)
(*     returns (run_bldfm_single)                                -> C13    *)
(* Values are opaque tokens: the specification says WHICH value ends up    *)
(* WHERE; the harness instantiates tokens injectively with floats.         *)
(*                                                                         *)
(* A forcing m gives, per field, its form: Absent, 0 = scalar, n >= 1 =    *)
(* list of length n; m.z0 says whether a roughness length is given; m.ts   *)
(* is Absent or the length of the timestamp list.  The token of field f    *)
(* at step i is 0 for the scalar, j for the j-th list entry, Absent.       *)
(***************************************************************************)
EXTENDS Integers, Sequences, FiniteSets, TLC, Json, IOUtils

CONSTANTS
    MaxLen,        \* longest list
    StepsFrom,     \* "all": common length of all list-valued fields | "ustar_ws": ustar, else wind_speed, else 1 (pinned commit)
    TsCheck,       \* "always" | "lists_only": timestamps length unchecked when every field is a scalar (pinned commit)
    Scenario       \* "met" (C16) | "single" (C13)

Absent == 99
Fields == {"ustar", "mol", "wind_speed", "wind_dir"}
IsList(v) == v \in 1..MaxLen

Forcings == [ustar : {Absent, 0} \cup (1..MaxLen), mol : 0..MaxLen, wind_speed : 0..MaxLen, wind_dir : 0..MaxLen,
             z0 : BOOLEAN, ts : {Absent} \cup (1..MaxLen)]

ListFields(m) == {f \in Fields : IsList(m[f])}
Lens(m) == {m[f] : f \in ListFields(m)}

\* what the property demands
CommonLen(m) == IF ListFields(m) = {} THEN 1 ELSE CHOOSE n \in Lens(m) : TRUE
ValidSpec(m) == /\ (m.ustar # Absent \/ m.z0)
                /\ Cardinality(Lens(m)) <= 1
                /\ (m.ts # Absent => m.ts = CommonLen(m))

\* what the implementation computes (with its deviation switches)
NSteps(m) == IF StepsFrom = "all" THEN CommonLen(m)
             ELSE IF IsList(m.ustar) THEN m.ustar ELSE IF IsList(m.wind_speed) THEN m.wind_speed ELSE 1
Valid(m) == /\ (m.ustar # Absent \/ m.z0)
            /\ Cardinality(Lens(m)) <= 1
            /\ IF TsCheck = "always" THEN (m.ts # Absent => m.ts = CommonLen(m))
               ELSE (ListFields(m) # {} /\ m.ts # Absent => m.ts = CommonLen(m))

Tok(m, f, i) == IF m[f] = Absent THEN Absent ELSE IF m[f] = 0 THEN 0 ELSE i + 1
StepRec(m, i) == [ustar |-> Tok(m, "ustar", i), mol |-> Tok(m, "mol", i), wind_speed |-> Tok(m, "wind_speed", i),
                  wind_dir |-> Tok(m, "wind_dir", i), z0 |-> m.z0,
                  ts |-> IF m.ts = Absent THEN <<"index", i>> ELSE <<"label", i + 1>>]
\* a step can be extracted only if every list it indexes is long enough
StepDefined(m, i) == /\ \A f \in Fields : IsList(m[f]) => i + 1 <= m[f]
                     /\ (m.ts # Absent => i + 1 <= m.ts)

(*************************** C13: one single run ****************************)
\* option lattice of a configuration (tokens for numbers, the discrete options spelled out)
Closures == {"MOST", "MOSTM", "CONSTANT", "OAAHOC"}
Options == [closure : Closures, prec : {"single", "double"}, fp : BOOLEAN, an : BOOLEAN,
            halo : {"none", "value"}, modes : {"default", "explicit"}, levels : {"default", "list", "full"},
            src : {"ideal", "supplied"}, srcloc : {"none", "value"}, shape : {"diamond", "circle", "point"},
            ntowers : 1..3, tower : 1..3, cache : {FALSE}]

\* the argument records of the four low-level calls, and the metadata, for (options o, forcing m, step i)
SingleCall(o, m, i) ==
    LET st == StepRec(m, i) IN
    [wind     |-> [speed |-> st.wind_speed, dir |-> st.wind_dir],
     profiles |-> [n |-> "nz", meas_height |-> <<"z_m", o.tower>>, wind |-> "result of the wind call",
                   forcing |-> IF m.z0 THEN <<"z0", 0>> ELSE <<"ustar", st.ustar>>,        \* z0 takes precedence
                   mol |-> st.mol, closure |-> o.closure],
     source   |-> IF o.src = "supplied" THEN [kind |-> "supplied"]
                  ELSE [kind |-> "ideal", nxy |-> "(nx, ny)", domain |-> "(xmax, ymax)", src_loc |-> o.srcloc, shape |-> o.shape],
     solver   |-> [srf_flx |-> IF o.src = "supplied" THEN "supplied" ELSE "result of the source call",
                   z |-> "result of the profile call", profiles |-> "result of the profile call",
                   domain |-> "(xmax, ymax)",
                   levels |-> CASE o.levels = "list" -> "output_levels" [] o.levels = "full" -> "range(nz+1)" [] OTHER -> "nz",
                   modes |-> o.modes, meas_pt |-> <<"tower_xy", o.tower>>, footprint |-> o.fp, analytic |-> o.an,
                   halo |-> o.halo, precision |-> o.prec, cache |-> o.cache],
     meta     |-> [tower_name |-> <<"name", o.tower>>, tower_xy |-> <<"tower_xy", o.tower>>, timestamp |-> st.ts, params |-> st]]

(************************ defaults of every optional key ********************)
(* parse_config_dict: a key that is present keeps its value - whatever the   *)
(* value, including 0, 0.0, False - and an absent key gets the documented    *)
(* default.  The table gives the defaults as Python renders them (repr).     *)
OptKeys == {"domain.modes", "domain.halo", "domain.ref_lat", "domain.ref_lon", "domain.output_levels", "domain.full_output",
            "met.ustar", "met.mol", "met.wind_speed", "met.wind_dir", "met.z0", "met.timestamps",
            "solver.closure", "solver.precision", "solver.footprint", "solver.surface_flux_shape", "solver.analytic", "solver.src_loc",
            "output.format", "output.directory", "parallel.num_threads", "parallel.max_workers", "parallel.use_cache"}
DefaultOf(k) ==
    CASE k = "domain.modes" -> "(512, 512)" [] k = "domain.halo" -> "None" [] k = "domain.ref_lat" -> "None" [] k = "domain.ref_lon" -> "None"
      [] k = "domain.output_levels" -> "None" [] k = "domain.full_output" -> "False"
      [] k = "met.ustar" -> "None" [] k = "met.mol" -> "1000000000.0" [] k = "met.wind_speed" -> "5.0" [] k = "met.wind_dir" -> "270.0"
      [] k = "met.z0" -> "None" [] k = "met.timestamps" -> "None"
      [] k = "solver.closure" -> "'MOST'" [] k = "solver.precision" -> "'single'" [] k = "solver.footprint" -> "False"
      [] k = "solver.surface_flux_shape" -> "'diamond'" [] k = "solver.analytic" -> "False" [] k = "solver.src_loc" -> "None"
      [] k = "output.format" -> "'netcdf'" [] k = "output.directory" -> "'./output'"
      [] k = "parallel.num_threads" -> "1" [] k = "parallel.max_workers" -> "1" [] k = "parallel.use_cache" -> "False"
\* presence of a key: absent | given (an ordinary value) | falsy (a value Python treats as false: 0, 0.0, False)
Presence == {"absent", "given", "falsy"}
ParsedValue(k, pr) == IF pr = "absent" THEN <<"default", DefaultOf(k)>> ELSE <<"kept", pr>>
\* scenarios: one key varies over the three forms, all other keys are all absent or all given
DefaultScenarios == {[key |-> k, form |-> f, others |-> o] : k \in OptKeys, f \in Presence, o \in {"absent", "given"}}
ExpectedParse(sc) == [k \in OptKeys |-> ParsedValue(k, IF k = sc.key THEN sc.form ELSE sc.others)]

(******************************* state machine ******************************)
VARIABLES vm, vo, vpc, vi, vlog

cvars == <<vm, vo, vpc, vi, vlog>>

\* forcings used for the single-run scenario: every ustar/z0 presence and scalar/list pattern, lists of length 2
SingleForcings == {m \in Forcings : /\ \A f \in Fields : m[f] \in {Absent, 0, 2}
                                    /\ m.mol = m.wind_dir /\ m.wind_speed = 0
                                    /\ m.ts \in {Absent, 2} /\ ValidSpec(m)}
OptionsUsed == {o \in Options : /\ <<o.ntowers, o.tower>> \in {<<1, 1>>, <<3, 2>>, <<3, 3>>}
                                /\ (o.srcloc = "value" => o.src = "ideal")
                                /\ (o.shape # "diamond" => o.src = "ideal")
                                /\ (o.closure = "OAAHOC" => o.fp /\ ~o.an /\ o.prec = "double")}

Init == /\ vpc = "build" /\ vi = 0 /\ vlog = << >>
        /\ CASE Scenario = "met" -> vm \in Forcings /\ vo = "none"
             [] Scenario = "defaults" -> vm \in DefaultScenarios /\ vo = "none"
             [] OTHER -> vm \in SingleForcings /\ vo \in OptionsUsed

Build == /\ vpc = "build" /\ Scenario # "defaults"            \* BLDFMConfig.__post_init__ -> MetConfig.validate
         /\ vpc' = IF Valid(vm) THEN "loop" ELSE "rejected"
         /\ UNCHANGED <<vm, vo, vi, vlog>>
ParseDefaults == /\ vpc = "build" /\ Scenario = "defaults"     \* parse_config_dict on a dictionary with the given presence pattern
                 /\ vlog' = <<ExpectedParse(vm)>> /\ vpc' = "parsed"
                 /\ UNCHANGED <<vm, vo, vi>>

Step ==  /\ vpc = "loop" /\ vi < NSteps(vm)                 \* one iteration of range(n_timesteps): get_step(i) [+ single run]
         /\ IF StepDefined(vm, vi)
            THEN vlog' = Append(vlog, IF Scenario = "met" THEN StepRec(vm, vi) ELSE SingleCall(vo, vm, vi)) /\ vpc' = vpc
            ELSE vlog' = vlog /\ vpc' = "indexerror"
         /\ vi' = vi + 1
         /\ UNCHANGED <<vm, vo>>

Finish == /\ vpc = "loop" /\ vi = NSteps(vm)
          /\ vpc' = "done"
          /\ UNCHANGED <<vm, vo, vi, vlog>>

Next == Build \/ ParseDefaults \/ Step \/ Finish
Spec == Init /\ [][Next]_cvars

(********************************* C16 ***************************************)
\* C13 (defaults): a present key is never replaced by its default, an absent one always is
GivenIsKept == vpc = "parsed" => \A k \in OptKeys :
                  LET pr == IF k = vm.key THEN vm.form ELSE vm.others IN
                  (pr = "absent" <=> vlog[1][k][1] = "default") /\ (pr # "absent" => vlog[1][k] = <<"kept", pr>>)
EmitD == vpc = "parsed" => PrintT("@@" \o ToJson([sc |-> vm, expect |-> vlog[1]]))
RejectedIffInvalid == (vpc = "rejected" => ~ValidSpec(vm)) /\ (vpc \in {"loop", "done", "indexerror"} => ValidSpec(vm))
NeverIndexError == vpc # "indexerror"
OneStepPerEntry ==
    vpc = "done" =>
        /\ Len(vlog) = CommonLen(vm)
        /\ \A f \in ListFields(vm) : \A j \in 1..vm[f] : Cardinality({k \in 1..Len(vlog) : vlog[k][f] = j}) = 1
        /\ \A f \in ListFields(vm) : \A k \in 1..Len(vlog) : vlog[k][f] = k
ScalarsBroadcast ==
    vpc = "done" => \A f \in Fields \ ListFields(vm) : \A k \in 1..Len(vlog) : vlog[k][f] = (IF vm[f] = Absent THEN Absent ELSE 0)
TimestampOrIndex ==
    vpc = "done" => \A k \in 1..Len(vlog) : vlog[k].ts = (IF vm.ts = Absent THEN <<"index", k - 1>> ELSE <<"label", k>>)

(********************************* C13 ***************************************)
\* every step of a single-run scenario uses that step's values and that tower's values, z0 wins over ustar
SingleUsesOwnStep ==
    (Scenario = "single" /\ vpc = "done") =>
        \A k \in 1..Len(vlog) :
            /\ vlog[k].wind.speed = Tok(vm, "wind_speed", k - 1) /\ vlog[k].wind.dir = Tok(vm, "wind_dir", k - 1)
            /\ vlog[k].profiles.mol = Tok(vm, "mol", k - 1)
            /\ vlog[k].profiles.forcing = (IF vm.z0 THEN <<"z0", 0>> ELSE <<"ustar", Tok(vm, "ustar", k - 1)>>)
            /\ vlog[k].profiles.meas_height = <<"z_m", vo.tower>>
            /\ vlog[k].solver.meas_pt = <<"tower_xy", vo.tower>>
            /\ vlog[k].meta.tower_name = <<"name", vo.tower>>

\* emission for the replay harness; the single-run lattice is sampled (every EMIT_EVERY-th point, phase EMIT_PHASE)
B2N(b) == IF b THEN 1 ELSE 0
OptIndex(o, m) ==
    LET e(S, x) == Cardinality({y \in S : y < x}) IN
    (((((((((B2N(o.fp) * 2 + B2N(o.an)) * 2 + B2N(o.halo = "value")) * 2 + B2N(o.modes = "explicit")) * 3
        + (CASE o.levels = "default" -> 0 [] o.levels = "list" -> 1 [] OTHER -> 2)) * 2 + B2N(o.prec = "double")) * 4
        + (CASE o.closure = "MOST" -> 0 [] o.closure = "MOSTM" -> 1 [] o.closure = "CONSTANT" -> 2 [] OTHER -> 3)) * 3
        + (CASE o.shape = "diamond" -> 0 [] o.shape = "circle" -> 1 [] OTHER -> 2)) * 4
        + (B2N(o.src = "supplied") * 2 + B2N(o.srcloc = "value"))) * 3 + (o.tower - 1)) * 7
    + ((((m.ustar % 7) + (m.wind_dir * 3)) + (B2N(m.z0) * 5)) + (m.ts % 5))
EmitEvery == atoi(IOEnv.EMIT_EVERY)
EmitPhase == atoi(IOEnv.EMIT_PHASE)
Sampled == Scenario = "met" \/ (OptIndex(vo, vm) % EmitEvery) = (EmitPhase % EmitEvery)
Emit == (vpc \in {"done", "rejected", "indexerror"} /\ Sampled) =>
            PrintT("@@" \o ToJson([m |-> vm, o |-> vo, outcome |-> vpc, nsteps |-> IF Valid(vm) THEN NSteps(vm) ELSE 0,
                                   valid_spec |-> ValidSpec(vm), log |-> vlog]))

=============================================================================
