------------------------------- MODULE Cache -------------------------------
(***************************************************************************)
(* The on-disk Green's-function cache (bldfm/cache.py) as used by the      *)
(* solver: lookup before the solve, store after it, files shared by every  *)
(* process that uses the directory, and surviving across processes.        *)
(*                                                                         *)
(* A request is a vector over EVERY parameter of the solver signature;     *)
(* each parameter takes the value 0 or 1 (two different concrete values),  *)
(* halo takes 0 = None, 1 = an explicit width equal to the default,        *)
(* 2 = another explicit width, 3 = an explicit width of zero (legitimate:  *)
(* the purely periodic solution; a value Python treats as false).  Sol(r) is the result token: the request    *)
(* restricted to the parameters that determine a footprint-mode result,    *)
(* with the halo resolved.                                                 *)
(*                                                                         *)
(* Deviation switches:                                                     *)
(*   KeyFields   parameters hashed into the key                            *)
(*   HaloAtGet   "resolved" | "raw": the pinned commit hashes str(None) at *)
(*               lookup and the resolved width at store                    *)
(*   AtomicPut   TRUE: temp file + rename | FALSE: written in place        *)
(*   CatchLoad   TRUE: an unreadable entry is a miss | FALSE: fatal        *)
(***************************************************************************)
EXTENDS Integers, Sequences, FiniteSets, TLC, Json

CONSTANTS KeyFields, HaloAtGet, AtomicPut, CatchLoad, MaxCrashes,
          FreeRequests   \* 0: the scenarios below | n > 0: n requests drawn freely from the WHOLE request space (simulation mode)

Params == {"srcvals", "shape", "z", "profiles", "domain", "levels", "modes", "meas_pt", "bg", "analytic", "halo", "precision"}
\* in footprint mode the values of the source do not matter, everything else does
ResultFields == Params \ {"srcvals"}

R0 == [p \in Params |-> 0]
Variant(f) == [R0 EXCEPT ![f] = 1]
Resolve(r) == IF r["halo"] = 0 THEN [r EXCEPT !["halo"] = 1] ELSE r        \* None -> the default width
Sol(r) == [p \in ResultFields |-> Resolve(r)[p]]
NoVal == [p \in ResultFields |-> 9]                        \* "no value" (entries that hold nothing readable)
Entry(st, v) == [st |-> st, val |-> v]
AbsentE == Entry("absent", NoVal)
PartialE == Entry("partial", NoVal)
KeyGet(r) == [p \in KeyFields |-> IF HaloAtGet = "resolved" THEN Resolve(r)[p] ELSE r[p]]
KeyPut(r) == [p \in KeyFields |-> Resolve(r)[p]]
\* the whole request space (free mode) and the requests the scenarios use
AllRequests == {[p \in Params |-> IF p = "halo" THEN h ELSE b[p]] : h \in 0..3, b \in [Params \ {"halo"} -> 0..1]}
ScenarioRequests == {R0, [R0 EXCEPT !["halo"] = 1], [R0 EXCEPT !["halo"] = 2], [R0 EXCEPT !["halo"] = 3]} \cup {Variant(f) : f \in Params}

(***************************************************************************)
(* Scenarios: sequences of operations.                                     *)
(*   <<"req", r>>      a footprint solve with the cache attached           *)
(*   <<"newproc">>     the following requests run in a new process         *)
(*   <<"corrupt", r>>  the entry a request r would read is truncated on    *)
(*                     disk (an interrupted earlier run)                   *)
(* Every request may in addition crash at any of its steps (action Crash). *)
(***************************************************************************)
Req(r) == <<"req", r>>
HaloR(h) == [R0 EXCEPT !["halo"] = h]
Scenarios ==
    {<<Req(R0), Req(R0)>>, <<Req(R0), <<"newproc">>, Req(R0)>>, <<Req(R0), Req(R0), Req(R0)>>}
    \cup {<<Req(R0), Req(Variant(f)), Req(R0)>> : f \in Params}
    \cup {<<Req(R0), <<"newproc">>, Req(Variant(f)), <<"newproc">>, Req(R0)>> : f \in Params}
    \cup {<<Req(Variant(f)), Req(R0), Req(Variant(f))>> : f \in Params}
    \cup {<<Req(HaloR(a)), Req(HaloR(b)), Req(HaloR(a))>> : a \in 0..3, b \in 0..3}
    \cup {<<Req(R0), <<"corrupt", R0>>, Req(R0), Req(R0)>>, <<Req(R0), <<"corrupt", R0>>, <<"newproc">>, Req(R0), Req(R0)>>}
    \cup {<<Req(HaloR(2)), <<"corrupt", HaloR(2)>>, Req(HaloR(2)), Req(HaloR(2))>>}

VARIABLES
    vstore,     \* the directory: a finite map from the keys written so far to [st: "partial" | "complete", val: result token]
    vtmp,       \* number of stray temporary files left by crashes (they must never be read)
    vtodo,      \* remaining operations
    vpc,        \* "idle" | "lookup" | "solve" | "put" | "commit" | "return" | "fatal"
    vcur,       \* request being served
    vret,       \* value to be returned
    vsolved,    \* did this request run the solver
    vhit,       \* did the lookup return a stored entry
    vlog,       \* history of finished operations (observation only)
    vcrashes,   \* number of crashes so far
    vfree       \* free mode: requests still to be drawn

chvars == <<vstore, vtmp, vtodo, vpc, vcur, vret, vsolved, vhit, vlog, vcrashes, vfree>>

Stored(k) == k \in DOMAIN vstore
EntryOf(k) == IF Stored(k) THEN vstore[k] ELSE AbsentE
Write(k, e) == [x \in (DOMAIN vstore) \cup {k} |-> IF x = k THEN e ELSE vstore[x]]

Init == /\ vstore = << >>
        /\ vtmp = 0 /\ vfree = FreeRequests
        /\ IF FreeRequests = 0 THEN vtodo \in Scenarios ELSE vtodo = << >>
        /\ vpc = "idle" /\ vcur = R0 /\ vret = NoVal /\ vsolved = FALSE /\ vhit = FALSE
        /\ vlog = << >> /\ vcrashes = 0

Start ==    /\ vpc = "idle" /\ vtodo # << >> /\ Head(vtodo)[1] = "req"
            /\ vcur' = Head(vtodo)[2] /\ vtodo' = Tail(vtodo)
            /\ vpc' = "lookup" /\ vret' = NoVal /\ vsolved' = FALSE /\ vhit' = FALSE
            /\ UNCHANGED <<vstore, vtmp, vlog, vcrashes, vfree>>

\* the draw: one uniformly random request of the whole space (TLC's RandomElement; simulation mode), every request seen
\* before (repetitions are what a cache is for), and every one-parameter change of the last request
FreeCandidates == {RandomElement(AllRequests)} \cup {vlog[i].req : i \in {j \in 1..Len(vlog) : vlog[j].op = "req"}}
                  \cup {[vcur EXCEPT ![f] = 1 - @] : f \in Params \ {"halo"}} \cup {[vcur EXCEPT !["halo"] = h] : h \in 0..3}
\* free mode: any request of the whole space, a process boundary or a corruption of the entry just used may come next
FreeStart == /\ vpc = "idle" /\ vtodo = << >> /\ vfree > 0
             /\ \E r \in FreeCandidates :
                  /\ vcur' = r /\ vpc' = "lookup" /\ vret' = NoVal /\ vsolved' = FALSE /\ vhit' = FALSE
             /\ vfree' = vfree - 1
             /\ UNCHANGED <<vstore, vtmp, vtodo, vlog, vcrashes>>
FreeNewProc == /\ vpc = "idle" /\ vtodo = << >> /\ vfree > 0 /\ vlog # << >> /\ vlog[Len(vlog)].op = "req"
               /\ vlog' = Append(vlog, [op |-> "newproc"])
               /\ UNCHANGED <<vstore, vtmp, vtodo, vpc, vcur, vret, vsolved, vhit, vcrashes, vfree>>
FreeCorrupt == /\ vpc = "idle" /\ vtodo = << >> /\ vfree > 0 /\ vlog # << >> /\ vlog[Len(vlog)].op = "req"
               /\ Stored(KeyGet(vcur))
               /\ vstore' = Write(KeyGet(vcur), PartialE)
               /\ vlog' = Append(vlog, [op |-> "corrupt", req |-> vcur])
               /\ UNCHANGED <<vtmp, vtodo, vpc, vcur, vret, vsolved, vhit, vcrashes, vfree>>

NewProc ==  /\ vpc = "idle" /\ vtodo # << >> /\ Head(vtodo)[1] = "newproc"      \* nothing of the cache lives in memory
            /\ vtodo' = Tail(vtodo) /\ vlog' = Append(vlog, [op |-> "newproc"])
            /\ UNCHANGED <<vstore, vtmp, vpc, vcur, vret, vsolved, vhit, vcrashes, vfree>>

Corrupt ==  /\ vpc = "idle" /\ vtodo # << >> /\ Head(vtodo)[1] = "corrupt"
            /\ LET k == KeyGet(Head(vtodo)[2]) IN
               vstore' = IF Stored(k) THEN Write(k, PartialE) ELSE vstore
            /\ vtodo' = Tail(vtodo) /\ vlog' = Append(vlog, [op |-> "corrupt", req |-> Head(vtodo)[2]])
            /\ UNCHANGED <<vtmp, vpc, vcur, vret, vsolved, vhit, vcrashes, vfree>>

Lookup ==   /\ vpc = "lookup"                                   \* cache.get: exists? load
            /\ LET e == EntryOf(KeyGet(vcur)) IN
               CASE e.st = "absent"  -> vpc' = "solve" /\ UNCHANGED <<vret, vhit>>
                 [] e.st = "partial" -> IF CatchLoad THEN vpc' = "solve" /\ UNCHANGED <<vret, vhit>>
                                     ELSE vpc' = "fatal" /\ UNCHANGED <<vret, vhit>>
                 [] OTHER         -> vpc' = "return" /\ vret' = e.val /\ vhit' = TRUE
            /\ UNCHANGED <<vstore, vtmp, vtodo, vcur, vsolved, vlog, vcrashes, vfree>>

SolveStep == /\ vpc = "solve"
             /\ vret' = Sol(vcur) /\ vsolved' = TRUE /\ vpc' = "put"
             /\ UNCHANGED <<vstore, vtmp, vtodo, vcur, vhit, vlog, vcrashes, vfree>>

PutBegin == /\ vpc = "put"                                      \* cache.put starts writing
            /\ IF AtomicPut THEN vtmp' = vtmp + 1 /\ UNCHANGED vstore
               ELSE vstore' = Write(KeyPut(vcur), PartialE) /\ UNCHANGED vtmp
            /\ vpc' = "commit"
            /\ UNCHANGED <<vtodo, vcur, vret, vsolved, vhit, vlog, vcrashes, vfree>>

PutCommit == /\ vpc = "commit"                                  \* write finished (rename)
             /\ vstore' = Write(KeyPut(vcur), Entry("complete", vret))
             /\ vtmp' = IF AtomicPut THEN vtmp - 1 ELSE vtmp
             /\ vpc' = "return"
             /\ UNCHANGED <<vtodo, vcur, vret, vsolved, vhit, vlog, vcrashes, vfree>>

Return ==   /\ vpc = "return"
            /\ vlog' = Append(vlog, [op |-> "req", req |-> vcur, ret |-> vret, solved |-> vsolved, hit |-> vhit])
            /\ vpc' = "idle"
            /\ UNCHANGED <<vstore, vtmp, vtodo, vcur, vret, vsolved, vhit, vcrashes, vfree>>

\* the process dies; whatever is on disk stays; the caller repeats the request in a new process
Crash ==    /\ vpc \in {"lookup", "solve", "put", "commit"} /\ vcrashes < MaxCrashes
            /\ vlog' = Append(vlog, [op |-> "crash", req |-> vcur, at |-> vpc])
            /\ vtodo' = <<Req(vcur)>> \o vtodo
            /\ vpc' = "idle" /\ vcrashes' = vcrashes + 1
            /\ UNCHANGED <<vstore, vtmp, vcur, vret, vsolved, vhit, vfree>>

Next == FreeStart \/ FreeNewProc \/ FreeCorrupt \/ Start \/ NewProc \/ Corrupt \/ Lookup \/ SolveStep \/ PutBegin \/ PutCommit \/ Return \/ Crash
Spec == Init /\ [][Next]_chvars

(******************************** properties ********************************)
Reqs == {i \in 1..Len(vlog) : vlog[i].op = "req"}
\* every solve returns what it would return without a cache, whatever was stored before
Transparent == \A i \in Reqs : vlog[i].ret = Sol(vlog[i].req)
\* an unreadable entry is never fatal
NeverFatal == vpc # "fatal"
\* a repetition of an identical request is served from the cache (nothing destroyed the entry in between)
Effective ==
    \A i, j \in Reqs :
        (i < j /\ vlog[i].req = vlog[j].req /\ \A k \in (i + 1)..(j - 1) : vlog[k].op \in {"req", "newproc"})
        => vlog[j].hit /\ ~vlog[j].solved
\* a partial entry is never what a lookup returns (it has no value in the model; this is the disk-side statement)
\* entries on disk are right: a complete entry under key k holds the result of every request that maps to k
StoreSound == \A k \in DOMAIN vstore : vstore[k].st = "complete" =>
                 \A r \in (IF FreeRequests = 0 THEN ScenarioRequests ELSE {vlog[i].req : i \in Reqs}) : KeyGet(r) = k => vstore[k].val = Sol(r)

\* THE LEMMA behind Transparent, over the WHOLE request space (2^11 x 4 requests), independent of any history:
\* the key determines the result - two requests whose lookup / store keys coincide have the same solution.
\* (The relation key -> solution is a function iff it has as many pairs as keys.)
KeySolPairs == {<<KeyGet(r), Sol(r)>> : r \in AllRequests} \cup {<<KeyPut(r), Sol(r)>> : r \in AllRequests}
KeyDeterminesResult == Cardinality(KeySolPairs) = Cardinality({kp[1] : kp \in KeySolPairs})
\* and the lemma behind Effective: an identical request looks up the key it stored under
LookupFindsOwnStore == \A r \in AllRequests : KeyGet(r) = KeyPut(r)

Emit == (vpc = "idle" /\ vtodo = << >> /\ vfree = 0) => PrintT("@@" \o ToJson([log |-> vlog]))
\* observation variables are kept out of the fingerprint where they do not influence behaviour
=============================================================================
