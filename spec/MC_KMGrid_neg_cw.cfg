\* negative control: rotation applied in the wrong sense
CONSTANTS
  Bounds = "quick"
  RotSense = "cw"
  RowOrder = "topdown"
  UpwindTest = "gt"
INIT Init
NEXT Next
CHECK_DEADLOCK FALSE
INVARIANT CellByCell
INVARIANT ZeroDownwind
INVARIANT SymmetricAboutAxis
INVARIANT Coordinates
INVARIANT RotationAboutReceptor
INVARIANT StagesAgree
INVARIANT Periodic
