\* C15 simulation mode: 7 requests drawn from the whole request space (2^11 x 4), process boundaries, corruption and up to 3 crashes; run with -simulate
CONSTANTS
  KeyFields = {"shape", "z", "profiles", "domain", "levels", "modes", "meas_pt", "bg", "analytic", "halo", "precision"}
  HaloAtGet = "resolved"
  AtomicPut = FALSE
  CatchLoad = TRUE
  MaxCrashes = 3
  FreeRequests = 7
INIT Init
NEXT Next
CHECK_DEADLOCK FALSE
INVARIANT Transparent
INVARIANT NeverFatal
INVARIANT Effective
INVARIANT StoreSound
INVARIANT KeyDeterminesResult
INVARIANT LookupFindsOwnStore
INVARIANT Emit
