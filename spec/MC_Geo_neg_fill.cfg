\* negative control: every tower filled from the first tower
CONSTANTS
  InvCos = "ref"
  Axes = "xy"
  Fill = "first"
INIT Init
NEXT FillTowers
CHECK_DEADLOCK FALSE
INVARIANT RoundTripLL
INVARIANT RoundTripXY
INVARIANT Oriented
INVARIANT OwnPosition
INVARIANT Scale
