\* negative control: lookup hashes the unresolved halo - Effective must be violated
CONSTANTS
  KeyFields = {"shape", "z", "profiles", "domain", "levels", "modes", "meas_pt", "bg", "analytic", "halo", "precision"}
  HaloAtGet = "raw"
  AtomicPut = TRUE
  CatchLoad = TRUE
  MaxCrashes = 2
INIT Init
NEXT Next
CHECK_DEADLOCK FALSE
INVARIANT Transparent
INVARIANT NeverFatal
INVARIANT Effective
INVARIANT StoreSound
