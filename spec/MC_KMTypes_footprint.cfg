\* C19: number kinds through estimateFootprint, repaired design (helpers allocate float)
CONSTANTS
  HelperAlloc = "float"
  Program = "footprint"
INIT Init
NEXT Step
CHECK_DEADLOCK FALSE
INVARIANT WellFormed
INVARIANT NoLossyStore
INVARIANT ResultIsFloat
INVARIANT Emit
