\* alternative design: upper-node sampling is consistent too (satisfies every invariant)
CONSTANTS
  MaxNz = 8
  SampleStyle = "upper"
  DzStyle = "own"
  TopStyle = "top"
  WeightStyle = "trapezoid"
INIT Init
NEXT Next
CHECK_DEADLOCK FALSE
INVARIANT InLayer
INVARIANT EveryLayerOnce
INVARIANT TopFromTopNode
INVARIANT MeanQuadrature
INVARIANT MeanEveryLayerOnce
