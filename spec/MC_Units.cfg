CONSTANTS Slip = "none"
INIT Init
NEXT Next
INVARIANT Similarity
CHECK_DEADLOCK FALSE
