\* negative control: unguarded load with concurrent in-place writers - NeverFatal must be violated
CONSTANTS
  NT = 2 NS = 2 NW = 2
  Strategy = "both" ParentThreads = 1 UseCache = TRUE RepeatStep = 2 CatchLoad = FALSE WorkerInit = TRUE
INIT Init
NEXT Next
CHECK_DEADLOCK FALSE
INVARIANT EachIsSingle
INVARIANT HitsAreRight
INVARIANT NeverFatal
INVARIANT WorkerFFTsSingle
INVARIANT WorkerSolvesReset
