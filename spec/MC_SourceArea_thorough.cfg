\* C20: every f in 0..3 and g in 0..2 on 6 cells (ties and zeros everywhere); theorems about the definitions
CONSTANTS NCells = 6 FMax = 3 GMax = 2 Mode = "enumerate"
INIT Init
NEXT Next
CHECK_DEADLOCK FALSE
INVARIANT RangeOK
INVARIANT Antitone
INVARIANT OrderOnly
INVARIANT PermInvariant
INVARIANT ContourMonotone
INVARIANT ContourDefinition
INVARIANT ContourScales
INVARIANT EmitE
