\* negative control: workers keep the inherited thread setting - EachIsSingle / InitBeforeSolve must be violated
CONSTANTS
  MaxNT = 2 MaxNS = 2 MaxNW = 2
  Strategies = {"towers", "time", "both"}
  ParentThreadSet = {1, 4}
  Collect = "position" SliceStep = "NS" WorkerInit = FALSE
INIT Init
NEXT Next
CHECK_DEADLOCK FALSE
INVARIANT KeysInConfigOrder
INVARIANT OnePerStep
INVARIANT EachIsSingle
INVARIANT EveryTaskOnce
INVARIANT InitBeforeSolve
