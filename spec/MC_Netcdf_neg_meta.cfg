\* negative control: tower metadata in reversed order - MetaOwn must be violated
CONSTANTS MaxT = 4 MaxS = 4 MaxL = 3 Place = "t_ti" MetaOrder = "reversed"
INIT Init
NEXT Next
CHECK_DEADLOCK FALSE
INVARIANT SelReturnsOwn
INVARIANT NothingLeftEmpty
INVARIANT MetaOwn
INVARIANT MetPerStep
