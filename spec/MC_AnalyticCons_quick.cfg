\* C05 (plumbing of the analytic branch): linear mean profile, conservation and halo = padding with analytic = TRUE
CONSTANTS
  ShiftStyle = "pad" LevelStyle = "match" TruncStyle = "exact" AnalyticStyle = "outer" BCubic = "plus"
  Sizes = {302, 403}
  Cells = {23}
  Halos = {0, 3}
  ModeSet = {202, 1212}
  NZs = {4}
  LevelLists = "mixed"
  Tabs = {1}
  Analytic = {TRUE}
  Family = "conserve"
INIT Init
NEXT Next
CHECK_DEADLOCK FALSE
INVARIANT StagesAgree
INVARIANT ShapeOrError
INVARIANT MeanFlux
INVARIANT MeanConc
INVARIANT HaloIsPadding
INVARIANT Emit
