\* composition: 2 towers x 3 steps, 3 workers, towers strategy, repeated record
CONSTANTS
  NT = 2 NS = 3 NW = 3
  Strategy = "towers" ParentThreads = 4 UseCache = TRUE RepeatStep = 3 CatchLoad = TRUE WorkerInit = TRUE
INIT Init
NEXT Next
CHECK_DEADLOCK FALSE
INVARIANT EachIsSingle
INVARIANT HitsAreRight
INVARIANT NeverFatal
INVARIANT WorkerFFTsSingle
INVARIANT WorkerSolvesReset
