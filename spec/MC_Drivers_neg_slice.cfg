\* negative control: flat list sliced with stride n_towers - EachIsSingle must be violated
CONSTANTS
  MaxNT = 3 MaxNS = 2 MaxNW = 2
  Strategies = {"both"}
  ParentThreadSet = {1, 4}
  Collect = "position" SliceStep = "NT" WorkerInit = TRUE
INIT Init
NEXT Next
CHECK_DEADLOCK FALSE
INVARIANT KeysInConfigOrder
INVARIANT OnePerStep
INVARIANT EachIsSingle
INVARIANT EveryTaskOnce
INVARIANT InitBeforeSolve
