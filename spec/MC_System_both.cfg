\* composition: both strategy (per-step workers never reach the cache), a repeated record, parent with 4 threads
CONSTANTS
  NT = 2 NS = 2 NW = 2
  Strategy = "both" ParentThreads = 4 UseCache = FALSE RepeatStep = 2 CatchLoad = TRUE WorkerInit = TRUE
INIT Init
NEXT Next
CHECK_DEADLOCK FALSE
INVARIANT EachIsSingle
INVARIANT HitsAreRight
INVARIANT NeverFatal
INVARIANT WorkerFFTsSingle
INVARIANT WorkerSolvesReset
