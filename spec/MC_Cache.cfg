\* C15: repaired design - key over every result-determining parameter, halo resolved before the lookup, store written in place (as the code does), unreadable entry = miss
CONSTANTS
  KeyFields = {"shape", "z", "profiles", "domain", "levels", "modes", "meas_pt", "bg", "analytic", "halo", "precision"}
  HaloAtGet = "resolved"
  AtomicPut = FALSE
  CatchLoad = TRUE
  MaxCrashes = 2
  FreeRequests = 0
INIT Init
NEXT Next
CHECK_DEADLOCK FALSE
INVARIANT Transparent
INVARIANT NeverFatal
INVARIANT Effective
INVARIANT StoreSound
INVARIANT KeyDeterminesResult
INVARIANT LookupFindsOwnStore
INVARIANT Emit
