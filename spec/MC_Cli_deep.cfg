\* advisory (C14): every history of five, modulo the history variables
CONSTANTS
  Force = TRUE
  Idempotent = TRUE
  FlagFirst = FALSE
  MaxCalls = 5
  DryStyle = "pure"
INIT CInit
NEXT CNext
CHECK_DEADLOCK FALSE
INVARIANT HandlersBounded
INVARIANT HandlerFileExists
INVARIANT InitMeansConfigured
PROPERTY DryRunIsPure
PROPERTY SettingsFromConfig
PROPERTY EveryPairOnce
PROPERTY CliInitialises
PROPERTY PlotsOnlyOnRequest
PROPERTY PlotsMonotone
PROPERTY PlotPerResult
VIEW CView
