\* advisory (C14): every history of two commands / calls, replayed into the real CLI
CONSTANTS
  Force = TRUE
  Idempotent = TRUE
  FlagFirst = FALSE
  MaxCalls = 2
  DryStyle = "pure"
INIT CInit
NEXT CNext
CHECK_DEADLOCK FALSE
INVARIANT HandlersBounded
INVARIANT HandlerFileExists
INVARIANT InitMeansConfigured
PROPERTY DryRunIsPure
PROPERTY SettingsFromConfig
PROPERTY EveryPairOnce
PROPERTY CliInitialises
PROPERTY PlotsOnlyOnRequest
PROPERTY PlotsMonotone
PROPERTY PlotPerResult
INVARIANT CEmit
