----------------------------- MODULE Orientation -----------------------------
(***************************************************************************)
(* The chain of direction conventions from a configuration's wind_dir to   *)
(* where the footprint lies, as five stages.  A horizontal vector is       *)
(* abstracted to its compass SECTOR: the bearing (degrees clockwise from   *)
(* north, x = east, y = north) rounded to the nearest multiple of 15,      *)
(* i.e. a number in 0..23; a measured bearing within 7.5 degrees of the    *)
(* true one has the true sector.                                           *)
(*                                                                         *)
(*  Decompose        wind_dir d (FROM direction) -> (u, v) blows TOWARD    *)
(*                   d + 180: sector (d/15 + 12) mod 24                    *)
(*  Profiles         the wind keeps that direction at every height         *)
(*  TowerPlacement   lat/lon offsets -> signs of the tower's local (x, y): *)
(*                   east and north positive                               *)
(*  GridAxes         returned X grows with the column index (east), Y with *)
(*                   the row index (north)                                 *)
(*  SolveOrientation the footprint's centre of mass, seen from the tower,  *)
(*                   lies in the FROM sector d/15                          *)
(* Deviation switches model the classic slips: SinCos = "swapped",         *)
(* WindSign = "to" (u, v computed as if d were the direction blown to).    *)
(***************************************************************************)
EXTENDS Integers, Sequences, TLC, Json, IOUtils

CONSTANTS SinCos, WindSign, Mode        \* Mode = "enumerate" | "trace"

Sectors == 0..23
Opp(s) == (s + 12) % 24
\* mirror of a bearing at the north-east diagonal: swaps the east and north components
SwapEN(s) == ((6 - s) + 24) % 24

\* sector of the vector (u, v) the code computes from direction sector k = d / 15
WindToward(k) == LET base == IF WindSign = "from" THEN Opp(k) ELSE k
                 IN  IF SinCos = "ok" THEN base ELSE SwapEN(base)

Obs == IF Mode = "trace" THEN JsonDeserialize(IOEnv.TRACE_FILE) ELSE << >>

VARIABLES vk, vstage, vwind, vcent
ovars == <<vk, vstage, vwind, vcent>>

Init == /\ vstage = "decompose" /\ vwind = 99 /\ vcent = 99
        /\ IF Mode = "enumerate" THEN vk \in Sectors ELSE vk \in 1..Len(Obs)
K == IF Mode = "enumerate" THEN vk ELSE Obs[vk].k

Decompose == /\ vstage = "decompose" /\ vwind' = WindToward(K) /\ vstage' = "profiles" /\ UNCHANGED <<vk, vcent>>
Profiles  == /\ vstage = "profiles" /\ vstage' = "solve" /\ UNCHANGED <<vk, vwind, vcent>>       \* direction kept with height
Solve     == /\ vstage = "solve" /\ vcent' = Opp(vwind) /\ vstage' = "done" /\ UNCHANGED <<vk, vwind>>   \* the footprint lies upwind
Next == Decompose \/ Profiles \/ Solve

\* C08 on the model: the footprint lies in the direction the wind comes from, for every direction
UpwindOfTower == (Mode = "enumerate" /\ vstage = "done") => vcent = K
\* 0 / 90 / 180 / 270 degrees blow toward south / west / north / east
Cardinals == (Mode = "enumerate" /\ vstage # "decompose") =>
                 /\ (K = 0 => vwind = 12) /\ (K = 6 => vwind = 18) /\ (K = 12 => vwind = 0) /\ (K = 18 => vwind = 6)

\* trace mode: one observation per run of the real interface
\* [k, wind, prof_zm, prof_top, cent, tower_sx, tower_sy, want_sx, want_sy, x_east, y_north]
O == Obs[vk]
EmitT == (Mode = "trace" /\ vstage = "done") =>
            PrintT("@@" \o ToJson([i |-> vk,
                                   decompose |-> O.wind = vwind,
                                   profiles |-> (O.prof_zm = vwind /\ O.prof_top = vwind),
                                   placement |-> (O.tower_sx = O.want_sx /\ O.tower_sy = O.want_sy),
                                   axes |-> (O.x_east /\ O.y_north),
                                   upwind |-> O.cent = vcent]))
=============================================================================
