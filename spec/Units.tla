------------------------------- MODULE Units -------------------------------
(***************************************************************************)
(* Similarity (C07, scaling clause) as dimensional bookkeeping.            *)
(*                                                                         *)
(* Two one-parameter scalings leave the problem invariant:                 *)
(*   length:  all lengths (domain, heights, halo, measurement point) and   *)
(*            all diffusivities times a        -> flux, conc unchanged     *)
(*   rate:    winds and diffusivities times b  -> flux unchanged, conc / b *)
(* Every quantity of the solver carries a pair of exponents <<l, r>>: it   *)
(* scales by a^l b^r.  A product adds exponents, a sum needs equal         *)
(* exponents, the argument of exp / sqrt-free phase / int() must be        *)
(* dimensionless, sqrt halves.  The formulas below are the solver's, in    *)
(* the order of the code; the invariant says that every one of them is     *)
(* homogeneous and that the outputs scale as the property states.  The     *)
(* model treats the complex square root as "halving the exponents", which  *)
(* is exactly the homogeneity of the principal root for positive factors.  *)
(* Deviation switch Slip names one formula with a factor missing.          *)
(***************************************************************************)
EXTENDS Integers, Sequences, TLC

CONSTANTS Slip      \* "none" | "b_no_kzinv" (b = -dz) | "eig_no_kzinv" (advection term of the eigenvalue without 1/Kz) | "mean_no_kz"

VARIABLE vstep
Mul(x, y) == <<x[1] + y[1], x[2] + y[2]>>
Inv(x) == <<-x[1], -x[2]>>
Sq(x) == Mul(x, x)
Half(x) == <<x[1] \div 2, x[2] \div 2>>
Even(x) == (x[1] % 2) = 0 /\ (x[2] % 2) = 0
Dimless == <<0, 0>>

\* inputs
Lng == <<1, 0>>          \* dx, dy, dz, z, halo, xm, ym
Wind == <<0, 1>>         \* u, v
Diff == <<1, 1>>         \* Kx, Ky, Kz
Flux == <<0, 0>>         \* surface flux and its spectrum tq0
Conc == <<0, -1>>        \* background concentration (what the property says a concentration does)

Wave == Inv(Lng)                                     \* Lx, Ly = 2 pi k / (dx nxe)
KzInv == Inv(Diff)
\* Ti = -(Kx Lx^2 + Ky Ly^2) - i (u Lx + v Ly)
TiDiff == Mul(Diff, Sq(Wave))
TiAdv == Mul(Wind, Wave)
\* step coefficients
CoefA == Mul(Mul(KzInv, TiDiff), Sq(Lng))            \* Kzinv Ti dz^2   (added to 1)
CoefB1 == IF Slip = "b_no_kzinv" THEN Lng ELSE Mul(KzInv, Lng)                  \* Kzinv dz
CoefB3 == Mul(Mul(Sq(KzInv), TiDiff), Mul(Sq(Lng), Lng))                         \* Kzinv^2 Ti dz^3
CoefC1 == Mul(TiDiff, Lng)                           \* Ti dz
CoefC3 == Mul(Mul(KzInv, Sq(TiDiff)), Mul(Sq(Lng), Lng))                         \* Kzinv Ti^2 dz^3
\* eigenvalue of the upper boundary condition: sqrt(Kx/Kz Lx^2 + i u/Kz Lx)
EigArg1 == Mul(Mul(Diff, KzInv), Sq(Wave))
EigArg2 == IF Slip = "eig_no_kzinv" THEN Mul(Wind, Wave) ELSE Mul(Mul(Wind, KzInv), Wave)
Eig == Half(EigArg1)
\* mean mode: p00 -= q00 dz (0.5/Kz + 0.5/Kz)
MeanStep == IF Slip = "mean_no_kz" THEN Mul(Flux, Lng) ELSE Mul(Mul(Flux, Lng), KzInv)
\* phases and index arithmetic
PhaseArg == Mul(Wave, Lng)                           \* Lx (xm + px dx)
PadArg == Mul(Lng, Inv(Lng))                         \* halo / dx

Homogeneous ==
    /\ TiDiff = TiAdv                                 \* the two parts of Ti add
    /\ CoefA = Dimless                                \* a = 1 - ...
    /\ CoefB1 = CoefB3                                \* the two terms of b add
    /\ CoefC1 = CoefC3                                \* the two terms of c add
    /\ Mul(CoefB1, Flux) = Conc                       \* p' = a p + b q: b maps a flux to a concentration
    /\ Mul(CoefC1, Conc) = Flux                       \* q' = c p + d q
    /\ EigArg1 = EigArg2 /\ Even(EigArg1)             \* the radicand is homogeneous
    /\ Mul(Mul(Diff, Eig), Conc) = Flux               \* radiation condition q = Kz beta p
    /\ MeanStep = Conc                                \* the mean-mode increment is a concentration
    /\ PhaseArg = Dimless /\ PadArg = Dimless         \* exp(i Lx s), int(halo / dx)
    /\ Mul(Mul(Flux, KzInv), Inv(Eig)) = Conc         \* analytic branch: p = q Kzinv / beta
    /\ Mul(Eig, Lng) = Dimless                        \* analytic branch: exp(-beta h)

Init == vstep = 0
Next == vstep = 0 /\ vstep' = 1
\* what C07 states: flux unchanged by both scalings; concentration unchanged by the length scaling, divided by b by the rate scaling
Similarity == Homogeneous /\ Flux = <<0, 0>> /\ Conc = <<0, -1>>
=============================================================================
