\* negative control: boundary condition from the surface node
CONSTANTS
  MaxNz = 8
  SampleStyle = "lower"
  DzStyle = "own"
  TopStyle = "bottom"
  WeightStyle = "trapezoid"
INIT Init
NEXT Next
CHECK_DEADLOCK FALSE
INVARIANT InLayer
INVARIANT EveryLayerOnce
INVARIANT TopFromTopNode
INVARIANT MeanQuadrature
INVARIANT MeanEveryLayerOnce
