\* advisory (C14): histories of seven calls, run with -simulate, replayed
CONSTANTS
  Force = TRUE
  Idempotent = TRUE
  FlagFirst = FALSE
  MaxCalls = 7
SPECIFICATION Spec
CHECK_DEADLOCK FALSE
INVARIANT HandlersBounded
INVARIANT HandlerFileExists
INVARIANT InitMeansConfigured
PROPERTY LastSetupWins
PROPERTY InitOnce
PROPERTY RaisedNotRemembered
PROPERTY Monotone
INVARIANT Emit
