\* C11 shape/registration, low-pass, clamp -- pinned (deviation switches of the pinned commit; emits verdicts instead of checking)
CONSTANTS
  ShiftStyle = "halo" LevelStyle = "cursor" TruncStyle = "sym" AnalyticStyle = "flat" BCubic = "minus"
  Sizes = {202, 302, 203, 303, 402, 403, 502, 503, 404}
  Cells = {11, 23}
  Halos = {99, 0, 1, 2}
  ModeSet = {202, 402, 204, 404, 602, 302, 203, 1212, 1202}
  NZs = {3}
  LevelLists = "mid"
  Tabs = {1}
  Analytic = {FALSE}
  Family = "shape"
INIT Init
NEXT Next
CHECK_DEADLOCK FALSE
INVARIANT EmitV
