\* C10 slots, labels and level bookkeeping -- pinned (deviation switches of the pinned commit; emits verdicts instead of checking)
CONSTANTS
  ShiftStyle = "halo" LevelStyle = "cursor" TruncStyle = "sym" AnalyticStyle = "flat" BCubic = "minus"
  Sizes = {302}
  Cells = {23}
  Halos = {99}
  ModeSet = {202, 1212}
  NZs = {3, 4}
  LevelLists = "perms"
  Tabs = {1}
  Analytic = {FALSE, TRUE}
  Family = "levels"
INIT Init
NEXT Next
CHECK_DEADLOCK FALSE
INVARIANT EmitV
