\* observations recorded from the real functions are checked against the definitions
CONSTANTS NCells = 1 FMax = 1 GMax = 1 Mode = "trace"
INIT Init
NEXT Next
CHECK_DEADLOCK FALSE
INVARIANT EmitT
