CONSTANTS Slip = "mean_no_kz"
INIT Init
NEXT Next
INVARIANT Similarity
CHECK_DEADLOCK FALSE
