\* negative control: the inverse takes the cosine at the latitude of the point
CONSTANTS
  InvCos = "point"
  Axes = "xy"
  Fill = "own"
INIT Init
NEXT FillTowers
CHECK_DEADLOCK FALSE
INVARIANT RoundTripLL
INVARIANT RoundTripXY
INVARIANT Oriented
INVARIANT OwnPosition
INVARIANT Scale
