\* C06 translation equivariance -- pinned (deviation switches of the pinned commit; emits verdicts instead of checking)
CONSTANTS
  ShiftStyle = "halo" LevelStyle = "cursor" TruncStyle = "sym" AnalyticStyle = "flat" BCubic = "minus"
  Sizes = {302, 402}
  Cells = {23}
  Halos = {0, 1, 3}
  ModeSet = {202, 402, 1212}
  NZs = {3}
  LevelLists = "single"
  Tabs = {1}
  Analytic = {FALSE}
  Family = "translate"
INIT Init
NEXT Next
CHECK_DEADLOCK FALSE
INVARIANT EmitV
