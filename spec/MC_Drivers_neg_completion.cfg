\* negative control: results collected in completion order (as_completed instead of map) - EachIsSingle must be violated
CONSTANTS
  MaxNT = 2 MaxNS = 2 MaxNW = 3
  Strategies = {"towers", "time", "both"}
  ParentThreadSet = {1, 4}
  Collect = "completion" SliceStep = "NS" WorkerInit = TRUE
INIT Init
NEXT Next
CHECK_DEADLOCK FALSE
INVARIANT KeysInConfigOrder
INVARIANT OnePerStep
INVARIANT EachIsSingle
INVARIANT EveryTaskOnce
INVARIANT InitBeforeSolve
