\* C13 (defaults): every optional key absent / given / given with a falsy value, against all-absent and all-given backgrounds
CONSTANTS MaxLen = 2 StepsFrom = "all" TsCheck = "always" Scenario = "defaults"
INIT Init
NEXT Next
INVARIANT GivenIsKept
INVARIANT EmitD
CHECK_DEADLOCK FALSE
