\* composition: towers strategy, cache on, a repeated record, parent with 4 threads
CONSTANTS
  NT = 2 NS = 2 NW = 2
  Strategy = "towers" ParentThreads = 4 UseCache = TRUE RepeatStep = 2 CatchLoad = TRUE WorkerInit = TRUE
INIT Init
NEXT Next
CHECK_DEADLOCK FALSE
INVARIANT EachIsSingle
INVARIANT HitsAreRight
INVARIANT NeverFatal
INVARIANT WorkerFFTsSingle
INVARIANT WorkerSolvesReset
