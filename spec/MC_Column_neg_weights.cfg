\* negative control: quadrature weights add up to two thicknesses
CONSTANTS
  MaxNz = 8
  SampleStyle = "lower"
  DzStyle = "own"
  TopStyle = "top"
  WeightStyle = "double"
INIT Init
NEXT Next
CHECK_DEADLOCK FALSE
INVARIANT InLayer
INVARIANT EveryLayerOnce
INVARIANT TopFromTopNode
INVARIANT MeanQuadrature
INVARIANT MeanEveryLayerOnce
