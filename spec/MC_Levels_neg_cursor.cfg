\* negative control: levels stored by a running counter (pinned commit) - SlotIsSingle must be violated
CONSTANTS
  ShiftStyle = "pad" LevelStyle = "cursor" TruncStyle = "exact" AnalyticStyle = "outer" BCubic = "plus"
  Sizes = {302}
  Cells = {23}
  Halos = {99}
  ModeSet = {202, 1212}
  NZs = {3, 4}
  LevelLists = "perms"
  Tabs = {1}
  Analytic = {FALSE, TRUE}
  Family = "levels"
INIT Init
NEXT Next
CHECK_DEADLOCK FALSE
INVARIANT SlotIsSingle
