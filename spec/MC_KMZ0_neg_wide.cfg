\* negative control (a limit of the code, not of the property as used: default 22): half windows above 89 degrees (here 89.5) are not circular
CONSTANTS
  HalfWindows = {179}
  WrapStyle = "code"
  Rotations = {179}
INIT Init
NEXT Body
CHECK_DEADLOCK FALSE
INVARIANT EveryObservationOnce
INVARIANT WindowIsCircular
INVARIANT RotationInvariant
INVARIANT BinInside
