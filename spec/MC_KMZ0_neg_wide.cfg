\* negative control (a limit of the code, not of the property as used: default 22): half windows of 90 degrees and more are not circular
CONSTANTS
  HalfWindows = {90}
  WrapStyle = "code"
  Rotations = {90}
INIT Init
NEXT Body
CHECK_DEADLOCK FALSE
INVARIANT EveryObservationOnce
INVARIANT WindowIsCircular
INVARIANT RotationInvariant
INVARIANT BinInside
