\* negative control: datasets memoised by path
CONSTANTS
  Paths = {1, 2}
  MaxOps = 5
  LoadStyle = "memo"
INIT Init
NEXT Next
CHECK_DEADLOCK FALSE
INVARIANT LoadReturnsLastSaved
