---------------------------- MODULE TraceDrivers ----------------------------
(***************************************************************************)
(* Trace validation of run_bldfm_parallel: the events of the parent and of *)
(* every worker process of one run are checked against Drivers.tla.        *)
(* Events carry a process id and a per-process sequence number only, so    *)
(* the cross-process interleaving is not recorded: TLC searches for an     *)
(* interleaving of the per-process sequences that is a behaviour of the    *)
(* specification (idle worker takes the NEXT unstarted task, resets the    *)
(* inherited state, solves its steps in time order, result at the task's   *)
(* position) and ends with the keys / list lengths the parent logged.      *)
(*                                                                         *)
(* Runs == <<[nt, ns, nw, strat, keys, lens,                               *)
(*            procs : phase -> <<per-process event sequences>>]>>          *)
(* event: [e |-> "init" | "solve" | "sbegin" | "send", tower, step, thr]   *)
(***************************************************************************)
EXTENDS Drivers, IOUtils

Runs == JsonDeserialize(IOEnv.TRACE_FILE)

VARIABLES vrun, vpos      \* run number; vpos[w] = events of process w (of the current phase) consumed so far
tdv == <<vcfg, vphase, vnext, vbusy, vinit, vwthr, vprog, vacc, vout, vorder, vresults, vpcd, vrun, vpos>>

R == Runs[vrun]
Procs == IF vphase <= Len(R.procs) THEN R.procs[vphase] ELSE << >>
NProcs == Len(Procs)
EvW(w) == Procs[w][vpos[w] + 1]
HasW(w) == w <= NProcs /\ vpos[w] < Len(Procs[w])
IsW(w, name) == HasW(w) /\ EvW(w).e = name
AllConsumed == \A w \in 1..NProcs : vpos[w] = Len(Procs[w])

TInit == /\ vrun \in 1..Len(Runs)
         /\ vcfg = [nt |-> Runs[vrun].nt, ns |-> Runs[vrun].ns, nw |-> Runs[vrun].nw, strat |-> Runs[vrun].strat, pt |-> 4]
         /\ vphase = 1 /\ vnext = 1
         /\ vbusy = [w \in 1..Runs[vrun].nw |-> 0] /\ vinit = [w \in 1..Runs[vrun].nw |-> FALSE]
         /\ vwthr = [w \in 1..Runs[vrun].nw |-> 4]
         /\ vprog = [w \in 1..Runs[vrun].nw |-> 0] /\ vacc = [w \in 1..Runs[vrun].nw |-> << >>]
         /\ vout = << >> /\ vorder = << >> /\ vresults = << >> /\ vpcd = "submit"
         /\ vpos = [w \in 1..Runs[vrun].nw |-> 0]

TSubmit == Submit /\ vpos' = [w \in Workers |-> 0] /\ UNCHANGED vrun

\* serial drivers and the CLI loop: the caller's own events, in list order
TSerialStart == SerialStart /\ UNCHANGED <<vrun, vpos>>
TSerialSolve == /\ IsW(1, "solve") /\ SerialStep
                /\ Tasks[vnext] = <<EvW(1).tower, EvW(1).step>>
                /\ vpos' = [vpos EXCEPT ![1] = @ + 1] /\ UNCHANGED vrun
TSerialMark ==  /\ vpcd = "serialrun" /\ (IsW(1, "sbegin") \/ IsW(1, "send"))
                /\ (IsW(1, "sbegin") => vnext <= NTasks /\ Tasks[vnext] = <<EvW(1).tower, 1>>)                \* a series starts at its first step
                /\ (IsW(1, "send") => vnext > 1 /\ Tasks[vnext - 1] = <<EvW(1).tower, NS>> /\ EvW(1).step = NS)   \* and ends after its last
                /\ vpos' = [vpos EXCEPT ![1] = @ + 1]
                /\ UNCHANGED <<vcfg, vphase, vnext, vbusy, vinit, vwthr, vprog, vacc, vout, vorder, vresults, vpcd, vrun>>
TSerialDone ==  SerialDone /\ AllConsumed /\ UNCHANGED <<vrun, vpos>>

\* worker_init: the process took a task and reset its inherited state; the task must be the next unstarted one
TTakeInit(w) ==
    /\ IsW(w, "init") /\ vpcd = "run" /\ vbusy[w] = 0 /\ vnext <= NTasks
    /\ Tasks[vnext] = <<EvW(w).tower, EvW(w).step>>
    /\ EvW(w).thr = 1                                                     \* logged thread setting after the reset
    /\ vbusy' = [vbusy EXCEPT ![w] = vnext] /\ vnext' = vnext + 1
    /\ vinit' = [vinit EXCEPT ![w] = TRUE] /\ vwthr' = [vwthr EXCEPT ![w] = 1]
    /\ vprog' = [vprog EXCEPT ![w] = 0] /\ vacc' = [vacc EXCEPT ![w] = << >>]
    /\ vpos' = [vpos EXCEPT ![w] = @ + 1]
    /\ UNCHANGED <<vcfg, vphase, vout, vorder, vresults, vpcd, vrun>>
\* series_begin / series_end frame the steps of a series task (no state change)
TSeriesMark(w) ==
    /\ (IsW(w, "sbegin") \/ IsW(w, "send")) /\ vbusy[w] # 0 /\ Tasks[vbusy[w]][2] = 0
    /\ EvW(w).tower = Tasks[vbusy[w]][1]
    /\ (IsW(w, "sbegin") => vprog[w] = 0) /\ (IsW(w, "send") => vprog[w] = NS /\ EvW(w).step = NS)
    /\ vpos' = [vpos EXCEPT ![w] = @ + 1]
    /\ UNCHANGED <<vcfg, vphase, vnext, vbusy, vinit, vwthr, vprog, vacc, vout, vorder, vresults, vpcd, vrun>>
\* one single run: it must be the run the model performs next in that worker
TSolve(w) ==
    /\ IsW(w, "solve") /\ WSolve(w)
    /\ LET tk == Tasks[vbusy[w]] IN
       /\ EvW(w).tower = tk[1]
       /\ EvW(w).step = (IF tk[2] = 0 THEN vprog[w] + 1 ELSE tk[2])
    /\ vpos' = [vpos EXCEPT ![w] = @ + 1] /\ UNCHANGED vrun
TFinish(w) ==
    /\ Finish(w) /\ (~HasW(w) \/ IsW(w, "init")) /\ UNCHANGED <<vrun, vpos>>
TPoolDone == PoolDone /\ AllConsumed /\ UNCHANGED <<vrun, vpos>>
TAssemble == Assemble /\ UNCHANGED vrun /\ vpos' = [w \in Workers |-> 0]

TNext == TSerialStart \/ TSerialSolve \/ TSerialMark \/ TSerialDone \/ TSubmit \/ (\E w \in Workers : TTakeInit(w) \/ TSeriesMark(w) \/ TSolve(w) \/ TFinish(w)) \/ TPoolDone \/ TAssemble

\* the assembled result has the keys and lengths the parent logged, and they are the configuration's
EndOK == vpcd = "done" =>
            /\ [i \in 1..Len(vresults) |-> vresults[i][1]] = R.keys
            /\ [i \in 1..Len(vresults) |-> Len(vresults[i][2])] = R.lens
View2 == <<vcfg, vphase, vnext, vbusy, vinit, vwthr, vprog, vacc, vout, vresults, vpcd, vrun, vpos>>
KeysWanted == IF Strategy = "cli" THEN [k \in 1..(NT * NS) |-> ((k - 1) \div NS) + 1] ELSE [i \in 1..NT |-> i]
LensWanted == IF Strategy = "cli" THEN [k \in 1..(NT * NS) |-> 1] ELSE [i \in 1..NT |-> NS]
Report == vpcd = "done" => PrintT("@@" \o ToJson([run |-> vrun, ok |-> (R.keys = KeysWanted /\ R.lens = LensWanted)]))
=============================================================================
