\* negative control: ustar derived from z0 without the stability correction
CONSTANTS
  Bounds = "quick"
  InvStyle = "no_psi"
  GridStep = "zm_over_n"
  WindNorm = "absum"
INIT Init
NEXT Next
CHECK_DEADLOCK FALSE
INVARIANT ErrorsAsDeclared
INVARIANT GridIndex
INVARIANT WindAtZm
INVARIANT DirectionConstant
INVARIANT SpeedIncreases
INVARIANT KPositive
INVARIANT RoundTrip
