\* negative control: raw halo in the phase shift - HaloIsPadding must be violated
CONSTANTS
  ShiftStyle = "halo" LevelStyle = "match" TruncStyle = "exact" AnalyticStyle = "outer" BCubic = "plus"
  Sizes = {302, 403}
  Cells = {11, 23}
  Halos = {0, 1, 3}
  ModeSet = {202, 402, 1212}
  NZs = {4}
  LevelLists = "asc"
  Tabs = {1}
  Analytic = {FALSE, TRUE}
  Family = "conserve"
INIT Init
NEXT Next
CHECK_DEADLOCK FALSE
INVARIANT HaloIsPadding
