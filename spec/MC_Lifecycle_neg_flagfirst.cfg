\* negative control: flag set before the directories are made - expects RaisedNotRemembered violated
CONSTANTS
  Force = TRUE
  Idempotent = TRUE
  FlagFirst = TRUE
  MaxCalls = 2
SPECIFICATION Spec
CHECK_DEADLOCK FALSE
INVARIANT HandlersBounded
INVARIANT HandlerFileExists
INVARIANT InitMeansConfigured
PROPERTY LastSetupWins
PROPERTY InitOnce
PROPERTY RaisedNotRemembered
PROPERTY Monotone
